-------------------------------- MODULE TrJID --------------------------------
(* Pipeline C of C11: observations recorded from the real package mellium.im/xmpp/jid       *)
(* (harness/cmd/jidcanon) validated against the laws of JID.tla.  Strings are sequences of  *)
(* code points; the split and assemble rules are the operators of JID.tla instantiated with *)
(* the code points of "/" and "@".  One trace = one address the package returned (the       *)
(* subject) and what the exported API says about it.  Batch scheme of TrNegotiation.        *)
EXTENDS JID, Json

Trace == ndJsonDeserialize("trace.ndjson")

VARIABLES ln, t0,
          store      \* value layer (JIDStore.tla, observer): the addresses a store program has been handed so far
tvars == <<vars, ln, t0, store>>

Starts == {i \in 1..Len(Trace) : Trace[i].ev = "reset"}
EndOf(i) == Trace[i].end
IsEv(e) == ln < EndOf(t0) /\ Trace[ln].ev = e /\ ln' = ln + 1

SLASH == 47
ATSIGN == 64
ForbiddenCp == {34, 38, 39, 47, 58, 60, 62, 64}          \* " & ' / : < > @
U8Len(c) == IF c < 128 THEN 1 ELSE IF c < 2048 THEN 2 ELSE IF c < 65536 THEN 3 ELSE 4
RECURSIVE U8Sum(_)
U8Sum(p) == IF p = <<>> THEN 0 ELSE U8Len(Head(p)) + U8Sum(Tail(p))
Asm(l, d, r) == AssembleWith(l, d, r, SLASH, ATSIGN)
PartsOf(e) == JIDOf(e.l, e.d, e.r)

(* C11_PartsValid over code points *)
PartsValidCp(x) ==
  /\ x.d # <<>>
  /\ U8Sum(x.l) <= 1023 /\ U8Sum(x.d) <= 1023 /\ U8Sum(x.r) <= 1023
  /\ \A i \in 1..Len(x.l) : x.l[i] \notin ForbiddenCp
  /\ \A i \in 1..Len(x.d) : x.d[i] \notin {SLASH, ATSIGN}      \* or the string form would split differently

TInit == /\ t0 \in Starts /\ ln = t0 /\ j = NoJID /\ lenient = FALSE /\ agree = TRUE /\ store = <<>>

TrReset == ln = t0 /\ IsEv("reset") /\ UNCHANGED vars

(* C11_SplitRule on any input: SplitString follows the first "/" then the first "@" *)
TrSplit ==
  /\ IsEv("split")
  /\ LET e == Trace[ln]  sp == SplitWith(e.in, SLASH, ATSIGN) IN
       /\ (e.err = "none") = (sp.err = "none")
       /\ (sp.err = "none") => (e.l = sp.l /\ e.d = sp.d /\ e.r = sp.r)
  /\ UNCHANGED vars

(* an address was returned without error: it becomes the subject; C11_PartsValid *)
TrMade ==
  /\ IsEv("made")
  /\ j' = PartsOf(Trace[ln]) /\ PartsValidCp(j')
  /\ UNCHANGED <<lenient, agree>>

(* C11_AccessorsAgree: String() is the parts assembled; C11_SplitRule: it splits back *)
TrString ==
  /\ IsEv("string") /\ j.ok
  /\ Trace[ln].out = Asm(j.l, j.d, j.r)
  /\ LET sp == SplitWith(Trace[ln].out, SLASH, ATSIGN) IN sp.err = "none" /\ sp.l = j.l /\ sp.d = j.d /\ sp.r = j.r
  /\ UNCHANGED vars

TrEqual ==
  /\ IsEv("equal") /\ j.ok
  /\ LET w == Trace[ln].with IN
       Trace[ln].res = (CASE w \in {"self", "copy", "reparse"} -> TRUE
                          [] w = "bare" -> j.r = <<>>
                          [] w = "domain" -> j.r = <<>> /\ j.l = <<>>
                          [] w = "baredomain" -> j.l = <<>>)
  /\ UNCHANGED vars

(* C11_Idempotent: parsing the string form yields an equal address *)
TrReparse ==
  /\ IsEv("reparse") /\ j.ok
  /\ Trace[ln].ok /\ PartsOf(Trace[ln]) = j
  /\ UNCHANGED vars

(* Bare() / Domain(): the right parts, their own string form, and canonical themselves *)
TrDerived ==
  /\ IsEv("derived") /\ j.ok
  /\ LET e == Trace[ln]
         want == IF e.how = "bare" THEN Bare(j) ELSE DomainOf(j)
     IN /\ PartsOf(e) = want /\ e.str = Asm(want.l, want.d, want.r)
        /\ e.rok /\ JIDOf(e.rl, e.rd, e.rr) = want
  /\ UNCHANGED vars

(* C11_BuildReplaceParseAgree: New / With* given the address's own parts give the address *)
TrRebuild ==
  /\ IsEv("rebuild") /\ j.ok
  /\ Trace[ln].ok /\ PartsOf(Trace[ln]) = j
  /\ UNCHANGED vars

(* ... and replacing one part agrees with building from the replaced parts *)
TrReplace ==
  /\ IsEv("replace")
  /\ LET e == Trace[ln] IN
       /\ e.ok = e.nok
       /\ e.ok => /\ JIDOf(e.l, e.d, e.r) = JIDOf(e.nl, e.nd, e.nr)
                  /\ PartsValidCp(JIDOf(e.l, e.d, e.r))
  /\ UNCHANGED vars

(* C11_XMLRoundTrip *)
TrXml ==
  /\ IsEv("xml") /\ j.ok
  /\ Trace[ln].ok /\ PartsOf(Trace[ln]) = j
  /\ UNCHANGED vars

(* ---- value layer: programs over the store (observer layer of JIDStore.tla over code points) ---- *)
P3(e) == [l |-> e.l, d |-> e.d, r |-> e.r]
TrBase ==
  /\ IsEv("base") /\ store = <<>>
  /\ store' = <<P3(Trace[ln])>> /\ PartsValidCp(JIDOf(Trace[ln].l, Trace[ln].d, Trace[ln].r))
  /\ UNCHANGED vars

(* one operation on the e.h-th address handed out: the result is the address the laws name (the replaced  *)
(* part as New normalises it), it is appended, and EVERY address handed out so far still reads as it did   *)
(* (C11_Immutable) - e.obs is what the accessors of all of them say after the operation                    *)
TrHop ==
  /\ IsEv("hop") /\ store # <<>>
  /\ LET e == Trace[ln]  x == store[e.h]  y == P3(e) IN
       /\ e.h \in 1..Len(store)
       /\ e.ok = e.nok
       /\ e.ok =>
            /\ CASE e.op = "bare" -> y = [x EXCEPT !.r = <<>>]
                 [] e.op = "domain" -> y = [l |-> <<>>, d |-> x.d, r |-> <<>>]
                 [] e.op = "copy" -> y = x
                 [] e.op = "withl" -> y = [x EXCEPT !.l = e.nl] /\ e.nd = x.d /\ e.nr = x.r
                 [] e.op = "withd" -> y = [x EXCEPT !.d = e.nd] /\ e.nl = x.l /\ e.nr = x.r
                 [] e.op = "withr" -> y = [x EXCEPT !.r = e.nr] /\ e.nl = x.l /\ e.nd = x.d
            /\ PartsValidCp(JIDOf(y.l, y.d, y.r))
       /\ store' = IF e.ok THEN Append(store, y) ELSE store
       /\ e.obs = store'
  /\ UNCHANGED vars

TNext ==
  /\ ln < EndOf(t0)
  /\ \/ (TrReset \/ TrSplit \/ TrMade \/ TrString \/ TrEqual \/ TrReparse \/ TrDerived
         \/ TrRebuild \/ TrReplace \/ TrXml) /\ UNCHANGED store
     \/ TrBase \/ TrHop
  /\ UNCHANGED t0

TSpec == TInit /\ [][TNext]_tvars

HW == TLCSet(t0, IF TLCGet(t0) < ln THEN ln ELSE TLCGet(t0))
Rejected == {i \in Starts : TLCGet(i) # EndOf(i)}
Accepted ==
  \/ Rejected = {}
  \/ PrintT(<<"REJECTED", {<<Trace[i].t, TLCGet(i)>> : i \in Rejected}>>) /\ FALSE
ASSUME \A i \in Starts : TLCSet(i, 0)
=============================================================================
