------------------------------ MODULE EmitPush ------------------------------
(* Pipeline B of XPUSH: the stanza grammar and the handler configurations of MCPush.tla, written *)
(* for the scenario composer (checks/pushcommon.py) and the driver (harness/cmd/push).          *)
EXTENDS MCPush, Json, SequencesExt

ASSUME PrintT(<<"ALPHABET", Cardinality(Alphabet), Cardinality(Core), Cardinality(Cfgs)>>)
ASSUME JsonSerialize("push-alphabet.json", [alphabet |-> SetToSeq(Alphabet), core |-> SetToSeq(Core), cfgs |-> SetToSeq(Cfgs),
                                            corecfgs |-> SetToSeq(CoreCfgs), probe |-> Probe, full |-> Full])
=============================================================================
