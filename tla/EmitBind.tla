------------------------------ MODULE EmitBind ------------------------------
(* Emits the bind scenarios with the expectation computed by Bind.tla. *)
EXTENDS Bind, Json, SequencesExt

ASSUME ndJsonSerialize("bind_init.ndjson",
         SetToSeq({[in |-> s, exp |-> ExpInit(s)] : s \in InitScenarios(MaxStr)}))
ASSUME ndJsonSerialize("bind_recv.ndjson",
         SetToSeq({[in |-> s, exp |-> ExpRecv(s)] : s \in RecvScenarios(MaxStr)}))
(* feature values shared by several sessions (NSess >= 4: every interleaving of four sessions) *)
ASSUME ndJsonSerialize("bind_shared.ndjson",
         SetToSeq({[in |-> s, exp |-> ExpShared(s)] : s \in {x \in SharedScenarios(NSess >= 4) : WellFormedShared(x)}}))

EInit == sc = 0 /\ pc = "" /\ req = 0 /\ addr = 0 /\ answer = 0 /\ cbarg = 0 /\ out = "" /\ sh = 0
ENext == UNCHANGED vars
=============================================================================
