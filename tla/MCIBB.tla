------------------------------- MODULE MCIBB -------------------------------
EXTENDS IBB
Buf2 == [e \in E |-> 2]
Buf3 == [e \in E |-> 3]
WOneWay == [e \in E |-> IF e = "a" THEN 5 ELSE 0]
WOneWay2 == [e \in E |-> IF e = "a" THEN 2 ELSE 0]
WOneWay4 == [e \in E |-> IF e = "a" THEN 4 ELSE 0]
WBoth1 == [e \in E |-> 1]
WOneWay3 == [e \in E |-> IF e = "a" THEN 3 ELSE 0]
WLive == [e \in E |-> IF e = "a" THEN 2 ELSE 0]
WBoth == [e \in E |-> 2]
WBoth3 == [e \in E |-> IF e = "a" THEN 3 ELSE 2]
=============================================================================
