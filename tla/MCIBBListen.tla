---------------------------- MODULE MCIBBListen ----------------------------
EXTENDS IBBListen
(* x1 and x2 ask for the same session (take-over), x3 for another one; o1 opens the first, o2 the second *)
XKey1 == [x \in XCalls |-> IF x = "x3" THEN "k2" ELSE "k1"]
OKey1 == [o \in Opens |-> IF o = "o2" THEN "k2" ELSE "k1"]
=============================================================================
