---------------------------- MODULE MCIBBListen ----------------------------
EXTENDS IBBListen
(* x1 and x2 ask for the same session (take-over), x3 for another one; o1 opens the first, o2 the second *)
XKey1 == [x \in XCalls |-> IF x = "x3" THEN "k2" ELSE "k1"]
OKey1 == [o \in Opens |-> IF o = "o2" THEN "k2" ELSE "k1"]
AllNames == Calls \cup TCalls \cup Reqs
(* one session *)
CLb == [c \in AllNames |-> "b"]
LInitAny == [Lsn -> {"none", "open"}]
(* two sessions sharing the Handler: the names ending in 2 (a2, o2, c2, p2) and the Listen call l1 belong to the second *)
CL2 == [c \in AllNames |-> IF c \in {"a2", "o2", "c2", "p2", "l1", "x3"} THEN "c" ELSE "b"]
(* the first session listens from the start; the second one may or may not (Listen is then a call of the model) *)
LInit2 == {f \in [Lsn -> {"none", "open"}] : f["b"] = "open"}
=============================================================================
