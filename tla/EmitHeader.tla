----------------------------- MODULE EmitHeader -----------------------------
(* Emits the vectors of parts (a) and (b) with the expectation computed by Header.tla. *)
EXTENDS Header, Json, SequencesExt

ASSUME ndJsonSerialize("emit_vectors.ndjson",
         SetToSeq({[in |-> e, exp |-> Recovered(e)] : e \in EmitVectors(MaxStr)}))
AV(h) == [in |-> h, exp |-> Expect(h), info |-> Recover(h)]
ASSUME ndJsonSerialize("accept_vectors.ndjson",
         SetToSeq({AV(h) : h \in AcceptVectors({"none", "decl", "space"}, {"absent", "valid", "invalid"})})
         \o SetToSeq({AV(h) : h \in VersionVectors}) \o SetToSeq({AV(h) : h \in LookVectors}))

(* sessions negotiated through one Negotiator value *)
ASSUME ndJsonSerialize("emit_shared.ndjson",
         SetToSeq({[in |-> sx, exp |-> ExpSharedEmit(sx)] : sx \in SharedEmitScenarios}))

EInit == x = 0 /\ wire = 0 /\ v = 0 /\ pc = "" /\ verdict = ""
ENext == UNCHANGED <<avars, bvars>>
=============================================================================
