----------------------------- MODULE EmitHeader -----------------------------
(* Emits the vectors of parts (a), (b) and (b') with the expectation computed by Header.tla. *)
EXTENDS Header, Json, SequencesExt

ASSUME ndJsonSerialize("emit_vectors.ndjson",
         SetToSeq({[in |-> e, exp |-> Recovered(e)] : e \in EmitVectors(MaxStr)}))
AV(h) == [in |-> h, exp |-> Expect(h), info |-> Recover(h)]
ASSUME ndJsonSerialize("accept_vectors.ndjson",
         SetToSeq({AV(h) : h \in AcceptVectors({"none", "decl", "space"}, {"absent", "valid", "invalid"})})
         \o SetToSeq({AV(h) : h \in VersionVectors}) \o SetToSeq({AV(h) : h \in LookVectors}))

(* sessions negotiated through one Negotiator value *)
ASSUME ndJsonSerialize("emit_shared.ndjson",
         SetToSeq({[in |-> sx, exp |-> ExpSharedEmit(sx)] : sx \in SharedEmitScenarios}))

(* (defined here and not in Header.tla: TLC evaluates constant definitions without      *)
(* parameters at start-up, in every run of every module that extends Header)            *)
(* the sequences as vectors: those with one restart, those with two *)
SeqTwo == UNION {{<<h1, h2>> : h2 \in SeqCont(<<h1>>)} : h1 \in Heads}
SeqThree == UNION {{<<h1, Complete(h1.role, h1.framing), h3>> : h3 \in SeqCont(<<h1, Complete(h1.role, h1.framing)>>)} : h1 \in Heads}
(* sequences of headers across restarts: the expectation for every header and what an  *)
(* accepting session reports after the last one                                        *)
SV(s) == [in |-> [hs |-> s], exp |-> [j \in 1..Len(s) |-> ExpectAt(s, j)], info |-> RecoverAt(s, Len(s))]
ASSUME ndJsonSerialize("accept_seq.ndjson",
         SetToSeq({SV(s) : s \in SeqTwo}) \o SetToSeq({SV(s) : s \in SeqThree}))

EInit == x = 0 /\ wire = 0 /\ v = 0 /\ pc = "" /\ verdict = "" /\ hs = 0 /\ k = 0 /\ spc = "" /\ sverdict = "" /\ info = 0 /\ estab = 0
ENext == UNCHANGED <<avars, bvars, svars>>
=============================================================================
