------------------------------- MODULE TrIBB -------------------------------
(* Trace validation of recorded runs of real in-band bytestreams between two real xmpp    *)
(* sessions (harness/cmd/ibb) against IBB.  M = 65536.  Batch scheme of TrCorrelate.      *)
EXTENDS IBB, Json

Trace == ndJsonDeserialize("trace.ndjson")
VARIABLES l, t0
tvars == <<vars, l, t0>>
noLim == <<ost, tbl, wlen, sent, nextSeq, broken, cst, flushing, chan, owed, expSeq, acc, del, rpc, ready,
           sawEOF, corrupt, badEOF, badOpen, ninj>>
Starts == {i \in 1..Len(Trace) : Trace[i].ev = "reset"}
EndOf(i) == Trace[i].end
IsEv(e) == l < EndOf(t0) /\ Trace[l].ev = e /\ l' = l + 1
Ev == Trace[l]
ToSet(s) == {s[i] : i \in 1..Len(s)}
NoBuf == [e \in E |-> 0]

TInit == t0 \in Starts /\ l = t0 /\ Init

TrReset ==
  /\ l = t0 /\ IsEv("reset")
  /\ lim' = [e \in E |-> Ev.maxbuf[e]]
  /\ UNCHANGED noLim

SidOf(x) == IF x = "s" THEN Sid ELSE "u"

(* ---- the wire tap ---- *)
TrWireOpen == IsEv("wire") /\ Ev.kind = "open" /\ ~Ev.inj /\ Ev.to = "b" /\ OpenCall(Ev.id)

(* a data packet of the stream's own writer (the real Conn, or the scripted peer acting as the writer) *)
TrWireData ==
  /\ IsEv("wire") /\ Ev.kind = "data" /\ ~Ev.inj
  /\ LET w == Peer(Ev.to) IN
     IF broken[w]
       THEN (* the stream is broken for this writer: the property says nothing about what it still sends *)
            /\ chan' = [chan EXCEPT ![Ev.to] = Append(@, Stanza(Ev.id, "data", Ev.carrier, SidOf(Ev.sid), Ev.seq,
                                                           IF sent[w] \in ToSet(Ev.offs) THEN sent[w] ELSE -1, Ev.n, Ev.ok, FALSE))]
            /\ UNCHANGED <<ost, tbl, wlen, sent, nextSeq, broken, cst, flushing, owed, expSeq, acc, del, rpc, ready, sawEOF, corrupt, badEOF, badOpen, ninj, lim>>
       ELSE /\ Ev.sid = "s" /\ Ev.ok
            /\ Ev.seq = nextSeq[w]                               \* C15_ConsecutiveSeq
            /\ IF Ev.n = 0
                 THEN /\ MaySend(w)
                      /\ chan' = [chan EXCEPT ![Ev.to] = Append(@, Stanza(Ev.id, "data", Ev.carrier, Sid, Ev.seq, sent[w], 0, TRUE, FALSE))]
                      /\ nextSeq' = [nextSeq EXCEPT ![w] = (@ + 1) % M]
                      /\ UNCHANGED <<ost, tbl, wlen, sent, broken, cst, flushing, owed, expSeq, acc, del, rpc, ready, sawEOF, corrupt, badEOF, badOpen, ninj, lim>>
                 ELSE /\ sent[w] \in ToSet(Ev.offs)               \* exactly the next unsent bytes of its stream
                      /\ Packetise(w, Ev.id, Ev.n, Ev.carrier)

TrWireClose == IsEv("wire") /\ Ev.kind = "close" /\ ~Ev.inj /\ Ev.sid = "s" /\ CloseReq(Peer(Ev.to), Ev.id)

(* anything else that travels to an endpoint: injected packets, stanzas the model does not know *)
TrWireInj ==
  /\ IsEv("wire") /\ (Ev.inj \/ Ev.kind = "other")
  /\ chan' = [chan EXCEPT ![Ev.to] = Append(@, Stanza(Ev.id, IF Ev.kind = "open" THEN "other" ELSE Ev.kind, Ev.carrier, SidOf(Ev.sid), Ev.seq, -1, Ev.n, Ev.ok, TRUE))]
  /\ ninj' = ninj + 1
  /\ UNCHANGED <<ost, tbl, wlen, sent, nextSeq, broken, cst, flushing, owed, expSeq, acc, del, rpc, ready, sawEOF, corrupt, badEOF, badOpen, lim>>

TrReply ==
  /\ IsEv("reply")
  /\ Reply(Peer(Ev.to), Ev.id, IF Ev.res = "result" THEN "result" ELSE Ev.cond)

(* ---- the serve loop hands a request-like stanza to the handler ---- *)
TrDeliver ==
  /\ IsEv("deliver")
  /\ chan[Ev.e] # <<>> /\ Head(chan[Ev.e]).id = Ev.id
  /\ LET k == Head(chan[Ev.e]).kind IN
     \/ k = "open" /\ Ev.e = "b" /\ \E a \in BOOLEAN : DeliverOpen(a)
     \/ k = "data" /\ \E r \in Conds \cup {"none"} : DeliverData(Ev.e, r)
     \/ k = "close" /\ DeliverClose(Ev.e)
     \/ (k = "other" \/ (k = "open" /\ Ev.e # "b")) /\ DeliverOther(Ev.e)

(* ---- API ---- *)
TrOpenCall == IsEv("open_call") /\ ost = "idle" /\ UNCHANGED vars
TrOpenRet == IsEv("open_ret") /\ OpenRet(Ev.ok)
TrAccept == IsEv("accept") /\ (Ev.ok => tbl["b"] # "none") /\ UNCHANGED vars
TrWrite == IsEv("write") /\ Write(Ev.e, Ev.n)
TrNoReq == (IsEv("write_ret") \/ IsEv("flush") \/ IsEv("flush_ret") \/ IsEv("hook") \/ IsEv("hang")) /\ UNCHANGED vars
TrCloseCall == IsEv("close_call") /\ (IF cst[Ev.e] = "no" THEN CloseCall(Ev.e) ELSE UNCHANGED vars)
TrCloseRet == IsEv("close_ret") /\ (IF cst[Ev.e] = "done" THEN UNCHANGED vars ELSE CloseRet(Ev.e, Ev.err # ""))
TrReadCall == IsEv("read_call") /\ ReadCall(Ev.e)
TrRead ==
  /\ IsEv("read") /\ Ev.err \in {"", "EOF"}
  /\ IF Ev.eof THEN Ev.got = 0 /\ ReadRet(Ev.e, Ev.n, 0, TRUE)
     ELSE /\ del[Ev.e] \in ToSet(Ev.offs)        \* the bytes returned are the next bytes of the peer's stream
          /\ ReadRet(Ev.e, Ev.n, Ev.got, FALSE)

(* every goroutine is blocked: each call that has not returned must be one that may legitimately wait *)
TrStuck ==
  /\ IsEv("stuck")
  /\ \A i \in 1..Len(Ev.blocked) : LET b == Ev.blocked[i] IN
       \/ b.in = "read" /\ Fill(b.e) = 0 /\ tbl[b.e] \in {"open", "closing"} /\ cst[b.e] # "done" /\ chan[b.e] = <<>>
       \/ b.in = "accept" /\ tbl["b"] = "none" /\ chan["b"] = <<>>
  /\ UNCHANGED vars

TrEnd == IsEv("end") /\ (\A e \in E : chan[e] = <<>>) /\ owed = {} /\ UNCHANGED vars

Silent == (\E e \in E : ReadCheck(e) \/ Block(e) \/ Wake(e)) /\ UNCHANGED l

Inv == C15_OpenOnlyIfAccepted /\ C15_PrefixOrder /\ C15_EOFOnlyAfterDrain

TNext ==
  /\ l < EndOf(t0)
  /\ \/ TrReset \/ TrWireOpen \/ TrWireData \/ TrWireClose \/ TrWireInj \/ TrReply \/ TrDeliver
     \/ TrOpenCall \/ TrOpenRet \/ TrAccept \/ TrWrite \/ TrNoReq \/ TrCloseCall \/ TrCloseRet \/ TrReadCall \/ TrRead
     \/ TrStuck \/ TrEnd \/ Silent
  /\ UNCHANGED t0
  /\ Inv'

TSpec == TInit /\ [][TNext]_tvars
HW == TLCSet(t0, IF TLCGet(t0) < l THEN l ELSE TLCGet(t0))
Rejected == {i \in Starts : TLCGet(i) # EndOf(i)}
Accepted ==
  \/ Rejected = {}
  \/ PrintT(<<"REJECTED", {<<Trace[i].t, TLCGet(i)>> : i \in Rejected}>>) /\ FALSE
ASSUME \A i \in Starts : TLCSet(i, 0)
=============================================================================
