------------------------------- MODULE EmitJID -------------------------------
(* Pipeline B of C11: TLC writes the vectors with the split, the class (ok / bad / free) and, *)
(* where claimed, the canonical string computed by the reference functions of JID.tla.       *)
EXTENDS JID, Json

CONSTANTS ParseLen,      \* Parse vectors: all strings over Core up to this length
          SubLen,        \* ... and all strings over SubSyms up to this length

          IPLen,         \* IP-literal family: all strings over IPAlpha up to this length that hold an address text
          PartLen        \* New vectors: all triples of parts up to this length over TripleSyms

LongParts == {<<L1022>>, <<L1023>>, <<L1024>>, <<L1022, a>>, <<a, L1022>>, <<L1022, a, a>>, <<L1022, EA>>,
              <<L1022, CS>>, <<L1022, FW>>, <<L1022, UU>>, <<L1022, DOT>>, <<L1023, DOT>>, <<L1023, IDS>>,
              <<a, DOT, L1022>>, <<L1022, DOT, a>>}
LongStrs == {Assemble(p, <<a>>, <<>>) : p \in LongParts} \cup {Assemble(<<>>, p, <<>>) : p \in LongParts}
            \cup {Assemble(<<>>, <<a>>, p) : p \in LongParts} \cup {Assemble(p, p, p) : p \in LongParts}

(* IP-literal family: the text of an IPv6 address with / without brackets, with / without a zone   *)
(* introduced by "%" whose characters include the separators - a domainpart must never contain    *)
(* "/" or "@" however the literal was recognised (C11_PartsValid, C11_SplitRule, C11_Idempotent)  *)
IPAlpha == {LB, V6B, PCT, a, SL, AT, RB}
IPZones == StrsOf({a, SL, AT, RB}, 2)
IPShaped == {lb \o <<V6B>> \o z \o rb : lb \in {<<>>, <<LB>>}, rb \in {<<>>, <<RB>>},
                                        z \in {<<>>} \cup {<<PCT>> \o zz : zz \in IPZones}}
IPStrs == IPShaped \cup {s \in StrsOf(IPAlpha, IPLen) : Has(s, {V6B})}
IPParse == IPStrs \cup {<<a, AT>> \o s : s \in IPShaped} \cup {<<a, AT>> \o s \o <<SL, a>> : s \in IPShaped}
IPTriples == {<< <<>>, s, <<>> >> : s \in IPStrs} \cup {<< <<a>>, s, <<a>> >> : s \in IPStrs}

PVec(s) == LET sp == Split(s) c == ClsParse(s) IN
  [k |-> "parse", s |-> s, err |-> sp.err, l |-> sp.l, d |-> sp.d, r |-> sp.r, cls |-> c,
   canon |-> IF c = "ok" THEN CanonParse(s) ELSE <<>>]

TripleSyms == {a, UA, AT, SL, DOT}
SmallParts == StrsOf(TripleSyms, PartLen)
OneParts == StrsOf(Core, 1)
NVec(l, d, r) == LET c == ClsNew(l, d, r) IN
  [k |-> "new", l |-> l, d |-> d, r |-> r, cls |-> c, canon |-> IF c = "ok" THEN CanonNew(l, d, r) ELSE <<>>]
Triples == (SmallParts \X SmallParts \X SmallParts) \cup (OneParts \X OneParts \X OneParts)
           \cup {<<p, <<a>>, <<>> >> : p \in LongParts} \cup {<< <<>>, p, <<>> >> : p \in LongParts}
           \cup {<< <<>>, <<a>>, p>> : p \in LongParts} \cup IPTriples

(* replacements: valid bases (raw parts), each role, every part up to length 2 over Core *)
Bases == {<< <<a>>, <<a>>, <<a>> >>, << <<>>, <<a>>, <<>> >>, << <<UA>>, <<a, DOT, UA>>, <<>> >>,
          << <<>>, <<XN>>, <<UA, SP>> >>, << <<FW, CS>>, <<V6>>, <<FW, SL, AT>> >>, << <<LB>>, <<V4>>, <<CS>> >>}
ReplParts == StrsOf(Core, 2) \cup LongParts \cup IPStrs
WVec(b, role, p) ==
  LET l == IF role = "l" THEN p ELSE NormL(b[1])
      d == IF role = "d" THEN p ELSE NormDStrict(b[2])
      r == IF role = "r" THEN p ELSE NormR(b[3])
      c == ClsNew(l, d, r)
  IN [k |-> "with", bl |-> b[1], bd |-> b[2], br |-> b[3], role |-> role, p |-> p, cls |-> c,
      canon |-> IF c = "ok" THEN CanonNew(l, d, r) ELSE <<>>]
ASSUME \A b \in Bases : ClsNew(b[1], b[2], b[3]) = "ok"

(* Equal: pairs of strings whose concatenated parts coincide in many ways *)
EqStrs == {s \in StrsOf({a, AT, SL}, 4) : ClsParse(s) = "ok"}
EVec(s1, s2) == [k |-> "eq", s1 |-> s1, s2 |-> s2, eq |-> CanonParse(s1) = CanonParse(s2)]

(* rune pool of the law-only corpus (code points; the driver composes strings from it) *)
Pool == <<97, 65, 122, 48, 45, 46, 95, 126, 33, 39, 34, 38, 47, 58, 60, 62, 64, 91, 93, 32, 92,
          233, 101, 769, 252, 223, 383, 304, 305, 8491, 8490, 8486, 453, 170, 64257, 962, 963, 931, 837,
          65313, 65312, 65295, 65294, 65377, 12290, 65398, 65438, 4352, 4449, 1488, 1575, 1632, 8205, 8204,
          183, 108, 12539, 173, 160, 12288, 5760, 128512, 65533, 888, 8364, 730, 8175, 7835, 1013, 8126,
          4348, 43868, 119137, 2364, 2325, 3953, 3954, 12441, 12363, 776, 97, 46>>

SubSyms == {a, UA, AT, SL, DOT, IDS, FW, CS, XN, SP}
ParseSet == StrsOf(Core, ParseLen) \cup StrsOf(SubSyms, SubLen) \cup LongStrs \cup IPParse
ASSUME ndJsonSerialize("parse.ndjson", SetToSeq({PVec(s) : s \in ParseSet}))
ASSUME ndJsonSerialize("new.ndjson", SetToSeq({NVec(t[1], t[2], t[3]) : t \in Triples}))
ASSUME ndJsonSerialize("with.ndjson", SetToSeq({WVec(b, role, p) : b \in Bases, role \in {"l", "d", "r"}, p \in ReplParts}))
ASSUME ndJsonSerialize("eq.ndjson", SetToSeq({EVec(s1, s2) : s1 \in EqStrs, s2 \in EqStrs}))
ASSUME JsonSerialize("plan.json", [text |-> [s \in 1..24 |-> Text[s]], pool |-> Pool])
ASSUME PrintT(<<"EMITTED", Cardinality(ParseSet), Cardinality(Triples), Cardinality(EqStrs)>>)
=============================================================================
