------------------------------- MODULE EmitJID -------------------------------
(* Pipeline B of C11: TLC writes the vectors with the split, the class (ok / bad / free) and, *)
(* where claimed, the canonical string computed by the reference functions of JID.tla.       *)
EXTENDS JID, Json

CONSTANTS ParseLen,      \* Parse vectors: all strings over Core up to this length
          SubLen,        \* ... and all strings over SubSyms up to this length

          IPLen,         \* IP-literal family: all strings over IPAlpha up to this length that hold an address text
          ACELen,        \* A-label family: all strings over ACEAlpha up to this length that hold a label with the ACE prefix
          PartLen        \* New vectors: all triples of parts up to this length over TripleSyms

LongParts == {<<L1022>>, <<L1023>>, <<L1024>>, <<L1022, a>>, <<a, L1022>>, <<L1022, a, a>>, <<L1022, EA>>,
              <<L1022, CS>>, <<L1022, FW>>, <<L1022, UU>>, <<L1022, DOT>>, <<L1023, DOT>>, <<L1023, IDS>>,
              <<a, DOT, L1022>>, <<L1022, DOT, a>>}
LongStrs == {Assemble(p, <<a>>, <<>>) : p \in LongParts} \cup {Assemble(<<>>, p, <<>>) : p \in LongParts}
            \cup {Assemble(<<>>, <<a>>, p) : p \in LongParts} \cup {Assemble(p, p, p) : p \in LongParts}

(* IP-literal family: the text of an IPv6 address with / without brackets, with / without a zone   *)
(* introduced by "%" whose characters include the separators - a domainpart must never contain    *)
(* "/" or "@" however the literal was recognised (C11_PartsValid, C11_SplitRule, C11_Idempotent)  *)
IPAlpha == {LB, V6B, PCT, a, SL, AT, RB}
IPZones == StrsOf({a, SL, AT, RB}, 2)
IPShaped == {lb \o <<V6B>> \o z \o rb : lb \in {<<>>, <<LB>>}, rb \in {<<>>, <<RB>>},
                                        z \in {<<>>} \cup {<<PCT>> \o zz : zz \in IPZones}}
IPStrs == IPShaped \cup {s \in StrsOf(IPAlpha, IPLen) : Has(s, {V6B})}
IPParse == IPStrs \cup {<<a, AT>> \o s : s \in IPShaped} \cup {<<a, AT>> \o s \o <<SL, a>> : s \in IPShaped}
IPTriples == {<< <<>>, s, <<>> >> : s \in IPStrs} \cup {<< <<a>>, s, <<a>> >> : s \in IPStrs}

(* A-label family: a label with the ACE prefix - the A-label of U+00FC in every case variant of the prefix / of the *)
(* Punycode digits, and labels that carry the prefix without being the A-label of a U-label (undecodable Punycode, *)
(* Punycode of a character IDNA maps further, Punycode of an ASCII label, the bare prefix) - alone, as first /      *)
(* middle / last label of a name, next to ASCII labels, U-labels, other such labels and to one or two final label   *)
(* separators; in every part of an address.  However the label is recognised, what is returned must be canonical   *)
(* (C11_Idempotent: parsing its string form yields an equal address) and all constructors must agree.              *)
ACEAlpha == {a, UA, DOT, UU} \cup ACESyms
ACELabels == {<<a>>, <<UA>>, <<UU>>} \cup {<<x>> : x \in ACESyms}
ACETails == {<<>>, <<DOT>>, <<DOT, DOT>>, <<IDS>>}
ACEOne == {<<x>> : x \in ACESyms}
ACETwo == {x \o <<DOT>> \o y : x \in ACELabels, y \in ACELabels}
ACELabels3 == {<<a>>, <<UU>>, <<XN>>, <<XNU>>, <<XNM>>, <<XNT>>, <<XNBAD>>, <<XNE>>}
ACEThree == {x \o <<DOT>> \o y \o <<DOT>> \o z : x \in ACELabels3, y \in ACELabels3, z \in ACELabels3}
ACEShort == {n \o t : n \in {m \in ACEOne \cup ACETwo : Has(m, ACESyms)}, t \in ACETails}
ACEShaped == {n \o t : n \in {m \in ACEOne \cup ACETwo \cup ACEThree : Has(m, ACESyms)}, t \in ACETails}
ACEStrs == ACEShaped \cup {s \in StrsOf(ACEAlpha, ACELen) : Has(s, ACESyms)}
ACEParse == ACEStrs \cup {<<UA, AT>> \o s \o <<SL, UA>> : s \in ACEShaped} \cup {<<XNU, AT>> \o s \o <<SL, XNM>> : s \in ACEShort}
ACETriples == {<< <<>>, s, <<>> >> : s \in ACEStrs} \cup {<< <<UA>>, s, <<UA>> >> : s \in ACEShaped}
              \cup {<< <<x>>, <<y>>, <<z>> >> : x \in ACESyms, y \in ACESyms, z \in ACESyms}
(* prefixes and Punycode tails of the law-only corpus (code points; the driver composes labels prefix + tail):      *)
(* tails that decode to a U-label, to a character IDNA maps further or disallows, to right-to-left letters, to a    *)
(* joiner, to ASCII; undecodable ones; with hyphens next to the prefix and at the end                               *)
AcePre == << <<120, 110, 45, 45>>, <<88, 78, 45, 45>>, <<88, 110, 45, 45>>, <<120, 78, 45, 45>>,
             <<65368, 110, 45, 45>>, <<120, 65326, 45, 45>>, <<120, 110, 45>>, <<120, 110, 8208, 45>> >>
AceTail == << <<116, 100, 97>>, <<84, 68, 65>>, <<84, 100, 97>>, <<98, 99, 104, 101, 114, 45, 107, 118, 97>>,
              <<66, 67, 72, 69, 82, 45, 75, 86, 65>>, <<122, 99, 97>>, <<57, 99, 97>>, <<51, 120, 97>>, <<99, 102, 97>>,
              <<55, 98, 97>>, <<106, 109, 54, 99>>, <<107, 106, 97>>, <<101, 45, 120, 98, 98>>, <<112, 104, 55, 99>>, <<98, 102, 97>>,
              <<97, 45, 117, 103, 110>>, <<109, 103, 98>>, <<52, 100, 98>>, <<110, 51, 104>>, <<49, 99, 104>>,
              <<97, 45, 101, 104, 97>>, <<97, 45, 100, 104, 97>>, <<45, 97, 45, 119, 107, 97>>, <<97, 45, 45, 121, 107, 97>>,
              <<97>>, <<>>, <<97, 45>>, <<115, 115, 45>>, <<45>>, <<48>>, <<116, 100, 97, 97>>, <<116, 100, 97, 45>>,
              <<120, 110, 45, 45, 116, 100, 97, 45>>, <<252>>, <<97, 45, 98>> >>

PVec(s) == LET sp == Split(s) c == ClsParse(s) IN
  [k |-> "parse", s |-> s, err |-> sp.err, l |-> sp.l, d |-> sp.d, r |-> sp.r, cls |-> c,
   canon |-> IF c = "ok" THEN CanonParse(s) ELSE <<>>]

TripleSyms == {a, UA, AT, SL, DOT}
SmallParts == StrsOf(TripleSyms, PartLen)
OneParts == StrsOf(Core, 1)
NVec(l, d, r) == LET c == ClsNew(l, d, r) IN
  [k |-> "new", l |-> l, d |-> d, r |-> r, cls |-> c, canon |-> IF c = "ok" THEN CanonNew(l, d, r) ELSE <<>>]
Triples == (SmallParts \X SmallParts \X SmallParts) \cup (OneParts \X OneParts \X OneParts)
           \cup {<<p, <<a>>, <<>> >> : p \in LongParts} \cup {<< <<>>, p, <<>> >> : p \in LongParts}
           \cup {<< <<>>, <<a>>, p>> : p \in LongParts} \cup IPTriples \cup ACETriples

(* replacements: valid bases (raw parts), each role, every part up to length 2 over Core *)
Bases == {<< <<a>>, <<a>>, <<a>> >>, << <<>>, <<a>>, <<>> >>, << <<UA>>, <<a, DOT, UA>>, <<>> >>,
          << <<>>, <<XN>>, <<UA, SP>> >>, << <<FW, CS>>, <<V6>>, <<FW, SL, AT>> >>, << <<LB>>, <<V4>>, <<CS>> >>}
ReplParts == StrsOf(Core, 2) \cup LongParts \cup IPStrs \cup ACEShort
WVec(b, role, p) ==
  LET l == IF role = "l" THEN p ELSE NormL(b[1])
      d == IF role = "d" THEN p ELSE NormDStrict(b[2])
      r == IF role = "r" THEN p ELSE NormR(b[3])
      c == ClsNew(l, d, r)
  IN [k |-> "with", bl |-> b[1], bd |-> b[2], br |-> b[3], role |-> role, p |-> p, cls |-> c,
      canon |-> IF c = "ok" THEN CanonNew(l, d, r) ELSE <<>>]
ASSUME \A b \in Bases : ClsNew(b[1], b[2], b[3]) = "ok"

(* Equal: pairs of strings whose concatenated parts coincide in many ways *)
EqStrs == {s \in StrsOf({a, AT, SL}, 4) : ClsParse(s) = "ok"}
EVec(s1, s2) == [k |-> "eq", s1 |-> s1, s2 |-> s2, eq |-> CanonParse(s1) = CanonParse(s2)]

(* rune pool of the law-only corpus (code points; the driver composes strings from it) *)
Pool == <<97, 65, 122, 48, 45, 46, 95, 126, 33, 39, 34, 38, 47, 58, 60, 62, 64, 91, 93, 32, 92,
          233, 101, 769, 252, 223, 383, 304, 305, 8491, 8490, 8486, 453, 170, 64257, 962, 963, 931, 837,
          65313, 65312, 65295, 65294, 65377, 12290, 65398, 65438, 4352, 4449, 1488, 1575, 1632, 8205, 8204,
          183, 108, 12539, 173, 160, 12288, 5760, 128512, 65533, 888, 8364, 730, 8175, 7835, 1013, 8126,
          4348, 43868, 119137, 2364, 2325, 3953, 3954, 12441, 12363, 776, 97, 46>>

SubSyms == {a, UA, AT, SL, DOT, IDS, FW, CS, XN, SP}
ParseSet == StrsOf(Core, ParseLen) \cup StrsOf(SubSyms, SubLen) \cup LongStrs \cup IPParse \cup ACEParse
ASSUME ndJsonSerialize("parse.ndjson", SetToSeq({PVec(s) : s \in ParseSet}))
ASSUME ndJsonSerialize("new.ndjson", SetToSeq({NVec(t[1], t[2], t[3]) : t \in Triples}))
ASSUME ndJsonSerialize("with.ndjson", SetToSeq({WVec(b, role, p) : b \in Bases, role \in {"l", "d", "r"}, p \in ReplParts}))
ASSUME ndJsonSerialize("eq.ndjson", SetToSeq({EVec(s1, s2) : s1 \in EqStrs, s2 \in EqStrs}))
ASSUME JsonSerialize("plan.json", [text |-> [s \in 1..NSyms |-> Text[s]], pool |-> Pool, acepre |-> AcePre, acetail |-> AceTail])
ASSUME PrintT(<<"EMITTED", Cardinality(ParseSet), Cardinality(Triples), Cardinality(EqStrs), Cardinality(ACEParse), Cardinality(ACETriples)>>)
=============================================================================
