----------------------------- MODULE MCFraming -----------------------------
(* Scenario universes for the design check of Framing.tla and for the driver (EmitFraming.tla):  *)
(* session kind x role x constructor x configuration x script, where a script is a negotiation   *)
(* part (the compliant one for the configuration, or a prefix of it followed by a wrong item:    *)
(* the other framing's header, a header in a wrong namespace, a stream error, a stanza, the end  *)
(* of the transport, a header naming other addresses) followed - after a compliant negotiation - *)
(* by an established part: peer items (stanzas, the closing element, see-other-uri, the other    *)
(* framing's header / closing element, a stream error, the end of the transport) interleaved     *)
(* with local calls (Close, Send), and local calls after the end of the stream.                   *)
EXTENDS Framing

CONSTANT Tier     \* tiny | quick | deep: which universe is built (only that one is ever constructed)

Sc(kind, role, via, restart, bidi, secure, secret, args, script) ==
  [kind |-> kind, role |-> role, via |-> via, restart |-> restart, bidi |-> bidi, secure |-> secure, secret |-> secret,
   args |-> args, script |-> script]
Vias == {"pkg", "gen"}

(* configurations without script: [kind, role, via, restart, bidi, secure, secret, args] *)
Cfgs ==
  {Sc(k, r, v, rst, FALSE, FALSE, "same", "zero", <<>>) : k \in {"c2s", "ws"}, r \in {"init", "recv"}, v \in Vias, rst \in BOOLEAN}
  \cup {Sc("s2s", "init", v, rst, FALSE, FALSE, "same", "zero", <<>>) : v \in Vias, rst \in BOOLEAN}
  \cup {Sc("s2s", "recv", "gen", rst, FALSE, FALSE, "same", "zero", <<>>) : rst \in BOOLEAN}
  \cup {Sc("s2s", "recv", "pkg", rst, FALSE, FALSE, "same", a, <<>>) : rst \in BOOLEAN, a \in {"set", "zero"}}
  \cup {Sc("s2s", r, "gen", FALSE, TRUE, sec, "same", "zero", <<>>) : r \in {"init", "recv"}, sec \in BOOLEAN}
  \cup {Sc("comp", "init", v, FALSE, FALSE, FALSE, s, "zero", <<>>) : v \in Vias, s \in {"same", "other"}}

(* the compliant negotiation of a configuration (what the peer sends) *)
GoodNeg(c) ==
  CASE c.kind = "comp" -> <<"open", "hs">>
    [] c.role = "init" /\ c.restart -> <<"open", "featR", "ackR", "open", "feat0">>
    [] c.role = "init" /\ c.bidi -> <<"open", "featB">>
    [] c.role = "init" -> <<"open", "feat0">>
    [] c.restart -> <<"open", "selR", "open", "selReady">>
    [] c.bidi /\ c.secure -> <<"open", "selB", "selReady">>
    [] OTHER -> <<"open", "selReady">>
Established(c) == c.kind = "comp" => c.secret = "same"

BadItems == {"xopen", "badns", "serr", "eof", "msg"}
AddrItems(c) == IF c.role = "recv" THEN (IF c.kind = "s2s" THEN {"open_nofrom", "open_otherto", "open_otherfrom"} ELSE {"open_otherto"}) ELSE {}
(* a wrong item after every proper prefix of the compliant negotiation; the compliant negotiation cut short *)
BadNegs(c) ==
  LET g == GoodNeg(c) IN
  {SubSeq(g, 1, n) \o <<b>> : n \in 0..(Len(g) - 1), b \in BadItems}
  \cup {SubSeq(g, 1, n) : n \in 0..(Len(g) - 1)}
  \cup {SubSeq(g, 1, n) \o <<b>> \o SubSeq(g, n + 2, Len(g)) : n \in 0..(Len(g) - 1), b \in {"xopen", "badns"}}
  \cup {<<a>> \o SubSeq(g, 2, Len(g)) : a \in AddrItems(c)}
  \cup (IF c.role = "init" /\ c.kind # "comp" THEN {<<"open", "feat0">>, <<"open", "featR">>, <<"open", "featB">>, <<"open", "featR", "ackR", "open", "feat0">>} ELSE {})
  \cup (IF c.role = "recv" THEN {<<"open", "selR">>, <<"open", "selB", "selReady">>, <<"open", "selReady">>} ELSE {})

(* the established part *)
EstAlpha(c) == {"msg", "msgx", "iq", "close", "xclose", "xopen", "serr", "eof", "Close", "Send"} \cup (IF c.kind = "ws" THEN {"closeuri"} ELSE {})
SmallAlpha(c) == {"msg", "iq", "close", "serr", "Close", "Send"} \cup (IF c.kind = "ws" THEN {"xopen", "msgx"} ELSE {})
SeqsUpTo(A, n) == UNION {[1..m -> A] : m \in 0..n}
(* after the item that ends the stream only local calls follow *)
WellFormed(c, s) == \A a \in 1..Len(s) : Terminal(c.kind, s[a]) => \A b \in (a + 1)..Len(s) : IsCall(s[b])
EstScripts(c, A, n) == {s \in SeqsUpTo(A, n) : WellFormed(c, s)}

With(c, s) == [c EXCEPT !.script = s]
Failing == UNION {{With(c, s) : s \in BadNegs(c)} : c \in Cfgs}
Serving(cs, alpha(_), n) == UNION {{With(c, GoodNeg(c) \o s) : s \in EstScripts(c, alpha(c), n)} : c \in cs}
Doomed == {With(c, GoodNeg(c)) : c \in {x \in Cfgs : ~Established(x)}}
Live == {c \in Cfgs : Established(c)}

Deep4Cfgs == {c \in Live : ~c.restart /\ ~c.bidi /\ c.args = "zero" /\ (c.via = "pkg" \/ c.kind \in {"ws", "comp"})}
UniverseOf(t) ==
  CASE t = "tiny" -> Failing \cup Doomed \cup Serving(Live, SmallAlpha, 2)
    [] t = "quick" -> Failing \cup Doomed \cup Serving(Live, EstAlpha, 2)
    \* the deeper universes: one TLC run each
    [] t = "deep3" -> Serving(Live, EstAlpha, 3)
    [] t = "deep4" -> Serving(Deep4Cfgs, EstAlpha, 4)
Universe == UniverseOf(Tier)
=============================================================================
