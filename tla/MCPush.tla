------------------------------- MODULE MCPush -------------------------------
(* Scenario universes for the design check of Push.tla and the alphabet that EmitPush.tla hands *)
(* to the driver: every stanza of the grammar                                                    *)
(*   sender class  none / own bare / own full / other own resource / server / other user (bare, *)
(*                 full) / other domain                                                          *)
(*   kind          roster push, carbon copy, plain message, block / unblock / blocklist, ping /  *)
(*                 version / time / disco#info / disco#items / an application payload / a foreign*)
(*                 payload / no payload, each as get, set, result, error; helper calls           *)
(*   shape         well-formed, no item, several items, unparsable JID, unknown child; carbons:  *)
(*                 with delay, body before / after, empty wrapper, empty <forwarded/>, two copies *)
(*   payload shape of a request to one of the library's own handlers: well-formed XML that the  *)
(*                 handler cannot decode or can decode only in part - unexpected child elements, *)
(*                 character data, children that look like the RESPONSE with bad values, the     *)
(*                 payload twice; block / unblock items carrying an abuse report (XEP-0377) of   *)
(*                 every such shape (bad attribute value, child in the wrong namespace, duplicated*)
(*                 children, wrong child type); bits-of-binary requests (XEP-0231) with a known / *)
(*                 unknown cid, an unparsable max-age, content that is no base64                 *)
(* and the handler configurations (everything on; one thing changed at a time; everything off).  *)
EXTENDS Push

AllSenders == DOMAIN SenderAddr
I1 == [jid |-> "romeo@example.org", name |-> "Romeo M.", sub |-> "both", groups |-> <<"Friends", "Lovers">>, rep |-> ""]
I2 == [jid |-> "nurse@example.org", name |-> "", sub |-> "remove", groups |-> <<>>, rep |-> ""]
I3 == [jid |-> "example.com", name |-> "", sub |-> "", groups |-> <<>>, rep |-> ""]
IB == [jid |-> BadJid, name |-> "", sub |-> "", groups |-> <<>>, rep |-> ""]
(* a block item with an abuse report of the given shape (Push!ReportShapes) *)
IR(sh) == [jid |-> "spammer@example.org", name |-> "", sub |-> "", groups |-> <<>>, rep |-> sh]
InnerOf(dir) ==
  IF dir = "sent"
  THEN [id |-> "m2", from |-> "me@example.net/other", to |-> "juliet@example.com/balcony", typ |-> "chat", body |-> "to you"]
  ELSE [id |-> "m1", from |-> "juliet@example.com/balcony", to |-> OwnFull, typ |-> "chat", body |-> "hi & <bye>"]

St(st, typ, snd, kind, shape, ver, items, dir, node, to) ==
  [st |-> st, typ |-> typ, snd |-> snd, from |-> SenderAddr[snd], kind |-> kind, shape |-> shape, id |-> "", ver |-> ver,
   items |-> items, dir |-> dir, inner |-> InnerOf(dir), node |-> node, to |-> to]
IQ(typ, snd, kind, node) == St("iq", typ, snd, kind, "ok", "", <<>>, "received", node, "")

RosterStanzas ==
  {St("iq", "set", snd, "roster", "ok", x[1], x[2], "received", "", "") : snd \in AllSenders, x \in {<<"v7", <<I1>>>>, <<"", <<I2>>>>}}
  \cup {St("iq", "set", snd, "roster", "ok", "v8", its, "received", "", "") : snd \in {"none", "otheruser"}, its \in {<<>>, <<I1, I2>>, <<IB>>}}
  \cup {St("iq", "set", snd, "roster", "unknown", "v9", <<I1>>, "received", "", "") : snd \in {"none", "otheruser"}}
  \cup {St("iq", typ, "none", "roster", "ok", "v7", <<I1>>, "received", "", "") : typ \in {"get", "result"}}
CarbonStanzas ==
  {St("message", typ, snd, "carbon", "ok", "", <<>>, dir, "", "") : typ \in {"chat", "normal", "headline"}, snd \in AllSenders, dir \in {"sent", "received"}}
  \cup {St("message", "chat", snd, "carbon", sh, "", <<>>, dir, "", "") : snd \in {"none", "otherfull"}, dir \in {"sent", "received"},
                                                                          sh \in {"delay", "bodyfirst", "bodylast", "empty", "nofwdmsg", "two"}}
  \cup {St("message", "chat", snd, "plain", "ok", "", <<>>, "received", "", "") : snd \in {"none", "otherfull"}}
BlockStanzas ==
  {St("iq", "set", snd, kd, "ok", "", its, "received", "", "") : snd \in {"none", "otheruser"}, kd \in {"block", "unblock"},
                                                                its \in {<<>>, <<I1>>, <<I1, I3>>, <<I1, IB>>, <<IB, I1>>}}
  \cup {IQ("get", snd, "blocklist", "") : snd \in {"none", "otherfull"}} \cup {IQ("set", "none", "blocklist", "")}
  \* items with an abuse report: every shape alone, and an undecodable one before / after / between plain items
  \cup {St("iq", "set", snd, kd, "ok", "", <<IR(sh)>>, "received", "", "") : snd \in {"none", "otheruser"}, kd \in {"block", "unblock"},
                                                                            sh \in ReportShapes \ {""}}
  \cup {St("iq", "set", "none", "block", "ok", "", its, "received", "", "") :
           its \in {<<I1, IR("badby")>>, <<IR("badby"), I1>>, <<IR("ok"), I3>>, <<I1, IR("sidns"), I3>>, <<IR("tworeports"), IB>>}}
RespStanzas ==
  {IQ(typ, snd, kd, "") : typ \in {"get", "set", "result", "error"}, snd \in {"none", "ownbare", "server", "otherfull"},
                          kd \in {"ping", "version", "time", "info", "items", "extra", "foreign", "empty"}}
  \cup {IQ("get", snd, kd, nd) : snd \in {"none", "otherfull"}, kd \in {"info", "items"}, nd \in {"n1", "zz"}}
  \* bits of binary: node = the cid asked for (KnownCid, another one, none)
  \cup {IQ(typ, snd, "bob", KnownCid) : typ \in {"get", "set", "result", "error"}, snd \in {"none", "otherfull"}}
  \cup {IQ("get", snd, "bob", nd) : snd \in {"none", "server"}, nd \in {"", "zz"}}
(* requests whose payload the handler they are routed to cannot decode, or only in part *)
ShapedStanzas ==
  {[IQ("get", snd, kd, IF kd = "bob" THEN KnownCid ELSE "") EXCEPT !.shape = sh] :
       snd \in {"none", "otherfull"}, kd \in {"ping", "version", "time", "info", "items", "blocklist", "bob", "extra"}, sh \in ReqShapes}
  \cup {[IQ("get", snd, "bob", KnownCid) EXCEPT !.shape = sh] : snd \in {"none", "otherfull"}, sh \in {"badage", "badb64"}}
  \cup {St("iq", "set", snd, "roster", sh, "v9", <<I1>>, "received", "", "") : snd \in {"none", "otheruser"}, sh \in ReqShapes \cup {"grpkid"}}
  \cup {St("iq", "set", "none", kd, sh, "", <<I1>>, "received", "", "") : kd \in {"block", "unblock"}, sh \in {"kids", "text", "twice"}}
Call(kind, shape, to, node, items) == St("call", "", "none", kind, shape, "", items, "received", node, to)
ReplyShapes == {"result", "empty", "err-su", "err-forbidden", "err-inf"}
CallStanzas ==
  {Call(kd, sh, to, "", <<>>) : kd \in {"ping", "version", "time", "info"}, sh \in ReplyShapes, to \in {"", Server, "eve@example.net/x"}}
  \cup {Call("info", sh, Server, "n1", <<>>) : sh \in ReplyShapes}
  \cup {Call(kd, sh, "", "", <<>>) : kd \in {"enable", "disable"}, sh \in ReplyShapes}
  \cup {Call(kd, sh, "", "", <<it>>) : kd \in {"rosterset", "rosterdel"}, sh \in ReplyShapes, it \in {I1, I3}}
  \cup {Call(kd, sh, "", "", its) : kd \in {"blockadd", "blockremove"}, sh \in ReplyShapes, its \in {<<I1>>, <<I1, I3>>}}
  \cup {Call("blockremove", sh, "", "", <<>>) : sh \in {"result", "err-forbidden"}}

Alphabet == RosterStanzas \cup CarbonStanzas \cup BlockStanzas \cup RespStanzas \cup ShapedStanzas \cup CallStanzas
Probe == IQ("get", "server", "ping", "")

(* a small alphabet with one representative per rule, for sequences *)
Core ==
  {St("iq", "set", snd, "roster", "ok", "v7", <<I1>>, "received", "", "") : snd \in {"none", "ownbare", "server", "otherfull"}}
  \cup {St("iq", "set", "none", "roster", "ok", "v8", its, "received", "", "") : its \in {<<>>, <<I1, I2>>}}
  \cup {St("message", "chat", snd, "carbon", "ok", "", <<>>, dir, "", "") : snd \in {"none", "otherfull"}, dir \in {"sent", "received"}}
  \cup {St("message", "chat", "none", "carbon", sh, "", <<>>, "sent", "", "") : sh \in {"empty", "two"}}
  \cup {St("message", "chat", "none", "plain", "ok", "", <<>>, "received", "", "")}
  \cup {St("iq", "set", "none", kd, "ok", "", its, "received", "", "") : kd \in {"block", "unblock"}, its \in {<<>>, <<I1, I3>>}}
  \cup {St("iq", "set", "none", "block", "ok", "", <<IR(sh)>>, "received", "", "") : sh \in {"ok", "badby"}}
  \cup {[IQ("get", "otherfull", "version", "") EXCEPT !.shape = "own"], IQ("get", "otherfull", "bob", KnownCid)}
  \cup {IQ("get", "otherfull", kd, "") : kd \in {"ping", "version", "time", "info", "items", "blocklist", "foreign", "empty"}}
  \cup {IQ("set", "server", "ping", ""), IQ("result", "server", "ping", ""), IQ("get", "none", "info", "n1"), Probe}
  \cup {Call(kd, sh, Server, "", <<>>) : kd \in {"ping", "version"}, sh \in {"result", "err-su"}}
  \cup {Call("rosterset", sh, "", "", <<I1>>) : sh \in {"result", "err-forbidden"}}

Full == [roster |-> "ok", carbons |-> TRUE, block |-> "all", list |-> 2, resp |-> TRUE, timefn |-> TRUE, extra |-> TRUE]
AllOff == [roster |-> "off", carbons |-> FALSE, block |-> "off", list |-> 0, resp |-> FALSE, timefn |-> FALSE, extra |-> FALSE]
Cfgs ==
  {Full, AllOff}
  \cup {[Full EXCEPT !.roster = r] : r \in {"serr", "oerr", "off"}}
  \cup {[Full EXCEPT !.carbons = FALSE], [Full EXCEPT !.resp = FALSE], [Full EXCEPT !.timefn = FALSE], [Full EXCEPT !.extra = FALSE]}
  \cup {[Full EXCEPT !.block = b] : b \in {"nil", "off"}}
  \cup {[Full EXCEPT !.list = n] : n \in {0, 1}}
CoreCfgs == {Full, [Full EXCEPT !.roster = "oerr"], [Full EXCEPT !.extra = FALSE, !.roster = "serr", !.block = "nil"]}

IdAt(i) == CASE i = 1 -> "q1" [] i = 2 -> "q2" [] i = 3 -> "q3" [] OTHER -> "q4"
WithIds(s) == [i \in 1..Len(s) |-> [s[i] EXCEPT !.id = IdAt(i)]]
Sc(cs, ss) == {[cfg |-> c, script |-> WithIds(s)] : c \in cs, s \in ss}

CONSTANT Tier     \* which universe the design check explores (only that one is ever constructed)
Singles(A) == {<<a>> : a \in A}
Probed(A) == {<<a, Probe>> : a \in A}
Pairs(A) == {<<a, b>> : a \in A, b \in A}
Triples(A) == {<<a, b, c>> : a \in A, b \in A, c \in A}

ScenariosOf(t) ==
  CASE t = "tiny" -> Sc({Full, [Full EXCEPT !.roster = "serr"]}, Singles(Alphabet) \cup Probed(Core))
    [] t = "quick" -> Sc(Cfgs, Probed(Alphabet)) \cup Sc({Full}, Singles(Alphabet)) \cup Sc(CoreCfgs, Pairs(Core))
    \* the thorough universe in parts (one TLC run each: computing the initial states is sequential, and a union of
    \* large sets of scripts is expensive to normalise)
    [] t = "thorough1" -> Sc(Cfgs, Singles(Alphabet) \cup Probed(Alphabet) \cup Pairs(Core))
    [] t = "thorough2" -> Sc({Full}, Pairs(Alphabet))
    [] t = "thorough3" -> Sc({Full}, Triples(Core))
    [] t = "thorough4" -> Sc({[Full EXCEPT !.roster = "oerr"]}, Triples(Core))
    [] t = "thorough5" -> Sc({[Full EXCEPT !.extra = FALSE, !.roster = "serr", !.block = "nil"]}, Triples(Core))
Universe == ScenariosOf(Tier)
=============================================================================
