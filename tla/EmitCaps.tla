----------------------------- MODULE EmitCaps -----------------------------
(* Pipeline B of C20: TLC writes, for every base info value of the domain, its class,   *)
(* the verification string computed BY THE SPEC (octets; only meaningful for class      *)
(* "strict") and every presentation (order of identities, features, forms, fields,     *)
(* values) the real code is to be run on.                                               *)
EXTENDS MCCaps, Json, SequencesExt

CONSTANT EmitBases
Vec(b) == [base |-> b, class |-> Class(b),
           ver |-> IF Class(b) = "strict" THEN Ver(b) ELSE <<>>,
           pres |-> SetToSeq(Presentations(b))]
ASSUME ndJsonSerialize("caps_vectors.ndjson", SetToSeq({Vec(b) : b \in EmitBases}))
ASSUME PrintT(<<"EMITTED", Cardinality(EmitBases)>>)
EInit == base = 0 /\ cur = 0
ENext == UNCHANGED vars
=============================================================================
