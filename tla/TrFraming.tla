----------------------------- MODULE TrFraming -----------------------------
(* Trace validation of recorded runs of the real constructors / Serve (harness/cmd/framing)      *)
(* against the OBSERVER layer of Framing.tla.  One trace per scenario; the reset line carries    *)
(* the scenario.  Events, in program order (the run is sequential):                              *)
(*   feed k item auto   a peer item was delivered (auto: the end of the transport the driver     *)
(*                      adds when the script is exhausted / the peer has said its last word)     *)
(*   w t n ns to from id x    one top-level item the library wrote                               *)
(*   h n ns             the handler was invoked with a top-level element                         *)
(*   ctor / call k c / ret / serve_ret   results with the state bits; end                        *)
(* Events extend the observer variables; peer items move the RULE automaton (NegDelta, EstRule); *)
(* the verdict is SafetyOf(Only)' (the properties F_* of Framing.tla).                           *)
EXTENDS Framing, Json

CONSTANT Only    \* the properties that decide (AllProps; a single one when a rejected trace is diagnosed)

Trace == ndJsonDeserialize("trace.ndjson")
VARIABLES l, t0
tvars == <<vars, l, t0>>
Starts == {j \in 1..Len(Trace) : Trace[j].ev = "reset"}
EndOf(j) == Trace[j].end
IsEv(e) == l < EndOf(t0) /\ Trace[l].ev = e /\ l' = l + 1
E == Trace[l]

TInit == /\ t0 \in Starts /\ l = t0 /\ InitWith(Trace[t0].sc)

TrReset == l = t0 /\ IsEv("reset") /\ UNCHANGED vars

TrFeed ==
  /\ IsEv("feed") /\ sret = <<>> /\ pend = <<>> /\ (ctor # <<>> => Ok(ctor))
  /\ (IF E.auto THEN E.item = "eof" ELSE E.k = i + 1 /\ E.k <= Len(sc.script) /\ sc.script[E.k] = E.item)
  /\ i' = (IF E.auto THEN i ELSE E.k)
  /\ IF ctor = <<>>
     THEN LET r == NegDelta(E.item) IN
          /\ np' = r.np /\ au' = r.au /\ rs' = r.rs /\ ho' = r.ho /\ bo' = r.bo
          /\ UNCHANGED <<term, taint, due, need>>
     ELSE EstRule(E.item) /\ UNCHANGED <<np, au, rs, ho, bo>>
  /\ UNCHANGED <<sc, ph, ln, la, wire, hand, ctor, sret, rets, pend>>

TrW ==
  /\ IsEv("w")
  /\ wire' = Append(wire, It(E.t, E.n, E.ns, E.to, E.from, E.id, E.x))
  /\ UNCHANGED <<sc, i, ph, np, au, rs, ho, bo, ln, la, term, taint, due, need, hand, ctor, sret, rets, pend>>

TrH ==
  /\ IsEv("h") /\ Ok(ctor) /\ sret = <<>>
  /\ hand' = Append(hand, [n |-> E.n, ns |-> E.ns])
  /\ UNCHANGED <<sc, i, ph, np, au, rs, ho, bo, ln, la, term, taint, due, need, wire, ctor, sret, rets, pend>>

BitsOf(e, tm) == [ready |-> e.ready, recvbit |-> e.recvbit, s2sbit |-> e.s2sbit, outclosed |-> e.outclosed, inclosed |-> e.inclosed,
                  nc |-> NClose, tm |-> tm]
TrCtor ==
  /\ IsEv("ctor") /\ ctor = <<>>
  /\ ctor' = <<BitsOf(E, FALSE) @@ [err |-> E.err, msg |-> E.msg, local |-> E.local, remote |-> E.remote]>>
  /\ ph' = (IF E.err = "nil" THEN "established" ELSE "failed")
  /\ UNCHANGED <<sc, i, np, au, rs, ho, bo, ln, la, term, taint, due, need, wire, hand, sret, rets, pend>>

TrCall ==
  /\ IsEv("call") /\ Ok(ctor) /\ pend = <<>>
  /\ E.k > i /\ E.k <= Len(sc.script) /\ sc.script[E.k] = E.call
  /\ (sret = <<>> => E.k = i + 1)                   \* only the closed phase skips (peer items nobody reads any more)
  /\ i' = E.k
  /\ pend' = <<[call |-> E.call, cb |-> NClose >= 1, w0 |-> Len(wire)]>>
  /\ UNCHANGED <<sc, ph, np, au, rs, ho, bo, ln, la, term, taint, due, need, wire, hand, ctor, sret, rets>>

TrRet ==
  /\ IsEv("ret") /\ pend # <<>> /\ E.call = pend[1].call
  /\ rets' = Append(rets, BitsOf(E, term # "" \/ sret # <<>>) @@ pend[1] @@ [w1 |-> Len(wire), err |-> E.err, msg |-> E.msg])
  /\ pend' = <<>>
  /\ ph' = (IF E.call = "Close" /\ ph = "established" THEN "closing" ELSE ph)
  /\ UNCHANGED <<sc, i, np, au, rs, ho, bo, ln, la, term, taint, due, need, wire, hand, ctor, sret>>

TrServeRet ==
  /\ IsEv("serve_ret") /\ Ok(ctor) /\ sret = <<>> /\ pend = <<>>
  /\ sret' = <<BitsOf(E, TRUE) @@ [err |-> E.err, msg |-> E.msg]>>
  /\ need' = (IF taint THEN need ELSE Len(due))
  /\ ph' = "closed"
  /\ UNCHANGED <<sc, i, np, au, rs, ho, bo, ln, la, term, taint, due, wire, hand, ctor, rets, pend>>

TrEnd == IsEv("end") /\ ctor # <<>> /\ (Ok(ctor) => sret # <<>>) /\ pend = <<>> /\ UNCHANGED vars

TNext ==
  /\ l < EndOf(t0)
  /\ \/ TrReset \/ TrFeed \/ TrW \/ TrH \/ TrCtor \/ TrCall \/ TrRet \/ TrServeRet \/ TrEnd
  /\ UNCHANGED t0
  /\ SafetyOf(Only)'

TSpec == TInit /\ [][TNext]_tvars
HW == TLCSet(t0, IF TLCGet(t0) < l THEN l ELSE TLCGet(t0))
Rejected == {j \in Starts : TLCGet(j) # EndOf(j)}
Accepted ==
  \/ Rejected = {}
  \/ PrintT(<<"REJECTED", {<<Trace[j].t, TLCGet(j)>> : j \in Rejected}>>) /\ FALSE
ASSUME \A j \in Starts : TLCSet(j, 0)
=============================================================================
