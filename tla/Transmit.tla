------------------------------ MODULE Transmit ------------------------------
(***************************************************************************)
(* C05, sequential part: what one transmit call must put on the wire.      *)
(* Reference function Complete(x): completion of an outgoing top-level     *)
(* element by the session (stanzaEncoder in session.go): every outgoing    *)
(* stanza carries a non-empty id, the stream's content namespace and, on   *)
(* server-to-server streams, a from address; nothing else is altered; the  *)
(* supplied start element is the outermost tag where one is given.         *)
(* The concurrent part (never interleaved) is Output.tla.                  *)
(***************************************************************************)
EXTENDS Integers, Sequences, FiniteSets, TLC, Json, SequencesExt

Names  == {"iq", "message", "presence", "other"}
Spaces == {"", "stream", "foreign"}      \* no namespace | the stream's content namespace | another one
AttrIn == {"absent", "empty", "set"}
(* argument forms: token reader, token reader + start element, xml.Marshaler value, *)
(* xmlstream.Marshaler value, xmlstream.WriterTo value, each also with a start      *)
(* element, and a token-writer session - also one that calls Flush after every token *)
(* (Flush is a transport matter: it changes nothing about what the element is)       *)
Forms  == {"send", "sendel", "encode", "encode_m", "encode_wt", "encodeel", "encodeel_m", "encodeel_wt", "tw", "tw_flush"}
WithStart(f) == f \in {"sendel", "encodeel", "encodeel_m", "encodeel_wt"}

Inputs == [name : Names, space : Spaces, id : AttrIn, from : AttrIn, nested : BOOLEAN, s2s : BOOLEAN, form : Forms]

IsStanza(x) == x.name # "other" /\ x.space \in {"", "stream"}

(* Expected observation of the single top-level element found on the wire.  Sets    *)
(* where the property leaves freedom (an empty from on a c2s stream may be dropped  *)
(* or kept: it denotes the same stanza).                                            *)
Complete(x) ==
  [ count  |-> 1,
    name   |-> x.name,
    space  |-> IF IsStanza(x) THEN {"stream"}
               ELSE IF x.space = "" THEN {"stream", ""} ELSE {x.space},   \* inherits the default namespace
    id     |-> IF IsStanza(x) THEN (IF x.id = "set" THEN {"same"} ELSE {"fresh"})
               ELSE (CASE x.id = "set" -> {"same"} [] x.id = "empty" -> {"empty"} [] OTHER -> {"absent"}),
    from   |-> IF IsStanza(x)
               THEN (IF x.from = "set" THEN {"same"} ELSE IF x.s2s THEN {"local"} ELSE {"absent", "empty"})
               ELSE (CASE x.from = "set" -> {"same"} [] x.from = "empty" -> {"empty"} [] OTHER -> {"absent"}),
    outer  |-> IF WithStart(x.form) THEN "given" ELSE "own",   \* which start element is outermost
    nested |-> IF x.nested THEN "untouched" ELSE "none",       \* a stanza-named child is not completed
    payload |-> "same",
    next   |-> "toplevel" ]   \* the element of the NEXT transmit call is a top-level element of its own, whole

(* model-level sanity: completion is idempotent on what it controls *)
Re(x, e) == [x EXCEPT !.space = IF IsStanza(x) THEN "stream" ELSE x.space,
                      !.id = IF "fresh" \in e.id \/ "same" \in e.id THEN "set" ELSE x.id,
                      !.from = IF "local" \in e.from \/ "same" \in e.from THEN "set" ELSE x.from]
C05_CompleteIdempotent ==
  \A x \in Inputs : LET e == Complete(x) y == Re(x, e) IN
     IsStanza(x) => /\ Complete(y).id = {"same"} /\ Complete(y).space = {"stream"}
                    /\ (x.s2s => Complete(y).from = {"same"})
C05_StanzaAlwaysIdentified == \A x \in Inputs : IsStanza(x) => Complete(x).id \subseteq {"same", "fresh"}
ASSUME C05_CompleteIdempotent /\ C05_StanzaAlwaysIdentified

ToSeqSet(S) == SetToSeq(S)
Vec(x) == [in |-> x, exp |-> [count |-> 1, name |-> Complete(x).name, space |-> ToSeqSet(Complete(x).space),
                              id |-> ToSeqSet(Complete(x).id), from |-> ToSeqSet(Complete(x).from),
                              outer |-> Complete(x).outer, nested |-> Complete(x).nested, payload |-> "same", next |-> Complete(x).next]]
ASSUME ndJsonSerialize("transmit_vectors.ndjson", SetToSeq({Vec(x) : x \in Inputs}))
ASSUME PrintT(<<"vectors", Cardinality(Inputs)>>)

VARIABLE x
Init == x \in Inputs
Next == UNCHANGED x
(* as a state invariant over the (trivial) state graph whose states are the inputs *)
C05_Complete_WellDefined == Complete(x).count = 1 /\ Complete(x).id # {} /\ Complete(x).from # {} /\ Complete(x).space # {}
=============================================================================
