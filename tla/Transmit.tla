------------------------------ MODULE Transmit ------------------------------
(***************************************************************************)
(* C05, sequential part: what one transmit call must put on the wire.      *)
(* Reference function Complete(x): completion of an outgoing top-level     *)
(* element by the session (stanzaEncoder in session.go): every outgoing    *)
(* stanza carries a non-empty id, the stream's content namespace and, on   *)
(* server-to-server streams, a from address; nothing else is altered; the  *)
(* supplied start element is the outermost tag where one is given.         *)
(* The concurrent part (never interleaved) is Output.tla.                  *)
(*                                                                         *)
(* "The stream's content namespace" is a function of the KIND of session   *)
(* the call is made on - not of how the session was made or which side     *)
(* opened the stream.  Sessions: kind x role x the way it was constructed  *)
(* (operator Sessions).  ContentNS(kind): RFC 6120 4.8.2 - jabber:client   *)
(* for client-to-server, jabber:server for server-to-server streams;       *)
(* RFC 7395 3.3.2 / 3.3.3 - on the WebSocket binding the <open/> header is *)
(* qualified by the FRAMING namespace, which is no content namespace: the  *)
(* stanzas are qualified by jabber:client, and every frame is a document   *)
(* of its own, so the stanza has to name that namespace itself             *)
(* (Context = "standalone": nothing around it declares a default           *)
(* namespace); XEP-0114 2: jabber:component:accept for components.         *)
(***************************************************************************)
EXTENDS Integers, Sequences, FiniteSets, TLC, Json, SequencesExt

Names  == {"iq", "message", "presence", "other"}
Spaces == {"", "stream", "foreign"}      \* no namespace | the stream's content namespace | another one
AttrIn == {"absent", "empty", "set"}
(* argument forms: token reader, token reader + start element, xml.Marshaler value, *)
(* xmlstream.Marshaler value, xmlstream.WriterTo value, each also with a start      *)
(* element, and a token-writer session - also one that calls Flush after every token *)
(* (Flush is a transport matter: it changes nothing about what the element is)       *)
Forms  == {"send", "sendel", "encode", "encode_m", "encode_wt", "encodeel", "encodeel_m", "encodeel_wt", "tw", "tw_flush"}
WithStart(f) == f \in {"sendel", "encodeel", "encodeel_m", "encodeel_wt"}


(* the session the call is made on *)
Kinds == {"c2s", "s2s", "ws", "comp"}
Roles == {"init", "recv"}
(* how it was made: "custom" - xmpp.NewSession / ReceiveSession with a Negotiator of the application that reads the *)
(* peer's header and declares the content namespace of the kind; "pkg" - the kind's own constructor                *)
(* (xmpp.NewClientSession / ReceiveClientSession / NewServerSession / ReceiveServerSession, websocket.NewSession / *)
(* ReceiveSession, component.NewSession); "gen" - xmpp.NewSession / ReceiveSession with the kind's library         *)
(* Negotiator (xmpp.NewNegotiator [+ the S2S bit], websocket.Negotiator, component.Negotiator)                     *)
Vias  == {"custom", "pkg", "gen"}
Sessions == {s \in [kind : Kinds, role : Roles, via : Vias] :
               /\ (s.kind = "ws" => s.via # "custom")      \* the framing is chosen by the library's negotiator only
               /\ (s.kind = "comp" => s.role = "init")}    \* the library has no receiving side for components
ContentNS(kind) == CASE kind = "c2s" -> "client" [] kind = "ws" -> "client" [] kind = "s2s" -> "server" [] kind = "comp" -> "accept"
Context(kind) == IF kind = "ws" THEN "standalone" ELSE "header"

Shapes == [name : Names, space : Spaces, id : AttrIn, from : AttrIn, nested : BOOLEAN, form : Forms]
(* How the start tokens of the payload's CHILD elements (depth 2 and 3: a namespaced child and its own child) carry  *)
(* their namespace: "plain" - no namespaced child; "space" - in Name.Space only; "attr" - as an xmlns attribute only; *)
(* "both" - Name.Space AND an xmlns attribute of the same value, as an xml.Decoder delivers them.  All three denote   *)
(* the same element: the wire has to re-parse to it.  (Crossed with every shape and form on one session per kind.)   *)
KidForms == {"space", "attr", "both"}
KidSessions == {s \in Sessions : s.role = "init" /\ s.via = (IF s.kind = "ws" THEN "pkg" ELSE "custom")}
Mk(h, s, k) == [name |-> h.name, space |-> h.space, id |-> h.id, from |-> h.from, nested |-> h.nested, form |-> h.form,
                kind |-> s.kind, role |-> s.role, via |-> s.via, s2s |-> (s.kind = "s2s"), kids |-> k]
SessKids == {<<s, "plain">> : s \in Sessions} \cup {<<s, k>> : s \in KidSessions, k \in KidForms}
(* Not an input: a plain xml.Marshaler value ("encode", "encodeel") writes its tokens to an encoding/xml Encoder of the *)
(* standard library, which prints Name.Space AND the xmlns attribute - such a value produces a malformed element by    *)
(* itself, before the session sees anything.  Everywhere else the tokens go to the session's own token writer.        *)
ValidIn(h, k) == ~(k = "both" /\ h.form \in {"encode", "encodeel"})
Inputs == {Mk(hs[1], hs[2][1], hs[2][2]) : hs \in {y \in Shapes \X SessKids : ValidIn(y[1], y[2][2])}}

IsStanza(x) == x.name # "other" /\ x.space \in {"", "stream"}

(* Expected observation of the single top-level element found on the wire.  Sets    *)
(* where the property leaves freedom (an empty from on a c2s stream may be dropped  *)
(* or kept: it denotes the same stanza).                                            *)
Complete(x) ==
  [ count  |-> 1,
    name   |-> x.name,
    space  |-> IF IsStanza(x) THEN {"stream"}
               ELSE IF x.space = "" THEN {"stream", ""} ELSE {x.space},   \* inherits the default namespace
    id     |-> IF IsStanza(x) THEN (IF x.id = "set" THEN {"same"} ELSE {"fresh"})
               ELSE (CASE x.id = "set" -> {"same"} [] x.id = "empty" -> {"empty"} [] OTHER -> {"absent"}),
    from   |-> IF IsStanza(x)
               THEN (IF x.from = "set" THEN {"same"} ELSE IF x.s2s THEN {"local"} ELSE {"absent", "empty"})
               ELSE (CASE x.from = "set" -> {"same"} [] x.from = "empty" -> {"empty"} [] OTHER -> {"absent"}),
    outer  |-> IF WithStart(x.form) THEN "given" ELSE "own",   \* which start element is outermost
    nested |-> IF x.nested THEN "untouched" ELSE "none",       \* a stanza-named child is not completed
    payload |-> "same",
    kids    |-> IF x.kids = "plain" THEN "none" ELSE "same",   \* the namespaced children arrive well-formed, in their namespace
    ns      |-> ContentNS(x.kind),   \* what "stream" stands for on this session, whoever opened it and however it was made
    context |-> Context(x.kind),     \* what surrounds the element on the wire
    next   |-> "toplevel" ]   \* the element of the NEXT transmit call is a top-level element of its own, whole

(* model-level sanity: completion is idempotent on what it controls *)
Re(x, e) == [x EXCEPT !.space = IF IsStanza(x) THEN "stream" ELSE x.space,
                      !.id = IF "fresh" \in e.id \/ "same" \in e.id THEN "set" ELSE x.id,
                      !.from = IF "local" \in e.from \/ "same" \in e.from THEN "set" ELSE x.from]
C05_CompleteIdempotent ==
  \A x \in Inputs : LET e == Complete(x) y == Re(x, e) IN
     IsStanza(x) => /\ Complete(y).id = {"same"} /\ Complete(y).space = {"stream"}
                    /\ (x.s2s => Complete(y).from = {"same"})
C05_StanzaAlwaysIdentified == \A x \in Inputs : IsStanza(x) => Complete(x).id \subseteq {"same", "fresh"}
(* the content namespace depends on the kind of session alone, and the framing namespace is never one *)
C05_ContentNSByKind ==
  /\ \A k \in Kinds : ContentNS(k) \in {"client", "server", "accept"}
  /\ \A s \in Sessions : \A h \in {y \in Inputs : y.form = "send" /\ y.name = "iq" /\ ~y.nested /\ y.kind = s.kind} : Complete(h).ns = ContentNS(s.kind)
ASSUME C05_CompleteIdempotent /\ C05_StanzaAlwaysIdentified /\ C05_ContentNSByKind

ToSeqSet(S) == SetToSeq(S)
Vec(x) == [in |-> x, exp |-> [count |-> 1, name |-> Complete(x).name, space |-> ToSeqSet(Complete(x).space),
                              id |-> ToSeqSet(Complete(x).id), from |-> ToSeqSet(Complete(x).from),
                              outer |-> Complete(x).outer, nested |-> Complete(x).nested, payload |-> "same", kids |-> Complete(x).kids,
                              ns |-> Complete(x).ns, context |-> Complete(x).context, next |-> Complete(x).next]]
ASSUME ndJsonSerialize("transmit_vectors.ndjson", SetToSeq({Vec(x) : x \in Inputs}))
ASSUME PrintT(<<"vectors", Cardinality(Inputs)>>)

VARIABLE x
Init == x \in Inputs
Next == UNCHANGED x
(* as a state invariant over the (trivial) state graph whose states are the inputs *)
C05_Complete_WellDefined == Complete(x).count = 1 /\ Complete(x).id # {} /\ Complete(x).from # {} /\ Complete(x).space # {}
=============================================================================
