------------------------------ MODULE Framing ------------------------------
(***************************************************************************)
(* Family "framing" (growth beyond C01-C20, check XFRAME): the stream      *)
(* framings and session kinds of mellium.im/xmpp other than plain c2s over *)
(* TCP - WebSocket framing (package websocket), component sessions         *)
(* (package component), server-to-server specifics (package s2s,           *)
(* xmpp.NewServerSession / ReceiveServerSession) - next to the TCP kinds   *)
(* as the reference.                                                       *)
(*                                                                         *)
(* RULES and where they are stated (nothing else is demanded):             *)
(*  R1  RFC 7395 3.3.1/3.3.2: a framed stream is opened by an <open/> and  *)
(*      closed by a <close/> element qualified by                          *)
(*      urn:ietf:params:xml:ns:xmpp-framing, with the attributes of        *)
(*      <stream:stream> (RFC 6120 4.7); 3.4: the first thing the initiator *)
(*      sends is <open/>, the receiver answers with <open/>; 3.7: after a  *)
(*      stream restart the client sends a new <open/> and MUST NOT send    *)
(*      <close/>.  RFC 6120 4.2/4.7/4.8: over TCP the header is            *)
(*      <stream:stream> with content namespace jabber:client /             *)
(*      jabber:server; XEP-0114 3: jabber:component:accept, 'to' = the     *)
(*      component's name.                       (F_Framing, F_OpenCount)   *)
(*  R2  RFC 6120 4.7.2: the initiator's header carries 'to'; 4.7.1: on s2s *)
(*      it carries 'from'; 4.7.3: the receiver's response header carries   *)
(*      an id; 4.7.5: version 1.0.                        (F_HdrAttrs)     *)
(*  R3  RFC 7395 3.3.3: every frame is a standalone document: stanzas name *)
(*      jabber:client themselves; RFC 6120 4.8.2: over TCP stanzas are in  *)
(*      the stream's content namespace; RFC 6120 8.1.2.1 / CHANGELOG       *)
(*      "stanzas sent over S2S connections now always have the from        *)
(*      attribute set"; CHANGELOG "component: the stream namespace is set  *)
(*      on the session".                                  (F_Stanza)       *)
(*  R4  Session.Close doc: "Calling Close() multiple times will only       *)
(*      result in one closing [tag] being sent"; OutputStreamClosed doc:   *)
(*      "all write operations will return an error"; RFC 6120 4.4: nothing *)
(*      is sent after the closing tag.           (F_CloseOnce, F_Calls)    *)
(*  R5  RFC 6120 4.4 / RFC 7395 3.6: the entity that receives the closing  *)
(*      element answers with its own; Serve doc: Serve runs "until the     *)
(*      input stream is closed by the remote entity" (then nil); "if a     *)
(*      stream error is received while serving it is not passed to the     *)
(*      handler. Instead, Serve unmarshals the error, closes the session,  *)
(*      and returns it".  The closing element is the END of the stream     *)
(*      (RFC 7395 3.3.1), not an element of it: it never reaches a         *)
(*      handler, nor does any other stream header.  An element of the      *)
(*      framing namespace INSIDE a stanza is payload (RFC 6120 8.4) and    *)
(*      ends nothing (item msgx).                   (F_Serve, F_Handler)   *)
(*  R6  RFC 6120 4.8.1 / RFC 7395 3.4: a stream is only established after  *)
(*      the peer's header of THE SAME framing (websocket.NewSession doc:   *)
(*      "using the WebSocket subprotocol"); a <stream:stream> on a framed  *)
(*      stream / an <open/> instead of <stream:stream> / a header in       *)
(*      another content namespace (RFC 6120 4.9.3.10) is refused; in the   *)
(*      established phase a <stream:stream> start tag or a stray           *)
(*      </stream:stream> on a framed stream ends Serve with an error.      *)
(*      The constructor returns nil exactly when the Ready bit is set      *)
(*      (Ready doc) and exactly when the peer completed the negotiation.   *)
(*                                                          (F_Establish)  *)
(*  R7  XEP-0114 3: the component sends <handshake/> with the lower-case   *)
(*      hex SHA-1 of stream id + secret after the server's header; the     *)
(*      server answers <handshake/> or a stream error; only then the       *)
(*      session is usable.                      (F_Digest, F_Establish)    *)
(*  R8  LocalAddr doc: "the Origin address for initiated connections, or   *)
(*      the Location for received connections"; RemoteAddr doc likewise;   *)
(*      RFC 6120 4.7.1: an s2s initiator MUST send 'from', so a receiving  *)
(*      server has to accept such a header.        (F_Addr, F_Establish)   *)
(*  R9  XEP-0288 2: the feature is advertised as <bidi                     *)
(*      xmlns='urn:xmpp:features:bidi'/>, requested with <bidi             *)
(*      xmlns='urn:xmpp:bidi'/> (no reply); s2s.Bidi doc: "servers using   *)
(*      this feature will need to check if it was negotiated".             *)
(*                                                 (F_Bidi, F_Establish)   *)
(*  R10 SessionState docs: Received, S2S, Ready, OutputStreamClosed,       *)
(*      InputStreamClosed.                                    (F_Bits)     *)
(* FREE (nobody documents it): what is written when a negotiation fails or *)
(* Serve ends with an error; the error value / class of a failed           *)
(* constructor; Serve's result after the transport ended without a closing *)
(* element; what happens with an <open/> / <close/> element in the framing *)
(* namespace on a TCP stream; the receiver's header addresses; when bidi   *)
(* is advertised; a peer header naming other addresses than the session    *)
(* was given (except R8); an IQ that arrives after the local Close (the    *)
(* default reply cannot be written); see-other-uri (treated as <close/>);  *)
(* one transport write per element (the package works on any               *)
(* io.ReadWriter and documents nothing about frames).                      *)
(*                                                                         *)
(* Two layers, as in Push.tla.  OBSERVER: wire (what the library wrote,    *)
(* as framing-level items), hand (handler invocations), ctor / sret / rets *)
(* (what the constructor, Serve and local calls returned, with the state   *)
(* bits) and the RULE automaton np (where a compliant negotiation stands   *)
(* after the peer items fed so far) - the properties F_* are state         *)
(* predicates over them.  MECHANISM: a reference library (variable ln =    *)
(* what the library concluded) with named deviations (Dev), each breaking  *)
(* one property.  TrFraming.tla validates recorded runs of the real code   *)
(* against the observer layer.                                             *)
(***************************************************************************)
EXTENDS Integers, Sequences, FiniteSets, TLC

CONSTANTS Dev,        \* named deviations; {} = the rules
          Scenarios   \* universe of the design check: set of scenario records

D(d) == d \in Dev

VARIABLES
  sc,                 \* scenario [kind, role, via, restart, bidi, secure, secret, args, script]
  i,                  \* steps of the script consumed
  ph,                 \* opening | established | closing | closed | failed
  np, au, rs, ho, bo, \* RULE automaton: state, authenticated (restarted), restarts, peer headers accepted, bidi offered
  ln, la,             \* MECHANISM: the library's own view of the negotiation; the addresses it took
  term, taint,        \* the peer item that ended the stream; Serve's result is free from here on
  due, need,          \* stanzas fed in the established phase; how many of them must have been handled by now
  wire, hand,         \* OBSERVER: items written, handler invocations
  ctor, sret, rets,   \* OBSERVER: results (sequences of at most one record / of call records)
  pend                \* a local call in progress (trace validation)

vars == <<sc, i, ph, np, au, rs, ho, bo, ln, la, term, taint, due, need, wire, hand, ctor, sret, rets, pend>>

-----------------------------------------------------------------------------
(* addresses: what the constructor is given ("" = nothing) *)
LocalArg(s) ==
  CASE s.kind = "comp" -> "comp.example.net"
    [] s.role = "init" /\ s.kind = "s2s" -> "example.com"
    [] s.role = "init" -> "me@example.net"
    [] s.kind = "s2s" /\ s.via = "pkg" /\ s.args = "set" -> "example.net"
    [] OTHER -> ""
RemoteArg(s) ==
  CASE s.kind = "comp" -> "comp.example.net"
    [] s.role = "init" -> "example.net"
    [] s.kind = "s2s" /\ s.via = "pkg" /\ s.args = "set" -> "example.com"
    [] OTHER -> ""
Other == "other.example"
(* what the peer's header names: [to, from] *)
PeerHdr(s, it) ==
  LET to == IF s.role = "init" THEN LocalArg(s) ELSE "example.net"
      from == IF s.role = "init" THEN RemoteArg(s) ELSE IF s.kind = "s2s" THEN "example.com" ELSE ""
  IN [to |-> IF it = "open_otherto" THEN Other ELSE to,
      from |-> IF it = "open_otherfrom" THEN Other ELSE IF it = "open_nofrom" THEN "" ELSE from]

(* framing-level items *)
It(t, n, ns, to, from, id, x) == [t |-> t, n |-> n, ns |-> ns, to |-> to, from |-> from, id |-> id, x |-> x]
IsOpen(it) == it.t \in {"hdr", "open"}
IsClose(it) == it.t \in {"close_tcp", "close_ws"}
OwnOpenT(k) == IF k = "ws" THEN "open" ELSE "hdr"
OwnCloseT(k) == IF k = "ws" THEN "close_ws" ELSE "close_tcp"
ContentNS(k) == CASE k = "s2s" -> "server" [] k = "comp" -> "accept" [] OTHER -> "client"
StanzaOK(k) == IF k = "ws" THEN {"client"} ELSE {ContentNS(k), "inherit"}
NOpenOf(w) == Cardinality({j \in DOMAIN w : IsOpen(w[j])})
NCloseOf(w) == Cardinality({j \in DOMAIN w : IsClose(w[j])})
NOpen == NOpenOf(wire)
NClose == NCloseOf(wire)
IsCall(it) == it \in {"Close", "Send"}
Terminal(k, it) == it \in {"close", "closeuri", "serr", "eof"} \/ (k = "ws" /\ it \in {"xopen", "xclose"})
IsStanzaH(h) == h.n \in {"message", "iq", "presence"} /\ h.ns = ContentNS(sc.kind)
IsPrefix(a, b) == Len(a) <= Len(b) /\ \A j \in 1..Len(a) : a[j] = b[j]
Ok(r) == r # <<>> /\ r[1].err = "nil"

-----------------------------------------------------------------------------
(* RULE automaton: where a compliant negotiation stands after peer item `it` (R6-R9).                  *)
(* H awaiting the peer's header, F features (initiator), A the answer to the restarting feature,       *)
(* S a feature selection (receiver), HS the answer to the handshake; ok | fail | free are final.       *)
NegDeltaAt(st, it) ==
  LET keep == [np |-> st, au |-> au, rs |-> rs, ho |-> ho, bo |-> bo]
      to(x) == [keep EXCEPT !.np = x]
      accepted == [keep EXCEPT !.np = (IF sc.kind = "comp" THEN "HS" ELSE IF sc.role = "init" THEN "F" ELSE "S"), !.ho = ho + 1]
      restarted == [keep EXCEPT !.np = "H", !.au = TRUE, !.rs = rs + 1]
  IN
  CASE st \in {"ok", "fail", "free"} -> keep
    [] st = "H" ->
         (CASE it = "open" -> accepted
            [] it \in {"open_nofrom", "open_otherto", "open_otherfrom"} -> to("free")
            [] OTHER -> to("fail"))
    [] st = "F" ->
         (CASE it = "feat0" -> to("ok")
            [] it = "featR" -> (IF sc.restart /\ ~au THEN to("A") ELSE to("free"))
            [] it = "featB" -> (IF ~sc.bidi THEN to("free")        \* an offer the session is not configured for: C01's subject
                                ELSE IF sc.secure /\ ~au THEN [keep EXCEPT !.np = "ok", !.bo = TRUE] ELSE to("free"))
            [] OTHER -> to("fail"))
    [] st = "A" -> (IF it = "ackR" THEN restarted ELSE to("fail"))
    [] st = "S" ->
         (CASE it = "selR" -> (IF sc.restart /\ ~au THEN restarted ELSE to("free"))
            [] it = "selReady" -> (IF sc.restart => au THEN to("ok") ELSE to("free"))
            [] it = "selB" -> (IF sc.bidi /\ sc.secure /\ ~au THEN keep ELSE to("free"))
            [] OTHER -> to("fail"))
    [] st = "HS" -> (IF it = "hs" /\ sc.secret = "same" THEN to("ok") ELSE to("fail"))

NegDelta(it) == NegDeltaAt(np, it)

(* effect of a peer item in the established phase on the rule variables *)
EstRule(it) ==
  /\ need' = (IF taint THEN need ELSE Len(due))
  /\ due' = (IF it \in {"msg", "msgx", "iq"} /\ term = "" THEN Append(due, [n |-> IF it = "iq" THEN "iq" ELSE "message", ns |-> ContentNS(sc.kind)]) ELSE due)
  /\ term' = (IF term = "" /\ Terminal(sc.kind, it) THEN it ELSE term)
  /\ taint' = (taint \/ (it = "iq" /\ NClose >= 1) \/ (sc.kind # "ws" /\ it \in {"xopen", "xclose"})
                     \/ it \notin {"msg", "msgx", "iq", "close", "closeuri", "serr", "eof", "xopen", "xclose"})

-----------------------------------------------------------------------------
(* OBSERVER properties *)
F_Framing ==       \* R1: only the framing's own opening / closing elements, in every phase
  \A j \in DOMAIN wire : LET it == wire[j] IN
    /\ (IsOpen(it) => it.t = OwnOpenT(sc.kind) /\ it.ns = (IF sc.kind = "ws" THEN "framing" ELSE ContentNS(sc.kind)))
    /\ (IsClose(it) => it.t = OwnCloseT(sc.kind))

F_OpenCount ==     \* R1: a header first; one per (re)start, the receiver's only in answer to the peer's
  /\ (wire # <<>> => IsOpen(wire[1]))
  /\ (np # "free" =>
        /\ NOpen <= (IF sc.role = "init" THEN rs + 1 ELSE ho)
        /\ (Ok(ctor) => NOpen = rs + 1))

F_HdrAttrs ==      \* R2
  \A j \in DOMAIN wire : LET it == wire[j] IN IsOpen(it) =>
    /\ (sc.role = "init" => it.to = RemoteArg(sc))
    /\ (sc.role = "init" /\ sc.kind = "s2s" => it.from = LocalArg(sc))
    /\ (sc.role = "recv" => it.id = "y")
    /\ (sc.kind # "comp" => it.x = "1.0")

F_Stanza ==        \* R3
  \A j \in DOMAIN wire : LET it == wire[j] IN it.t = "stanza" =>
    /\ it.ns \in StanzaOK(sc.kind)
    /\ (sc.kind = "s2s" => it.from # "")

F_CloseOnce ==     \* R4: at most one closing element, nothing after it
  /\ NClose <= 1
  /\ \A j \in DOMAIN wire : IsClose(wire[j]) => j = Len(wire)

F_Calls ==         \* R4: Close writes the closing element unless written; Send fails after it and writes nothing
  \A j \in DOMAIN rets : LET r == rets[j] IN
    /\ r.err # "panic"
    /\ (r.call = "Close" => r.err = "nil" /\ (IF r.cb THEN r.w1 = r.w0 ELSE r.w1 = r.w0 + 1 /\ IsClose(wire[r.w1])))
    /\ (r.call = "Send" => (IF r.cb THEN r.err = "closed" /\ r.w1 = r.w0
                            ELSE r.err = "nil" /\ r.w1 = r.w0 + 1 /\ wire[r.w1].t = "stanza"))

F_Serve ==         \* R5, R6: how Serve ends
  sret # <<>> => LET r == sret[1] IN
    /\ r.err # "panic"
    /\ (term = "" => taint)                                  \* not before the peer ended the stream
    /\ (term \in {"close", "closeuri"} => NClose = 1 /\ (~taint => r.err = "nil"))
    /\ (term = "serr" => NClose = 1 /\ (~taint => r.err = "stream" /\ r.msg = "conflict"))
    /\ (term \in {"xopen", "xclose"} => r.err # "nil")

F_Handler ==       \* R5: stanzas reach the handler once, in order; stream headers / closing elements / stream errors never
  /\ \A j \in DOMAIN hand : hand[j].ns # "streams" /\ (sc.kind = "ws" => hand[j].ns # "framing")
  /\ LET sh == SelectSeq(hand, IsStanzaH) IN IsPrefix(sh, due) /\ Len(sh) >= need

F_Establish ==     \* R6-R9: the constructor succeeds exactly when the peer completed a compliant negotiation
  ctor # <<>> => LET c == ctor[1] IN
    /\ c.err # "panic"
    /\ (c.err = "nil" <=> c.ready)
    /\ (c.err = "nil" => np \in {"ok", "free"})          \* not before the peer completed the negotiation
    /\ (c.err # "nil" => np \in {"fail", "free"})        \* not while the peer is compliant

F_Addr ==          \* R8
  Ok(ctor) =>
    /\ (LocalArg(sc) # "" => ctor[1].local = LocalArg(sc))
    /\ (RemoteArg(sc) # "" => ctor[1].remote = RemoteArg(sc))

F_Digest ==        \* R7
  LET H == {j \in DOMAIN wire : wire[j].t = "hs"} IN
    /\ (H # {} => sc.kind = "comp" /\ ho >= 1)
    /\ Cardinality(H) <= 1
    /\ \A j \in H : wire[j].x = "ok"
    /\ (sc.kind = "comp" /\ Ok(ctor) => Cardinality(H) = 1)

F_Bidi ==          \* R9 (initiator; the receiver's part is F_Establish)
  LET B == {j \in DOMAIN wire : wire[j].t = "neg" /\ wire[j].ns = "bidi"} IN
    /\ (B # {} => sc.role = "init" /\ sc.bidi /\ bo)
    /\ Cardinality(B) <= 1
    /\ (bo /\ np = "ok" /\ Ok(ctor) => Cardinality(B) = 1)

BitsOK(r) == (r.recvbit <=> sc.role = "recv") /\ (r.s2sbit <=> sc.kind = "s2s") /\ (r.outclosed <=> r.nc >= 1) /\ (r.inclosed => r.tm)
F_Bits ==          \* R10
  /\ (ctor # <<>> /\ ctor[1].err # "panic" => BitsOK(ctor[1]))
  /\ (\A j \in DOMAIN rets : rets[j].err # "panic" => BitsOK(rets[j]) /\ rets[j].ready)
  /\ (sret # <<>> /\ sret[1].err # "panic" => BitsOK(sret[1]) /\ sret[1].ready /\ (term \in {"close", "closeuri", "serr"} => sret[1].inclosed))

AllProps == {"F_Framing", "F_OpenCount", "F_HdrAttrs", "F_Stanza", "F_CloseOnce", "F_Calls", "F_Serve", "F_Handler",
             "F_Establish", "F_Addr", "F_Digest", "F_Bidi", "F_Bits"}
SafetyOf(only) ==
  /\ ("F_Framing" \in only => F_Framing) /\ ("F_OpenCount" \in only => F_OpenCount) /\ ("F_HdrAttrs" \in only => F_HdrAttrs)
  /\ ("F_Stanza" \in only => F_Stanza) /\ ("F_CloseOnce" \in only => F_CloseOnce) /\ ("F_Calls" \in only => F_Calls)
  /\ ("F_Serve" \in only => F_Serve) /\ ("F_Handler" \in only => F_Handler) /\ ("F_Establish" \in only => F_Establish)
  /\ ("F_Addr" \in only => F_Addr) /\ ("F_Digest" \in only => F_Digest) /\ ("F_Bidi" \in only => F_Bidi)
  /\ ("F_Bits" \in only => F_Bits)
Safety == SafetyOf(AllProps)

-----------------------------------------------------------------------------
(* MECHANISM: the reference library *)
InitWith(s) ==
  /\ sc = s /\ i = 0 /\ ph = "opening"
  /\ np = "H" /\ au = FALSE /\ rs = 0 /\ ho = 0 /\ bo = FALSE
  /\ ln = "H" /\ la = [local |-> LocalArg(s), remote |-> RemoteArg(s)]
  /\ term = "" /\ taint = FALSE /\ due = <<>> /\ need = 0
  /\ wire = <<>> /\ hand = <<>> /\ ctor = <<>> /\ sret = <<>> /\ rets = <<>> /\ pend = <<>>
Init == \E s \in Scenarios : InitWith(s)

(* the header the library writes (the n-th of the session) *)
LibOpen(n) ==
  LET t == IF D("WsHeaderAfterRestart") /\ sc.kind = "ws" /\ n > 1 THEN "hdr" ELSE OwnOpenT(sc.kind)
      ns == IF t = "open" THEN "framing" ELSE IF D("ComponentClientNs") /\ sc.kind = "comp" THEN "client" ELSE ContentNS(sc.kind)
      to == IF sc.role = "init" /\ ~D("HeaderNoTo") THEN RemoteArg(sc) ELSE ""
      from == IF sc.role = "recv" THEN la.local ELSE IF sc.kind = "comp" \/ (D("S2SHeaderNoFrom") /\ sc.kind = "s2s") THEN "" ELSE LocalArg(sc)
      id == IF sc.role = "recv" /\ ~D("RecvHeaderNoId") THEN "y" ELSE "n"
  IN It(t, IF t = "open" THEN "open" ELSE "stream", ns, to, from, id, IF sc.kind = "comp" THEN "" ELSE "1.0")
LibClose == IF D("WsCloseAsTcp") /\ sc.kind = "ws" THEN It("close_tcp", "stream", "streams", "", "", "n", "")
            ELSE It(OwnCloseT(sc.kind), IF sc.kind = "ws" THEN "close" ELSE "stream", IF sc.kind = "ws" THEN "framing" ELSE "streams", "", "", "n", "")
LibStanza(n, to) ==
  LET ns == CASE D("StanzaNoNsOnWs") /\ sc.kind = "ws" -> "inherit"
              [] D("ComponentStanzaClientNs") /\ sc.kind = "comp" -> "client"
              [] OTHER -> ContentNS(sc.kind)
  IN It("stanza", n, ns, to, IF sc.kind = "s2s" /\ ~D("S2SNoFrom") THEN la.local ELSE "", "y", "")
Neg(n, ns) == It("neg", n, ns, "", "", "n", "")
Bits(rdy, tm, w) == [ready |-> rdy, recvbit |-> sc.role = "recv", s2sbit |-> sc.kind = "s2s",
                     outclosed |-> (NCloseOf(w) >= 1 /\ ~D("OutClosedBitLost")), inclosed |-> tm, nc |-> NCloseOf(w), tm |-> tm]

(* the initiator speaks first *)
Start ==
  /\ ph = "opening" /\ sc.role = "init" /\ wire = <<>> /\ ctor = <<>>
  /\ wire' = <<LibOpen(1)>> \o (IF D("HandshakeBeforeHeader") /\ sc.kind = "comp" THEN <<It("hs", "handshake", "inherit", "", "", "n", "ok")>> ELSE <<>>)
  /\ UNCHANGED <<sc, i, ph, np, au, rs, ho, bo, ln, la, term, taint, due, need, hand, ctor, sret, rets, pend>>

(* what the library concludes from a peer item: the rule, except where a deviation / a free case decides otherwise *)
LibDelta(it, choice) ==
  LET r == NegDeltaAt(ln, it)      \* the library follows the rule from where IT believes the negotiation stands
      accept == IF sc.kind = "comp" THEN "HS" ELSE IF sc.role = "init" THEN "F" ELSE "S"
  IN
  CASE ln \in {"ok", "fail"} -> ln
    [] ln = "H" /\ it = "xopen" /\ D("AcceptCrossHeader") -> accept
    [] ln = "H" /\ it = "open" /\ sc.kind = "s2s" /\ sc.role = "recv" /\ D("S2SRecvRejectsFrom") -> "fail"
    [] ln = "H" /\ it = "open_otherto" /\ LocalArg(sc) # "" -> (IF D("S2SRecvIgnoresArgs") THEN accept ELSE "fail")
    [] ln = "H" /\ it = "open_otherfrom" /\ RemoteArg(sc) # "" -> "fail"
    [] ln = "H" /\ it \in {"open_nofrom", "open_otherto", "open_otherfrom"} -> (IF choice THEN accept ELSE "fail")
    [] ln = "S" /\ it = "selB" /\ D("BidiRequestRefused") -> "fail"
    [] ln = "HS" /\ it = "hs" /\ D("ReadyOnRefusal") -> "ok"
    [] ln = "HS" /\ it = "hs" /\ D("DigestUpper") -> "fail"        \* an honest server refuses the wrong digest
    [] r.np = "free" -> (IF choice THEN "ok" ELSE "fail")
    [] OTHER -> r.np

(* what the library writes when it moves from ln to l2 on item it *)
NegWrites(it, l2) ==
  CASE ln = "H" /\ l2 = "S" -> <<LibOpen(NOpen + 1), It("features", "features", "streams", "", "", "n", "")>>
    [] ln = "H" /\ l2 = "HS" -> (IF D("HandshakeBeforeHeader") THEN <<>>
                                 ELSE <<It("hs", "handshake", "inherit", "", "", "n", IF D("DigestUpper") THEN "case" ELSE "ok")>>)
    [] ln = "F" /\ l2 = "A" -> <<Neg("auth", "auth")>>
    [] ln = "F" /\ it = "featB" /\ l2 = "ok" /\ sc.bidi /\ sc.secure /\ ~au -> (IF D("BidiNotRequested") THEN <<>> ELSE <<Neg("bidi", "bidi")>>)
    [] ln = "F" /\ it = "feat0" /\ l2 = "ok" /\ D("BidiUnasked") /\ sc.bidi -> <<Neg("bidi", "bidi")>>
    [] ln = "A" /\ l2 = "H" -> (IF D("NoRestartHeader") THEN <<>>
                                ELSE IF D("CloseOnRestart") /\ sc.kind = "ws" THEN <<LibClose, LibOpen(NOpen + 1)>> ELSE <<LibOpen(NOpen + 1)>>)
    [] ln = "S" /\ l2 = "H" -> <<Neg("ok", "auth")>>
    [] ln = "S" /\ l2 = "ok" -> <<Neg("ok", "ready")>>
    [] OTHER -> <<>>

NegFeed ==
  /\ ph = "opening" /\ ctor = <<>> /\ ln \notin {"ok", "fail"} /\ (sc.role = "init" => wire # <<>>)
  /\ LET it == IF i < Len(sc.script) THEN sc.script[i + 1] ELSE "eof"
         r == NegDelta(it)
     IN \E choice \in BOOLEAN :
          LET l2 == LibDelta(it, choice) IN
          /\ (r.np # "free" /\ it \notin {"open_nofrom", "open_otherto", "open_otherfrom"} => choice)   \* the choice only matters in free cases
          /\ i' = (IF i < Len(sc.script) THEN i + 1 ELSE i)
          /\ np' = r.np /\ au' = r.au /\ rs' = r.rs /\ ho' = r.ho /\ bo' = r.bo
          /\ ln' = l2
          /\ la' = (IF ln = "H" /\ l2 \in {"S", "F", "HS"} /\ sc.role = "recv"
                    THEN [local |-> IF LocalArg(sc) # "" /\ ~D("S2SRecvIgnoresArgs") THEN LocalArg(sc) ELSE PeerHdr(sc, it).to,
                          remote |-> IF RemoteArg(sc) # "" THEN RemoteArg(sc) ELSE PeerHdr(sc, it).from]
                    ELSE la)
          /\ wire' = wire \o (IF ln = "H" /\ l2 = "S"
                              THEN <<[LibOpen(NOpen + 1) EXCEPT !.from = PeerHdr(sc, it).to, !.to = PeerHdr(sc, it).from],
                                     It("features", "features", "streams", "", "", "n", "")>>
                              ELSE NegWrites(it, l2))
  /\ UNCHANGED <<sc, ph, term, taint, due, need, hand, ctor, sret, rets, pend>>

CtorRet ==
  /\ ph = "opening" /\ ctor = <<>>
  /\ \/ ln \in {"ok", "fail"}
     \/ ln = "HS" /\ D("ReadyWithoutAck") /\ wire # <<>>
  /\ LET ok == ln # "fail"
         sw == D("AddrSwapped") /\ sc.role = "init" /\ sc.kind # "comp"
     IN /\ ctor' = <<Bits(ok \/ D("ReadyBitOnFailure"), FALSE, wire) @@
                     [err |-> IF ok THEN "nil" ELSE "other", msg |-> "",
                      local |-> IF sw THEN la.remote ELSE la.local, remote |-> IF sw THEN la.local ELSE la.remote]>>
        /\ ph' = IF ok THEN "established" ELSE "failed"
  /\ UNCHANGED <<sc, i, np, au, rs, ho, bo, ln, la, term, taint, due, need, wire, hand, sret, rets, pend>>

(* a local call: Close / Send *)
Closed == NClose >= 1
DoCall(c) ==
  LET w2 == CASE c = "Close" /\ (~Closed \/ D("DoubleClose")) -> Append(wire, LibClose)
              [] c = "Send" /\ (~Closed \/ D("SendAfterClose")) -> Append(wire, LibStanza("message", "juliet@example.com/b"))
              [] OTHER -> wire
      err == IF c = "Send" /\ Closed /\ ~D("SendAfterClose") THEN "closed" ELSE "nil"
  IN /\ wire' = w2
     /\ rets' = Append(rets, Bits(TRUE, term # "" \/ sret # <<>>, w2) @@ [call |-> c, cb |-> Closed, w0 |-> Len(wire), w1 |-> Len(w2), err |-> err, msg |-> ""])

H(n, ns) == [n |-> n, ns |-> ns]
(* the served session handles the next step of the script *)
EstStep ==
  /\ ph \in {"established", "closing"} /\ sret = <<>> /\ term = ""
  /\ LET it == IF i < Len(sc.script) THEN sc.script[i + 1] ELSE "eof" IN
     /\ i' = (IF i < Len(sc.script) THEN i + 1 ELSE i)
     /\ IF IsCall(it)
        THEN /\ DoCall(it)
             /\ ph' = (IF it = "Close" THEN "closing" ELSE ph)
             /\ UNCHANGED <<term, taint, due, need, hand>>
        ELSE /\ EstRule(it)
             /\ UNCHANGED <<rets, ph>>
             /\ CASE it = "msgx" /\ sc.kind = "ws" /\ D("NestedCloseEndsStream") -> UNCHANGED <<hand, wire>>
                  [] it \in {"msg", "msgx", "iq"} ->
                       /\ hand' = Append(hand, H(IF it = "iq" THEN "iq" ELSE "message", ContentNS(sc.kind)))
                       /\ wire' = (IF it = "iq" /\ ~Closed THEN Append(wire, LibStanza("iq", "juliet@example.com/b")) ELSE wire)
                  [] it \in {"close", "closeuri"} /\ sc.kind = "ws" /\ D("WsPeerCloseHanded") ->
                       hand' = Append(hand, H("close", "framing")) /\ UNCHANGED wire
                  [] it = "serr" /\ D("StreamErrorHanded") ->
                       hand' = Append(hand, H("error", "streams")) /\ wire' = (IF Closed THEN wire ELSE Append(wire, LibClose))
                  [] it \in {"close", "closeuri"} /\ D("NoCloseReply") -> UNCHANGED <<hand, wire>>
                  [] Terminal(sc.kind, it) -> hand' = hand /\ wire' = (IF Closed THEN wire ELSE Append(wire, LibClose))
                  [] it \in {"xopen", "xclose"} -> hand' = Append(hand, H(IF it = "xopen" THEN "open" ELSE "close", "framing")) /\ UNCHANGED wire
                  [] OTHER -> UNCHANGED <<hand, wire>>
  /\ UNCHANGED <<sc, np, au, rs, ho, bo, ln, la, ctor, sret, pend>>

ServeRet ==
  /\ ph \in {"established", "closing"} /\ sret = <<>>
  /\ \/ term # ""
     \/ taint /\ NClose >= 1                  \* free: the default reply to an IQ cannot be written after Close
  /\ LET cls == CASE term \in {"close", "closeuri"} -> (IF D("PeerCloseError") THEN "other" ELSE "nil")
                  [] term = "serr" -> (IF D("StreamErrorNil") THEN "nil" ELSE "stream")
                  [] term \in {"xopen", "xclose"} -> (IF D("CrossHeaderNil") THEN "nil" ELSE "other")
                  [] term = "eof" -> "nil"
                  [] OTHER -> "closed"
     IN sret' = <<Bits(TRUE, TRUE, wire) @@ [err |-> cls, msg |-> IF cls = "stream" THEN "conflict" ELSE ""]>>
  /\ need' = (IF taint THEN need ELSE Len(due))
  /\ ph' = "closed"
  /\ UNCHANGED <<sc, i, np, au, rs, ho, bo, ln, la, term, taint, due, wire, hand, ctor, rets, pend>>

(* the closed phase: the remaining local calls *)
PostStep ==
  /\ ph = "closed" /\ i < Len(sc.script)
  /\ i' = i + 1
  /\ (IF IsCall(sc.script[i + 1]) THEN DoCall(sc.script[i + 1]) ELSE UNCHANGED <<wire, rets>>)
  /\ UNCHANGED <<sc, ph, np, au, rs, ho, bo, ln, la, term, taint, due, need, hand, ctor, sret, pend>>

Next == Start \/ NegFeed \/ CtorRet \/ EstStep \/ ServeRet \/ PostStep
Spec == Init /\ [][Next]_vars
FairSpec == Spec /\ WF_vars(Next)
(* every run ends: the constructor returns, and a served session's Serve returns *)
F_Terminates == <>(ph \in {"failed", "closed"})
=============================================================================
