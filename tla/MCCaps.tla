------------------------------ MODULE MCCaps ------------------------------
(* Bounded domains of info values for the design check and for vector emission (C20).  *)
(* Strings are the UTF-8 octets of: "a", "B", "a-b", "Ψ", "aa", "" - chosen so that     *)
(* octet order differs from case-insensitive order (B < a), from the order of the       *)
(* '<'- or '/'-terminated strings ("a" < "a-b" but "a-b<" < "a<", "a-b/" < "a/") and    *)
(* from code-unit order of non-ASCII text.                                              *)
EXTENDS Caps

a == <<97>>
B == <<66>>
ab == <<97, 45, 98>>
psi == <<206, 168>>
aa == <<97, 97>>
E == <<>>

Id(c, t, l, n) == [cat |-> c, type |-> t, lang |-> l, name |-> n]
Fd(v, vs) == [var |-> v, vals |-> vs]
Fm(fs) == [fields |-> fs]
Info(i, f, m) == [ids |-> i, feats |-> f, forms |-> m]

(* sequences without repetition of at most n elements of S, one per subset (the base   *)
(* presentation of a set; every other order is produced by Presentations / Swaps)      *)
RECURSIVE SetToSomeSeq(_)
SetToSomeSeq(S) == IF S = {} THEN <<>>
                   ELSE LET x == CHOOSE x \in S : TRUE IN <<x>> \o SetToSomeSeq(S \ {x})
RECURSIVE SubsetsUpTo(_, _)
SubsetsUpTo(S, n) == IF n = 0 THEN {{}}
                     ELSE LET P == SubsetsUpTo(S, n - 1) IN P \cup {T \cup {x} : T \in P, x \in S}
SubsetSeqs(S, n) == {SetToSomeSeq(T) : T \in SubsetsUpTo(S, n)}

(* identities: pairwise distinct (category, type, lang) *)
IdPool == {Id(a, B, E, E), Id(a, B, psi, ab), Id(ab, a, E, B), Id(B, a, a, psi), Id(a, ab, E, E)}
IdPoolSmall == {Id(a, B, E, E), Id(ab, a, E, B), Id(a, B, psi, ab)}
FeatPool == {a, B, ab, psi, aa}
FeatPoolSmall == {a, B, ab}

(* fields other than FORM_TYPE; within one form the vars must differ *)
FieldPool == {Fd(a, <<a>>), Fd(ab, <<a, ab>>), Fd(B, <<>>), Fd(a, <<psi, B>>), Fd(psi, <<B>>)}
(* the small pool holds a field WITHOUT value (7.3: "var<" and nothing else) and an empty-string value too *)
FieldPoolSmall == {Fd(a, <<a>>), Fd(ab, <<a, ab>>), Fd(B, <<psi, B>>), Fd(aa, <<>>), Fd(psi, <<E>>)}
DistinctVars(fs) == \A i, j \in 1..Len(fs) : fs[i].var = fs[j].var => i = j
Bodies(P, n) == {fs \in SubsetSeqs(P, n) : DistinctVars(fs)}

(* the FORM_TYPE part of a form: well formed / absent / without value / two values *)
TypedHeads == {<<Fd(FT, <<a>>)>>, <<Fd(FT, <<ab>>)>>, <<Fd(FT, <<B>>)>>}
FreeHeads == {<<>>, <<Fd(FT, <<>>)>>}
IllHeads == {<<Fd(FT, <<a, B>>)>>}

Forms(heads, P, n) == {Fm(h \o b) : h \in heads, b \in Bodies(P, n)}
FormSets(F, n) == SubsetSeqs(F, n)

FixedIds == <<Id(ab, a, E, B), Id(a, B, E, E)>>
FixedFeats == <<B, a>>
FixedForms == <<Fm(<<Fd(ab, <<psi, B>>), Fd(FT, <<a>>)>>)>>

(* D1: every set of <= 3 identities; D2: every set of <= 3 features; D3: every single  *)
(* form of S and every pair of forms of P1 and of P2 (with and without identities and  *)
(* features around them); D4: a small full cross product                               *)
D1(P) == {Info(i, FixedFeats, FixedForms) : i \in SubsetSeqs(P, 3)}
D2(P) == {Info(FixedIds, f, FixedForms) : f \in SubsetSeqs(P, 3)}
D3(S, P1, P2) ==
  {Info(FixedIds, FixedFeats, m) : m \in FormSets(S, 1) \cup FormSets(P1, 2) \cup FormSets(P2, 2)}
  \cup {Info(<<>>, <<>>, m) : m \in FormSets(S, 1)}
D4(IP, FP, F) == {Info(i, f, m) : i \in SubsetSeqs(IP, 2), f \in SubsetSeqs(FP, 2), m \in FormSets(F, 1)}

FormsQuick == Forms(TypedHeads, FieldPoolSmall, 2) \cup Forms(FreeHeads, FieldPoolSmall, 1)
              \cup Forms(IllHeads, FieldPoolSmall, 1)
FormsTiny == Forms({<<Fd(FT, <<ab>>)>>}, FieldPoolSmall, 1) \cup Forms(FreeHeads, {Fd(a, <<a>>)}, 1)
FormsPairA == Forms(TypedHeads \cup FreeHeads, FieldPoolSmall, 1)
FormsPairB == Forms({<<Fd(FT, <<ab>>)>>, <<Fd(FT, <<a>>)>>}, {Fd(a, <<a>>), Fd(ab, <<a, ab>>)}, 2)
FormsPairC == Forms({<<Fd(FT, <<ab>>)>>, <<Fd(FT, <<a>>)>>, <<>>}, FieldPoolSmall, 2)
FormsThorough == Forms(TypedHeads \cup FreeHeads, FieldPool, 2) \cup Forms(IllHeads, FieldPoolSmall, 1)

BasesQuick == D1(IdPool) \cup D2(FeatPool) \cup D3(FormsQuick, FormsPairA, FormsPairB)
              \cup D4(IdPoolSmall, FeatPoolSmall, FormsTiny)
BasesThorough == D1(IdPool) \cup D2(FeatPool) \cup D3(FormsThorough, FormsQuick, FormsPairC)
                 \cup D4(IdPoolSmall, FeatPoolSmall, FormsQuick)

ASSUME \A b \in BasesQuick : InDomain(b)

(* Named deviations: code-like variants of Ver, substituted for Ver (cfg: Ver <- Dev...) *)
(* only to show that C20_PermutationInvariant is not vacuous on these domains - the     *)
(* design check with a deviation on MUST fail.  DevFormsInGivenOrder is what            *)
(* disco.Info.AppendHash did when the check was built (forms hashed in slice order).    *)
DevFormsInGivenOrder(info) ==
  IdentityPart(info.ids) \o FeaturePart(info.feats) \o Cat(Map(info.forms, FormStr))
DevValuesInGivenOrder(info) ==
  IdentityPart(info.ids) \o FeaturePart(info.feats)
  \o Cat(Map(SortSeq(info.forms, FormLess),
             LAMBDA fm : Term(FormType(fm)) \o
                Cat(Map(SortSeq(OtherFields(fm), FieldLess),
                        LAMBDA f : Term(f.var) \o Cat(Map(f.vals, Term))))))
=============================================================================
