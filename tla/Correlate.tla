------------------------------ MODULE Correlate ------------------------------
(***************************************************************************)
(* Correlation of requests and responses on a served session (session.go:  *)
(* sendResp and the response branch of handleInputStream).  C06: every     *)
(* correlated wait ends exactly once with its own reply or its context's   *)
(* error; a response reaches at most one caller and never one with another *)
(* id or stanza kind; responses nobody waits for go to the handler; once   *)
(* the caller closes the response the serve loop goes on; the serve loop   *)
(* never stalls for good.                                                  *)
(*                                                                         *)
(* Requester i (its stanza id is i):                                       *)
(*   idle -Register-> registered -Send(ok|fail)-> waiting | failed         *)
(*   waiting -Handoff (joint with Serve)-> got | -CtxDone-> ctxerr         *)
(*   got/ctxerr/failed -Deregister-> returned(outcome)                     *)
(*   returned(reply) -CloseResp-> finished                                 *)
(* Serve:                                                                  *)
(*   read -ReadStart-> lookup -Lookup-> offer | handler                    *)
(*   offer -Handoff-> handed -AwaitClose-> discard -Resume-> read          *)
(*   offer -CtxSkip-> handler            (strict; see Dev)                 *)
(*   handler -Handle-> read                                                *)
(*                                                                         *)
(* Session kind (skind): the requests are issued on a client-to-server     *)
(* session (initiated or received), a server-to-server session, a          *)
(* WebSocket session or an XEP-0114 component session.  The kinds differ   *)
(* in the namespace their stanzas live in (ContentNS) and in how the peer  *)
(* writes it (q: "default" = unqualified within the stream's default       *)
(* namespace, "explicit" = declared on the stanza itself; WebSocket peers   *)
(* always declare it).  The property does not depend on the kind: no step  *)
(* of the strict specification looks at skind or q.  The deviation          *)
(* LookupClientServerOnly (a lookup that knows only jabber:client and      *)
(* jabber:server) does.                                                    *)
(***************************************************************************)
EXTENDS Integers, Sequences, FiniteSets, TLC

CONSTANTS Reqs,      \* requester names = the ids they use
          KindOf,    \* [Reqs -> {"iq","message","presence"}]
          Unknown,   \* an id nobody uses
          MaxPeer,   \* bound on the number of peer items (MC)
          SKinds,    \* session kinds explored (subset of SessionKinds)
          Quals,     \* ways the peer qualifies its stanzas (subset of {"default", "explicit"})
          Dev

Kinds == {"iq", "message", "presence"}
Ids == Reqs \cup {Unknown}
None == "none"
SessionKinds == {"c2s", "c2s-recv", "s2s", "ws", "comp"}
ContentNS(k) == CASE k \in {"c2s", "c2s-recv", "ws"} -> "jabber:client"
                  [] k = "s2s" -> "jabber:server"
                  [] OTHER -> "jabber:component:accept"
QualsOf(k) == IF k = "ws" THEN {"explicit"} ELSE Quals

VARIABLES rpc, outcome, table, cancelled,
          spc, cur, owner,
          inbox, npeer,
          delivered,   \* history: delivered[i]: items handed to requester i
          handled,     \* history: items given to the handler
          dropped,     \* history: response items that reached neither a caller nor the handler
          misrouted,   \* history: responses given to the handler although their requester was registered with a live context
          skind        \* the kind of session the requests are issued on (never changes)

vars == <<rpc, outcome, table, cancelled, spc, cur, owner, inbox, npeer, delivered, handled, dropped, misrouted, skind>>

NoItem == [id |-> None, kind |-> None, resp |-> FALSE, q |-> None]

Init ==
  /\ rpc = [i \in Reqs |-> "idle"] /\ outcome = [i \in Reqs |-> None]
  /\ table = {} /\ cancelled = {}
  /\ spc = "read" /\ cur = NoItem /\ owner = None
  /\ inbox = <<>> /\ npeer = 0
  /\ delivered = [i \in Reqs |-> <<>>] /\ handled = <<>> /\ dropped = <<>>
  /\ misrouted = <<>> /\ skind \in SKinds

-----------------------------------------------------------------------------
(* Environment *)
PeerSend(item) ==
  /\ inbox' = Append(inbox, item) /\ npeer' = npeer + 1
  /\ UNCHANGED <<rpc, outcome, table, cancelled, spc, cur, owner, delivered, handled, dropped, misrouted, skind>>

Cancel(i) ==
  /\ i \notin cancelled /\ cancelled' = cancelled \cup {i}
  /\ UNCHANGED <<rpc, outcome, table, spc, cur, owner, inbox, npeer, delivered, handled, dropped, misrouted, skind>>

-----------------------------------------------------------------------------
(* Requester *)
Register(i) ==
  /\ rpc[i] = "idle" /\ rpc' = [rpc EXCEPT ![i] = "registered"] /\ table' = table \cup {i}
  /\ UNCHANGED <<outcome, cancelled, spc, cur, owner, inbox, npeer, delivered, handled, dropped, misrouted, skind>>

Send(i, ok) ==
  /\ rpc[i] = "registered"
  /\ rpc' = [rpc EXCEPT ![i] = IF ok THEN "waiting" ELSE "failed"]
  /\ UNCHANGED <<outcome, table, cancelled, spc, cur, owner, inbox, npeer, delivered, handled, dropped, misrouted, skind>>

CtxDone(i) ==
  /\ rpc[i] = "waiting" /\ i \in cancelled
  /\ rpc' = [rpc EXCEPT ![i] = "ctxerr"]
  /\ UNCHANGED <<outcome, table, cancelled, spc, cur, owner, inbox, npeer, delivered, handled, dropped, misrouted, skind>>

Deregister(i) ==
  /\ rpc[i] \in {"got", "ctxerr", "failed"}
  /\ table' = table \ {i}
  /\ outcome' = [outcome EXCEPT ![i] = CASE rpc[i] = "got" -> "reply" [] rpc[i] = "ctxerr" -> "ctxerr" [] OTHER -> "senderr"]
  /\ rpc' = [rpc EXCEPT ![i] = IF rpc[i] = "got" THEN "reading" ELSE "finished"]
  /\ UNCHANGED <<cancelled, spc, cur, owner, inbox, npeer, delivered, handled, dropped, misrouted, skind>>

CloseResp(i) ==
  /\ rpc[i] = "reading" /\ rpc' = [rpc EXCEPT ![i] = "closed"]
  /\ UNCHANGED <<outcome, table, cancelled, spc, cur, owner, inbox, npeer, delivered, handled, dropped, misrouted, skind>>

-----------------------------------------------------------------------------
(* Serve loop *)
ReadStart ==
  /\ spc = "read" /\ inbox # <<>>
  /\ cur' = Head(inbox) /\ inbox' = Tail(inbox)
  /\ spc' = IF Head(inbox).resp THEN "lookup" ELSE "handler"
  /\ UNCHANGED <<rpc, outcome, table, cancelled, owner, npeer, delivered, handled, dropped, misrouted, skind>>

(* the pending request is found by id and stanza kind whatever namespace the session's    *)
(* stanzas live in and however the peer wrote it.  The deviation knows only the client  *)
(* and server namespaces: on a component session it misses every pending request.       *)
Pending == cur.id \in table /\ KindOf[cur.id] = cur.kind
LookupSees == "LookupClientServerOnly" \in Dev => ContentNS(skind) \in {"jabber:client", "jabber:server"}
Lookup ==
  /\ spc = "lookup"
  /\ IF Pending /\ LookupSees
     THEN owner' = cur.id /\ spc' = "offer" /\ UNCHANGED misrouted
     ELSE /\ owner' = None /\ spc' = "handler"
          /\ misrouted' = IF Pending /\ cur.id \notin cancelled THEN Append(misrouted, cur) ELSE misrouted
  /\ UNCHANGED <<rpc, outcome, table, cancelled, cur, inbox, npeer, delivered, handled, dropped, skind>>

(* the hand-off is ONE joint step: Serve is in its select offering, the requester in its own *)
Handoff ==
  /\ spc = "offer" /\ rpc[owner] = "waiting"
  /\ spc' = "handed" /\ rpc' = [rpc EXCEPT ![owner] = "got"]
  /\ delivered' = [delivered EXCEPT ![owner] = Append(@, cur)]
  /\ UNCHANGED <<outcome, table, cancelled, cur, owner, inbox, npeer, handled, dropped, misrouted, skind>>

(* the requester's context ended before the hand-off: nobody waits for this response any *)
(* more, so it goes to the handler.  The pinned code discarded it instead (Dev).          *)
CtxSkip ==
  /\ spc = "offer" /\ owner \in cancelled
  /\ IF "DropReplyAfterLookup" \in Dev
     THEN spc' = "read" /\ dropped' = Append(dropped, cur) /\ cur' = NoItem
     ELSE spc' = "handler" /\ UNCHANGED <<dropped, cur>>
  /\ owner' = None
  /\ UNCHANGED <<rpc, outcome, table, cancelled, inbox, npeer, delivered, handled, misrouted, skind>>

(* the requester returned without ever waiting (its send failed): same as above *)
GoneSkip ==
  /\ spc = "offer" /\ rpc[owner] \in {"failed", "finished"} /\ outcome[owner] # "reply" /\ owner \notin cancelled
  /\ "StallOnFailedSender" \notin Dev
  /\ spc' = "handler" /\ owner' = None
  /\ UNCHANGED <<rpc, outcome, table, cancelled, cur, inbox, npeer, delivered, handled, dropped, misrouted, skind>>

(* the response belongs to the requester it was handed to until that requester closes it, *)
(* whatever happens to the context of the finished wait in the meantime.  The deviation   *)
(* lets the serve loop go on as soon as that context is done.                             *)
AwaitClose ==
  /\ spc = "handed"
  /\ \/ rpc[owner] = "closed" /\ rpc' = [rpc EXCEPT ![owner] = "finished"]
     \/ "ResumeWhenCtxDone" \in Dev /\ owner \in cancelled /\ rpc[owner] \in {"got", "reading"} /\ UNCHANGED rpc
  /\ spc' = "read" /\ cur' = NoItem /\ owner' = None
  /\ UNCHANGED <<outcome, table, cancelled, inbox, npeer, delivered, handled, dropped, misrouted, skind>>

Handle ==
  /\ spc = "handler"
  /\ handled' = Append(handled, cur) /\ spc' = "read" /\ cur' = NoItem
  /\ UNCHANGED <<rpc, outcome, table, cancelled, owner, inbox, npeer, delivered, dropped, misrouted, skind>>

-----------------------------------------------------------------------------
(* requester names carry their stanza kind: i* iq, m* message, p* presence *)
KindAll == [i \in {"i1", "i2", "i3", "m1", "p1"} |->
              CASE i \in {"i1", "i2", "i3"} -> "iq" [] i = "m1" -> "message" [] OTHER -> "presence"]

PeerItems == {[id |-> d, kind |-> k, resp |-> r, q |-> q] : d \in Ids, k \in Kinds, r \in BOOLEAN, q \in QualsOf(skind)}

Next ==
  \/ npeer < MaxPeer /\ \E it \in PeerItems : PeerSend(it)
  \/ \E i \in Reqs : Cancel(i) \/ Register(i) \/ Send(i, TRUE) \/ Send(i, FALSE) \/ CtxDone(i) \/ Deregister(i) \/ CloseResp(i)
  \/ ReadStart \/ Lookup \/ Handoff \/ CtxSkip \/ GoneSkip \/ AwaitClose \/ Handle

Spec == Init /\ [][Next]_vars

(* fairness for liveness: every step of the library and of well-behaved callers is fair; *)
(* contexts are eventually cancelled (otherwise a wait for a silent peer is legitimate).  *)
Fair ==
  /\ \A i \in Reqs : WF_vars(Cancel(i)) /\ WF_vars(Register(i)) /\ WF_vars(Send(i, TRUE)) /\ WF_vars(CtxDone(i))
                     /\ WF_vars(Deregister(i)) /\ WF_vars(CloseResp(i))
  /\ WF_vars(ReadStart) /\ WF_vars(Lookup) /\ WF_vars(Handoff) /\ WF_vars(CtxSkip) /\ WF_vars(GoneSkip)
  /\ WF_vars(AwaitClose) /\ WF_vars(Handle)
FairSpec == Spec /\ Fair
(* the same without the assumption that contexts are ever cancelled: the serve loop must *)
(* not depend on cancellation to get out of its hand-off                                 *)
FairNoCancel ==
  /\ \A i \in Reqs : WF_vars(Register(i)) /\ WF_vars(Send(i, TRUE)) /\ WF_vars(CtxDone(i))
                     /\ WF_vars(Deregister(i)) /\ WF_vars(CloseResp(i))
  /\ WF_vars(ReadStart) /\ WF_vars(Lookup) /\ WF_vars(Handoff) /\ WF_vars(CtxSkip) /\ WF_vars(GoneSkip)
  /\ WF_vars(AwaitClose) /\ WF_vars(Handle)
FairSpecNoCancel == Spec /\ FairNoCancel

-----------------------------------------------------------------------------
(* Properties *)
C06_OwnReplyOnly ==
  \A i \in Reqs : \A n \in 1..Len(delivered[i]) :
     delivered[i][n].id = i /\ delivered[i][n].kind = KindOf[i] /\ delivered[i][n].resp
C06_AtMostOneReply == \A i \in Reqs : Len(delivered[i]) <= 1
C06_OutcomeConsistent ==
  \A i \in Reqs :
     /\ (outcome[i] = "reply" => Len(delivered[i]) = 1)
     /\ (outcome[i] = "ctxerr" => i \in cancelled /\ Len(delivered[i]) = 0)
     /\ (outcome[i] = "senderr" => Len(delivered[i]) = 0)
C06_UnclaimedToHandler == dropped = <<>>
(* a response that arrives while its requester is registered with a live context is never *)
(* given to the handler as if nobody had asked (on every kind of session)                 *)
C06_WaitedForToCaller == misrouted = <<>>
(* while a requester holds a response (handed over, not yet closed) the serve loop waits for it *)
C06_HeldUntilClosed == \A i \in Reqs : rpc[i] \in {"got", "reading", "closed"} => (spc = "handed" /\ owner = i)
C06_TableClean == \A i \in Reqs : rpc[i] = "finished" => i \notin table
(* liveness *)
C06_ReqsTerminate == <>(\A i \in Reqs : rpc[i] = "finished")
C06_ServeNeverStalls == []<>(spc = "read")
=============================================================================
