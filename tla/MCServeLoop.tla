--------------------------- MODULE MCServeLoop ---------------------------
(* Bounds of the design checks of ServeLoop.tla. *)
EXTENDS ServeLoop

(* part 1: elements x programs *)
E7Small == {El7(k, t, id, f, "child") :
              k \in {"iq"}, t \in {"get", "result", "", "bogus"}, id \in {"none", "", "a"}, f \in {"own", "peer"}}
           \cup {El7("iq", t, "a", "peer", "none") : t \in {"get", "result", "error"}}
           \cup {El7("msg", "chat", "a", "peer", "child"), El7("other", "", "a", "none", "none")}
P7Small == {Prog7("all", w, r) : w \in WNames, r \in {"ok", "err"}}
C7ItemsMC == {[e |-> e, p |-> p] : e \in E7Small, p \in P7Small}
(* two elements in a row: the second is a plain request *)
C7ItemsSeq == {[e |-> El7("iq", t, "a", "peer", "child"), p |-> Prog7("all", w, r)] :
                 t \in {"get", "result"}, w \in {"none", "reply", "otherid"}, r \in {"ok", "err"}}

(* part 2: inputs x program cycles *)
B0 == <<>>
B1 == << <<"s", "b">>, <<"t">>, <<"e", "b">> >>
B2 == << <<"s", "a">>, <<"s", "b">>, <<"e", "b">>, <<"t">>, <<"e", "a">>, <<"s", "d">>, <<"e", "d">> >>
Ins(b, i, tok) == SubSeq(b, 1, i - 1) \o <<tok>> \o SubSeq(b, i, Len(b))
Plain8 == {Elem("stanza", "own", B0), Elem("stanza", "peer", B2), Elem("foreign", "own", B1), Top("ws")}
Term8 == {Elem("stanza", "none", Ins(B2, i, <<"c", "comment">>)) : i \in {1, 3, 8}}
         \cup {Elem("stanza", "own", Ins(B1, 2, <<"c", "serr">>)), Elem("foreign", "none", Ins(B1, 3, <<"bad">>))}
         \cup {Top(k) : k \in {"text", "comment", "restart", "close", "eof"}} \cup {SErr("host-unknown")}
(* a prefix of continuing items, one terminating item, possibly something behind it *)
C8InputsMC == {pre \o <<t>> \o post : pre \in UNION {[1..n -> Plain8] : n \in 0..2}, t \in Term8,
                                     post \in {<<>>, <<Elem("stanza", "peer", B1)>>}}
              \cup UNION {[1..n -> Plain8] : n \in 0..2}
C8InputsMC3 == {pre \o <<t>> \o post : pre \in UNION {[1..n -> Plain8] : n \in 0..3}, t \in Term8,
                                      post \in {<<>>, <<Elem("stanza", "peer", B1)>>}}
               \cup UNION {[1..n -> Plain8] : n \in 0..3}
C8ProgsMC == {<<Prog8(n, m)>> : n \in {0, 1, 3, 8, 10}, m \in {"stop", "ignore"}}
             \cup {<<Prog8(0, "stop"), Prog8(10, "ignore")>>, <<Prog8(10, "stop"), Prog8(2, "ignore")>>}
=============================================================================
