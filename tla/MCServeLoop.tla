--------------------------- MODULE MCServeLoop ---------------------------
(* Bounds of the design checks of ServeLoop.tla. *)
EXTENDS ServeLoop

(* part 1: elements x programs *)
E7Small == {El7(k, t, id, f, "full", "own", "child") :
              k \in {"iq"}, t \in {"get", "result", "", "bogus"}, id \in {"none", "", "a"}, f \in {"own", "peer"}}
           \cup {El7("iq", t, "a", "peer", "full", "own", "none") : t \in {"get", "result", "error"}}
           \cup {El7("msg", "chat", "a", "peer", "full", "own", "child"), El7("other", "", "a", "none", "none", "own", "none")}
           \* the addressing and namespace dimensions: every sender x addressee x namespace of a request and of a reply
           \cup {El7("iq", t, "a", f, to, ns, "child") : t \in {"set", "error"}, f \in {"none", "own", "ownfull", "peer", "domain"},
                                                       to \in {"none", "full", "bare"}, ns \in {"own", "other"}}
P7Small == {Prog7("all", w, r, "none") : w \in WNames, r \in {"ok", "err", "stanzaerr"}}
           \* error VALUES that wrap / resemble a sentinel or a documented error type
           \cup {Prog7("all", w, r, "none") : w \in {"none", "reply", "errreply", "otherid", "nested", "first"}, r \in Rets}
           \cup {Prog7("all", w, "ok", m) : w \in {"none", "otherid", "reply"}, m \in Muts}
C7ItemsMC == {[e |-> e, p |-> p] : e \in E7Small, p \in P7Small}
(* two elements in a row: the second is a plain request *)
C7ItemsSeq == {[e |-> El7("iq", t, "a", "peer", "full", ns, "child"), p |-> Prog7("all", w, r, "none")] :
                 t \in {"get", "result"}, ns \in {"own", "other"}, w \in {"none", "reply", "otherid"}, r \in {"ok", "err", "stanzaerr", "eof", "weof"}}

(* part 2: inputs x program cycles *)
B0 == <<>>
B1 == << <<"s", "b">>, <<"t">>, <<"e", "b">> >>
B2 == << <<"s", "a">>, <<"s", "b">>, <<"e", "b">>, <<"t">>, <<"e", "a">>, <<"s", "d">>, <<"e", "d">> >>
Ins(b, i, tok) == SubSeq(b, 1, i - 1) \o <<tok>> \o SubSeq(b, i, Len(b))
Plain8 == {Elem("stanza", "own", B0), Elem("stanza", "peer", B2), Elem("foreign", "own", B1), Top("ws"),
           Top("lclose"), Elem("stanza", "was", B0)}
Term8 == {Elem("stanza", "none", Ins(B2, i, <<"c", "comment">>)) : i \in {1, 3, 8}}
         \cup {Elem("stanza", "own", Ins(B1, 2, <<"c", "serr">>)), Elem("foreign", "none", Ins(B1, 3, <<"bad">>))}
         \cup {Top(k) : k \in {"text", "utext", "comment", "restart", "close", "eof"}} \cup {SErr("host-unknown")}
(* the response to a pending request: plain, and with a stream-level construct inside it (depth 1, depth 2) *)
RespPlain == Elem("resp", "peer", B1)
TermResp == {Elem("resp", "peer", Ins(B1, 1, <<"c", "comment">>)), Elem("resp", "peer", Ins(B1, 2, <<"c", "serr">>)),
             Elem("resp", "peer", Ins(B2, 3, <<"c", "restart">>))}
C8WReadsMC == {0, 2, 10}
HasResp(x) == \E i \in 1..Len(x) : x[i].k = "el" /\ x[i].kind = "resp"
(* a prefix of continuing items, one terminating item, possibly something behind it *)
Gen(P, T, n) == {pre \o <<t>> \o post : pre \in UNION {[1..m -> P] : m \in 0..n}, t \in T,
                                         post \in {<<>>, <<Elem("stanza", "peer", B1)>>}}
                \cup UNION {[1..m -> P] : m \in 0..n}
C8InputsMC == Gen(Plain8, Term8, 2)
              \cup {x \in Gen(Plain8 \cup {RespPlain}, Term8 \cup TermResp, 1) : HasResp(x)}
              \cup {<<RespPlain, RespPlain, t>> : t \in TermResp \cup {Top("close")}}
C8InputsMC3 == Gen(Plain8, Term8, 3)
               \cup {x \in Gen(Plain8 \cup {RespPlain}, Term8 \cup TermResp, 2) : HasResp(x)}
(* one session per way of getting the own address, on both namespaces *)
C8SessMC == {Sess("c2s", "custom", "same", FALSE), Sess("rc2s", "custom", "other", FALSE), Sess("rs2s", "custom", "none", TRUE)}
C8SessMC5 == C8SessMC \cup {Sess("s2s", "custom", "other", FALSE), Sess("c2s", "lib", "same", TRUE)}
ASSUME C8SessMC5 \subseteq AllSess
C8ProgsMC == {<<Prog8(n, m)>> : n \in {0, 1, 3, 8, 10}, m \in {"stop", "ignore"}} \cup {<<Prog8(n, "stopeof")>> : n \in {0, 3}}
             \cup {<<Prog8(0, "stop"), Prog8(10, "ignore")>>, <<Prog8(10, "stop"), Prog8(2, "ignore")>>}
=============================================================================
