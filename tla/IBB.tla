--------------------------------- MODULE IBB ---------------------------------
(***************************************************************************)
(* C15 - an in-band bytestream (XEP-0047, mellium.im/xmpp/ibb) is a         *)
(* reliable ordered byte pipe - and the IBB part of C06 (Open, Close, Read  *)
(* vs. the serve loop: one outcome per call, no lost wake-up).              *)
(*                                                                         *)
(* Two endpoints "a" (opens the stream) and "b" (accepts or refuses) share  *)
(* one stream id.  Each endpoint is a writer (its own byte stream towards   *)
(* the peer) and a reader (of the peer's stream).  A byte is identified     *)
(* with its POSITION in its writer's stream (every byte distinct - the      *)
(* strongest alphabet): a chunk of data is a range [lo, lo+n) of the        *)
(* stream it belongs to, or garbage (lo = -1).                              *)
(*                                                                         *)
(* Writer e:   Write(n)  wlen += n        (bytes offered by the caller)     *)
(*             Packetise(k)  any k >= 1 unsent offered bytes become one     *)
(*                           data packet numbered nextSeq (mod M): ANY      *)
(*                           packetisation is allowed                       *)
(*             CloseCall -> (all offered bytes packetised) CloseReq ->      *)
(*                           reply -> CloseRet                              *)
(* Wire:       chan[e] = request-like stanzas travelling to e (FIFO);       *)
(*             owed = replies an endpoint still has to send                 *)
(* Reader e:   Deliver (serve loop): sid check, sequence check, decode      *)
(*             check, size check -> refuse(condition) | accept (acc += n)   *)
(*             ReadCall -> ReadCheck (buffer empty: announce the wait) ->   *)
(*             Block -> Wake (needs a wake-up that was sent after the       *)
(*             announcement) -> ReadRet(k bytes | EOF)                      *)
(* Inject:     a scripted peer sends bad packets (InjectBad).               *)
(*                                                                         *)
(* Dev: named deviations (all off in the design check; used to show that    *)
(* each invariant can fail, and by known findings).                         *)
(*                                                                         *)
(* DeliverOpen(accept) abstracts the ACCEPTING side's rendezvous (who takes *)
(* the freshly opened session: Listener.Accept / Expect / Close against the *)
(* open handler of the serve loop, several session ids and callers).  That  *)
(* rendezvous is specified in IBBListen.tla (MCIBBListen, TrIBBListen).     *)
(***************************************************************************)
EXTENDS Integers, Sequences, FiniteSets, TLC

CONSTANTS M,          \* sequence numbers count modulo M (65536 in reality)
          MaxBuf,     \* [E -> Nat]: receive buffer limit of each endpoint
          Dev

E == {"a", "b"}
Peer(e) == IF e = "a" THEN "b" ELSE "a"
Sid == "s"

Conds == {"item-not-found", "unexpected-request", "bad-request", "resource-constraint", "not-acceptable"}

VARIABLES
  ost,      \* open handshake: "idle" "requested" "accepted" "refused" "ok" "failed"
  tbl,      \* [E -> "none" | "open" | "closing" | "closed"]: the stream in e's table
  wlen,     \* [E -> Nat] bytes offered to e's writer
  sent,     \* [E -> Nat] bytes of e's stream put into data packets
  nextSeq,  \* [E -> 0..M-1]
  broken,   \* [E -> BOOLEAN] one of e's data packets was refused: the stream is broken for e as a writer
  cst,      \* [E -> "no" | "calling" | "requested" | "replied" | "done"]: e's own Close call
  flushing, \* [E -> BOOLEAN] e is handling the peer's close request (may still flush)
  chan,     \* [E -> Seq(stanza)] request-like stanzas on their way to e
  owed,     \* set of [by, id, allowed, any]: replies still to be sent
  expSeq,   \* [E -> 0..M-1] reader: next expected sequence number
  acc,      \* [E -> Nat] reader: bytes accepted into the read buffer so far
  del,      \* [E -> Nat] reader: bytes returned by Read so far
  rpc,      \* [E -> "idle" | "called" | "towait" | "waiting"]
  ready,    \* [E -> BOOLEAN] a wake-up for the announced wait is pending
  sawEOF,   \* [E -> BOOLEAN]
  corrupt,  \* [E -> BOOLEAN] history: the read buffer of e received something else than the next bytes of the peer's stream
  badEOF,   \* history: a Read returned EOF before the stream was closed and drained
  badOpen,  \* history: Open reported success without an acceptance
  ninj,     \* number of injected packets (model bound)
  lim       \* [E -> Nat] receive buffer limit of each endpoint (constant during a behaviour)

vars == <<ost, tbl, wlen, sent, nextSeq, broken, cst, flushing, chan, owed, expSeq, acc, del, rpc, ready,
          sawEOF, corrupt, badEOF, badOpen, ninj, lim>>

Init ==
  /\ ost = "idle" /\ tbl = [e \in E |-> "none"]
  /\ wlen = [e \in E |-> 0] /\ sent = [e \in E |-> 0] /\ nextSeq = [e \in E |-> 0]
  /\ broken = [e \in E |-> FALSE] /\ cst = [e \in E |-> "no"] /\ flushing = [e \in E |-> FALSE]
  /\ chan = [e \in E |-> <<>>] /\ owed = {}
  /\ expSeq = [e \in E |-> 0] /\ acc = [e \in E |-> 0] /\ del = [e \in E |-> 0]
  /\ rpc = [e \in E |-> "idle"] /\ ready = [e \in E |-> FALSE] /\ sawEOF = [e \in E |-> FALSE]
  /\ corrupt = [e \in E |-> FALSE] /\ badEOF = FALSE /\ badOpen = FALSE /\ ninj = 0 /\ lim = MaxBuf

Fill(e) == acc[e] - del[e]
(* the stream is over for e as a reader: closed by the peer, or e itself is closing / has closed *)
Over(e) == tbl[e] \in {"closing", "closed"} \/ cst[e] # "no"

Stanza(id, kind, carrier, sd, seq, lo, n, ok, inj) ==
  [id |-> id, kind |-> kind, carrier |-> carrier, sid |-> sd, seq |-> seq, lo |-> lo, n |-> n, ok |-> ok, inj |-> inj]
Owe(by, id, kind, allowed, any) == [by |-> by, id |-> id, kind |-> kind, allowed |-> allowed, any |-> any]

-----------------------------------------------------------------------------
(* Opening *)
OpenCall(id) ==
  /\ ost = "idle" /\ ost' = "requested"
  /\ chan' = [chan EXCEPT !["b"] = Append(@, Stanza(id, "open", "iq", Sid, 0, 0, 0, TRUE, FALSE))]
  /\ UNCHANGED <<tbl, wlen, sent, nextSeq, broken, cst, flushing, owed, expSeq, acc, del, rpc, ready, sawEOF, corrupt, badEOF, badOpen, ninj, lim>>

(* the serve loop of b handles the open request: b accepts (a listener is there) or refuses *)
DeliverOpen(accept) ==
  /\ chan["b"] # <<>> /\ Head(chan["b"]).kind = "open"
  /\ chan' = [chan EXCEPT !["b"] = Tail(@)]
  /\ IF accept /\ tbl["b"] = "none"
       THEN /\ tbl' = [tbl EXCEPT !["b"] = "open"]
            /\ owed' = owed \cup {Owe("b", Head(chan["b"]).id, "open", {"result"}, FALSE)}
       ELSE /\ tbl' = tbl
            /\ owed' = owed \cup {Owe("b", Head(chan["b"]).id, "open", Conds, FALSE)}
  /\ UNCHANGED <<ost, wlen, sent, nextSeq, broken, cst, flushing, expSeq, acc, del, rpc, ready, sawEOF, corrupt, badEOF, badOpen, ninj, lim>>

(* Open returns: success only if the peer accepted (the reply was a result).  The stream is in a's   *)
(* table from the moment the result is on the wire (ReplyOpen), so that data the peer sends at once  *)
(* is not refused.                                                                                    *)
OpenRet(ok) ==
  /\ ost \in {"accepted", "refused"}
  /\ IF "OpenIgnoresReply" \in Dev THEN TRUE ELSE ok = (ost = "accepted")
  /\ ost' = IF ok THEN "ok" ELSE "failed"
  /\ badOpen' = (badOpen \/ (ok /\ ost # "accepted"))
  /\ tbl' = IF ok /\ tbl["a"] = "none" THEN [tbl EXCEPT !["a"] = "open"] ELSE tbl
  /\ UNCHANGED <<wlen, sent, nextSeq, broken, cst, flushing, chan, owed, expSeq, acc, del, rpc, ready, sawEOF, corrupt, badEOF, ninj, lim>>

-----------------------------------------------------------------------------
(* Writer *)
Write(e, n) ==
  /\ wlen' = [wlen EXCEPT ![e] = @ + n]
  /\ UNCHANGED <<ost, tbl, sent, nextSeq, broken, cst, flushing, chan, owed, expSeq, acc, del, rpc, ready, sawEOF, corrupt, badEOF, badOpen, ninj, lim>>

MaySend(e) == tbl[e] \in {"open", "closing"} \/ flushing[e]

(* one data packet with the next k unsent bytes; ANY split is allowed *)
Packetise(e, id, k, carrier) ==
  /\ MaySend(e) /\ ~broken[e]
  /\ k >= 1 /\ sent[e] + k <= wlen[e]
  /\ chan' = [chan EXCEPT ![Peer(e)] = Append(@, Stanza(id, "data", carrier, Sid, nextSeq[e], sent[e], k, TRUE, FALSE))]
  /\ sent' = [sent EXCEPT ![e] = @ + k]
  /\ nextSeq' = [nextSeq EXCEPT ![e] = (@ + 1) % M]
  /\ UNCHANGED <<ost, tbl, wlen, broken, cst, flushing, owed, expSeq, acc, del, rpc, ready, sawEOF, corrupt, badEOF, badOpen, ninj, lim>>

CloseCall(e) ==
  /\ cst[e] = "no" /\ cst' = [cst EXCEPT ![e] = "calling"]
  /\ tbl' = [tbl EXCEPT ![e] = IF @ = "open" THEN "closing" ELSE @]
  /\ UNCHANGED <<ost, wlen, sent, nextSeq, broken, flushing, chan, owed, expSeq, acc, del, rpc, ready, sawEOF, corrupt, badEOF, badOpen, ninj, lim>>

(* the close request goes out only after everything offered was packetised *)
CloseReq(e, id) ==
  /\ cst[e] = "calling" /\ (broken[e] \/ sent[e] = wlen[e])
  /\ cst' = [cst EXCEPT ![e] = "requested"]
  /\ chan' = [chan EXCEPT ![Peer(e)] = Append(@, Stanza(id, "close", "iq", Sid, 0, 0, 0, TRUE, FALSE))]
  /\ UNCHANGED <<ost, tbl, wlen, sent, nextSeq, broken, flushing, owed, expSeq, acc, del, rpc, ready, sawEOF, corrupt, badEOF, badOpen, ninj, lim>>

(* Close returns.  With err = FALSE: the handshake was completed, or the stream had already been    *)
(* closed by the peer; from now on the stream is closed in e's table.                                *)
CloseRet(e, err) ==
  /\ cst[e] \in {"calling", "requested", "replied"}
  /\ (~err => (cst[e] = "replied" \/ (cst[e] = "calling" /\ tbl[e] \in {"closed", "none"})))
  /\ (err => (broken[e] \/ cst[e] = "replied"))
  /\ cst' = [cst EXCEPT ![e] = "done"]
  /\ tbl' = [tbl EXCEPT ![e] = IF ~err /\ @ # "none" THEN "closed" ELSE @]
  /\ ready' = [ready EXCEPT ![e] = IF rpc[e] \in {"towait", "waiting"} THEN TRUE ELSE @]
  /\ UNCHANGED <<ost, wlen, sent, nextSeq, broken, flushing, chan, owed, expSeq, acc, del, rpc, sawEOF, corrupt, badEOF, badOpen, ninj, lim>>

-----------------------------------------------------------------------------
(* Serve loop of e: the data packet at the head of chan[e] *)
(* conditions that oblige / entitle e to refuse the packet p *)
Known(e, p) == p.sid = Sid /\ tbl[e] \in {"open", "closing"}
Must(e, p) ==
  IF ~Known(e, p) THEN {"item-not-found"}
  ELSE (IF p.seq # expSeq[e] /\ ~("AcceptAhead" \in Dev /\ (p.seq - expSeq[e]) % M < M \div 2) THEN {"unexpected-request"} ELSE {})
       \cup (IF ~p.ok THEN {"bad-request"} ELSE {})
       \cup (IF Fill(e) + p.n > lim[e] THEN {"resource-constraint"} ELSE {})
May(e, p) ==
  Must(e, p)
  \cup (IF Known(e, p) /\ Fill(e) + p.n + 2 > lim[e] THEN {"resource-constraint"} ELSE {})  \* padded size estimate
  \cup (IF p.sid = Sid /\ tbl[e] = "closing" THEN {"item-not-found"} ELSE {})                  \* e is closing the stream itself

Signal(e) == [ready EXCEPT ![e] = IF rpc[e] = "waiting" \/ (rpc[e] = "towait" /\ "LostWakeup" \notin Dev) THEN TRUE ELSE @]

DeliverData(e, refuse) ==
  /\ chan[e] # <<>> /\ Head(chan[e]).kind = "data"
  /\ LET p == Head(chan[e]) IN
     /\ chan' = [chan EXCEPT ![e] = Tail(@)]
     /\ IF refuse # "none"
          THEN /\ refuse \in May(e, p)
               /\ owed' = owed \cup {Owe(e, p.id, IF p.inj THEN "idata" ELSE "data", {refuse}, FALSE)}
               /\ IF "PartialAppend" \in Dev /\ refuse = "bad-request" /\ p.n > 0
                    THEN acc' = [acc EXCEPT ![e] = @ + p.n] /\ corrupt' = [corrupt EXCEPT ![e] = TRUE]
                    ELSE UNCHANGED <<acc, corrupt>>
               /\ expSeq' = IF "SeqBeforeChecks" \in Dev /\ refuse \in {"bad-request", "resource-constraint"}
                              THEN [expSeq EXCEPT ![e] = (@ + 1) % M] ELSE expSeq
               /\ UNCHANGED ready
          ELSE /\ Must(e, p) = {}
               /\ acc' = [acc EXCEPT ![e] = @ + p.n]
               /\ expSeq' = [expSeq EXCEPT ![e] = (p.seq + 1) % M]
               /\ corrupt' = [corrupt EXCEPT ![e] = @ \/ (p.n > 0 /\ (p.lo # acc[e] \/ acc[e] + p.n > wlen[Peer(e)]))]
               /\ owed' = IF p.carrier = "iq" THEN owed \cup {Owe(e, p.id, IF p.inj THEN "idata" ELSE "data", {"result"}, FALSE)} ELSE owed
               /\ ready' = Signal(e)
  /\ UNCHANGED <<ost, tbl, wlen, sent, nextSeq, broken, cst, flushing, del, rpc, sawEOF, badEOF, badOpen, ninj, lim>>

(* the peer's close request: the stream leaves e's table; e may still flush what it holds until it replies *)
DeliverClose(e) ==
  /\ chan[e] # <<>> /\ Head(chan[e]).kind = "close"
  /\ LET p == Head(chan[e]) IN
     /\ chan' = [chan EXCEPT ![e] = Tail(@)]
     /\ IF p.sid = Sid /\ tbl[e] \in {"open", "closing"}
          THEN /\ tbl' = [tbl EXCEPT ![e] = "closed"]
               /\ flushing' = [flushing EXCEPT ![e] = TRUE]
               /\ owed' = owed \cup {Owe(e, p.id, "close", IF tbl[e] = "closing" THEN {"result", "item-not-found"} ELSE {"result"}, FALSE)}
               /\ ready' = [ready EXCEPT ![e] = IF rpc[e] \in {"towait", "waiting"} THEN TRUE ELSE @]
          ELSE (* no such stream (any more). For a stream that existed and is closed the property only *)
               (* speaks about data packets: a second close may also simply be acknowledged.            *)
               /\ owed' = owed \cup {Owe(e, p.id, "close", IF p.sid = Sid /\ tbl[e] = "closed" THEN {"item-not-found", "result"} ELSE {"item-not-found"}, FALSE)}
               /\ UNCHANGED <<tbl, flushing, ready>>
  /\ UNCHANGED <<ost, wlen, sent, nextSeq, broken, cst, expSeq, acc, del, rpc, sawEOF, corrupt, badEOF, badOpen, ninj, lim>>

(* stanzas the model says nothing about *)
DeliverOther(e) ==
  /\ chan[e] # <<>> /\ Head(chan[e]).kind = "other"
  /\ chan' = [chan EXCEPT ![e] = Tail(@)]
  /\ owed' = owed \cup {Owe(e, Head(chan[e]).id, "other", {}, TRUE)}
  /\ UNCHANGED <<ost, tbl, wlen, sent, nextSeq, broken, cst, flushing, expSeq, acc, del, rpc, ready, sawEOF, corrupt, badEOF, badOpen, ninj, lim>>

(* e sends the reply r ("result" or an error condition) it owes for the stanza id; the effect on the *)
(* requester is folded in (its API return comes later)                                                *)
Reply(e, id, r) ==
  \E o \in owed :
    /\ o.by = e /\ o.id = id /\ (o.any \/ r \in o.allowed)
    /\ owed' = owed \ {o}
    /\ LET kind == o.kind IN
       /\ flushing' = IF kind = "close" THEN [flushing EXCEPT ![e] = FALSE] ELSE flushing
       /\ ost' = IF kind = "open" /\ ost = "requested" THEN (IF r = "result" THEN "accepted" ELSE "refused") ELSE ost
       /\ broken' = IF kind = "data" /\ r # "result" THEN [broken EXCEPT ![Peer(e)] = TRUE] ELSE broken
       /\ cst' = IF kind = "close" /\ cst[Peer(e)] = "requested" THEN [cst EXCEPT ![Peer(e)] = "replied"] ELSE cst
       /\ tbl' = IF kind = "open" /\ r = "result" /\ tbl["a"] = "none" /\ ost = "requested" THEN [tbl EXCEPT !["a"] = "open"] ELSE tbl
    /\ UNCHANGED <<wlen, sent, nextSeq, chan, expSeq, acc, del, rpc, ready, sawEOF, corrupt, badEOF, badOpen, ninj, lim>>

-----------------------------------------------------------------------------
(* Reader *)
ReadCall(e) ==
  /\ rpc[e] = "idle" /\ rpc' = [rpc EXCEPT ![e] = "called"]
  /\ UNCHANGED <<ost, tbl, wlen, sent, nextSeq, broken, cst, flushing, chan, owed, expSeq, acc, del, ready, sawEOF, corrupt, badEOF, badOpen, ninj, lim>>

(* the buffer is empty: the reader announces that it is going to wait *)
ReadCheck(e) ==
  /\ rpc[e] = "called" /\ Fill(e) = 0 /\ tbl[e] # "closed"
  /\ rpc' = [rpc EXCEPT ![e] = "towait"] /\ ready' = [ready EXCEPT ![e] = FALSE]
  /\ UNCHANGED <<ost, tbl, wlen, sent, nextSeq, broken, cst, flushing, chan, owed, expSeq, acc, del, sawEOF, corrupt, badEOF, badOpen, ninj, lim>>

Block(e) ==
  /\ rpc[e] = "towait" /\ rpc' = [rpc EXCEPT ![e] = "waiting"]
  /\ UNCHANGED <<ost, tbl, wlen, sent, nextSeq, broken, cst, flushing, chan, owed, expSeq, acc, del, ready, sawEOF, corrupt, badEOF, badOpen, ninj, lim>>

Wake(e) ==
  /\ rpc[e] = "waiting" /\ (ready[e] \/ tbl[e] = "closed")
  /\ rpc' = [rpc EXCEPT ![e] = "called"] /\ ready' = [ready EXCEPT ![e] = FALSE]
  /\ UNCHANGED <<ost, tbl, wlen, sent, nextSeq, broken, cst, flushing, chan, owed, expSeq, acc, del, sawEOF, corrupt, badEOF, badOpen, ninj, lim>>

(* Read returns k >= 1 buffered bytes (at most n), or end-of-file *)
ReadRet(e, n, k, eof) ==
  /\ rpc[e] = "called" /\ rpc' = [rpc EXCEPT ![e] = "idle"]
  /\ IF eof
       THEN /\ k = 0
            /\ ("EOFBeforeDrain" \in Dev \/ (Fill(e) = 0 /\ Over(e)))
            /\ badEOF' = (badEOF \/ ~(Fill(e) = 0 /\ Over(e)))
            /\ sawEOF' = [sawEOF EXCEPT ![e] = TRUE] /\ del' = del
       ELSE /\ k >= 1 /\ k <= n /\ k <= Fill(e)
            /\ del' = [del EXCEPT ![e] = @ + k]
            /\ UNCHANGED <<sawEOF, badEOF>>
  /\ UNCHANGED <<ost, tbl, wlen, sent, nextSeq, broken, cst, flushing, chan, owed, expSeq, acc, ready, corrupt, badOpen, ninj, lim>>

-----------------------------------------------------------------------------
(* A scripted peer injects a bad packet into e's input *)
BadKinds == {"unknownsid", "closedsid", "seqlow", "seqhigh", "undecodable", "partial", "oversize"}
BadPacket(e, id, kind, carrier) ==
  CASE kind = "unknownsid"  -> Stanza(id, "data", carrier, "u", expSeq[e], -1, 1, TRUE, TRUE)
    [] kind = "closedsid"   -> Stanza(id, "data", carrier, Sid, expSeq[e], -1, 1, TRUE, TRUE)
    [] kind = "seqlow"      -> Stanza(id, "data", carrier, Sid, (expSeq[e] + M - 1) % M, -1, 1, TRUE, TRUE)
    [] kind = "seqhigh"     -> Stanza(id, "data", carrier, Sid, (expSeq[e] + 1) % M, -1, 1, TRUE, TRUE)
    [] kind = "undecodable" -> Stanza(id, "data", carrier, Sid, expSeq[e], -1, 0, FALSE, TRUE)
    [] kind = "partial"     -> Stanza(id, "data", carrier, Sid, expSeq[e], -1, 1, FALSE, TRUE)
    [] kind = "oversize"    -> Stanza(id, "data", carrier, Sid, expSeq[e], -1, lim[e] + 1, TRUE, TRUE)

InjectBad(e, id, kind, carrier) ==
  /\ (kind = "closedsid" => tbl[e] = "closed")
  /\ (kind # "closedsid" => tbl[e] # "closed")
  /\ chan' = [chan EXCEPT ![e] = Append(@, BadPacket(e, id, kind, carrier))]
  /\ ninj' = ninj + 1
  /\ UNCHANGED <<ost, tbl, wlen, sent, nextSeq, broken, cst, flushing, owed, expSeq, acc, del, rpc, ready, sawEOF, corrupt, badEOF, badOpen, lim>>

-----------------------------------------------------------------------------
(* The model's own scheduler (design check); ids are derived from the content.  Assumption A1: a writer     *)
(* learns of a refusal before it sends M further packets (modelled: it does not packetise while a  *)
(* refusal of one of its packets is on its way) - otherwise sequence numbers are ambiguous.        *)
CONSTANTS MaxW,      \* [E -> Nat] bytes each endpoint writes at most
          MaxInj, MaxChan, Carriers,
          Readers    \* endpoints whose application reads

RefusalPending(e) == \E o \in owed : o.by = Peer(e) /\ o.kind = "data" /\ o.allowed # {"result"}

MCOpenCall == OpenCall(<<"o", "a", 0>>)
MCDeliverOpen == \E acpt \in BOOLEAN : DeliverOpen(acpt)
MCOpenRet == \E ok \in BOOLEAN : OpenRet(ok)
MCWrite(e) == \E n \in 1..2 : tbl[e] = "open" /\ (e = "a" => ost = "ok") /\ cst[e] = "no" /\ wlen[e] + n <= MaxW[e] /\ Write(e, n)
MCPacketise(e) == \E k \in 1..2 : \E c \in Carriers : Len(chan[Peer(e)]) < MaxChan /\ ~RefusalPending(e) /\ Packetise(e, <<"d", e, sent[e]>>, k, c)
MCCloseCall(e) == tbl[e] = "open" /\ (e = "a" => ost = "ok") /\ CloseCall(e) 
MCCloseReq(e) == Len(chan[Peer(e)]) < MaxChan /\ CloseReq(e, <<"c", e, 0>>)
MCCloseRet(e) == \E err \in BOOLEAN : CloseRet(e, err)
MCDeliverData(e) == \E r \in Conds \cup {"none"} : DeliverData(e, r)
MCReply == \E o \in owed : \E r \in o.allowed : Reply(o.by, o.id, r)
MCReadCall(e) == e \in Readers /\ tbl[e] # "none" /\ (e = "a" => ost = "ok") /\ ~sawEOF[e] /\ ReadCall(e)
MCReadRet(e) == \E k \in 0..2 : \E eof \in BOOLEAN : ReadRet(e, 2, k, eof)
MCInject(e) == \E kind \in BadKinds : \E c \in Carriers :
                 ninj < MaxInj /\ chan[e] = <<>> /\ ost = "ok" /\ InjectBad(e, <<"i", e, ninj>>, kind, c)

Next ==
  \/ MCOpenCall \/ MCDeliverOpen \/ MCOpenRet \/ MCReply
  \/ \E e \in E : \/ MCWrite(e) \/ MCPacketise(e) \/ MCCloseCall(e) \/ MCCloseReq(e) \/ MCCloseRet(e)
                  \/ MCDeliverData(e) \/ DeliverClose(e)
                  \/ MCReadCall(e) \/ ReadCheck(e) \/ Block(e) \/ Wake(e) \/ MCReadRet(e)
                  \/ MCInject(e)

Spec == Init /\ [][Next]_vars

-----------------------------------------------------------------------------
(* C15 *)
C15_OpenOnlyIfAccepted == ~badOpen /\ (ost = "ok" => tbl["b"] # "none")
(* delivered is a prefix of accepted is a prefix of written; nothing foreign ever entered a read buffer *)
C15_PrefixOrder == \A e \in E : ~corrupt[e] /\ del[e] <= acc[e] /\ acc[e] <= wlen[Peer(e)]
(* data packets of a writer are numbered consecutively from zero modulo M *)
C15_ConsecutiveSeq ==
  \A e \in E : LET own == SelectSeq(chan[e], LAMBDA p : p.kind = "data" /\ ~p.inj) IN
     /\ \A i \in 1..Len(own) - 1 : own[i + 1].seq = (own[i].seq + 1) % M
     /\ (own # <<>> => own[Len(own)].seq = (nextSeq[Peer(e)] + M - 1) % M)
     /\ \A i \in 1..Len(own) : own[i].lo + own[i].n <= sent[Peer(e)]
(* a refused packet changes neither the buffer nor what was delivered: by the shape of DeliverData; *)
(* as an action property: *)
C15_Refused ==
  [][\A e \in E : (chan[e] # <<>> /\ chan'[e] = Tail(chan[e]) /\ Head(chan[e]).kind = "data"
                   /\ \E o \in owed' \ owed : o.allowed # {"result"})
                  => (acc'[e] = acc[e] /\ del'[e] = del[e] /\ expSeq'[e] = expSeq[e])]_vars
C15_EOFOnlyAfterDrain == ~badEOF
(* a waiting reader that has something to return (data or end-of-file) has its wake-up *)
C15_NoLostWakeup == \A e \in E : (rpc[e] = "waiting" /\ (Fill(e) > 0 \/ tbl[e] = "closed")) => (ready[e] \/ tbl[e] = "closed")
C06_IBBNoLostWakeup == C15_NoLostWakeup

TypeOK ==
  /\ \A e \in E : expSeq[e] \in 0..M - 1 /\ nextSeq[e] \in 0..M - 1 /\ sent[e] <= wlen[e] /\ del[e] <= acc[e]

(* liveness, for readers that keep reading *)
Fairness ==
  /\ \A e \in E : WF_vars(MCDeliverData(e)) /\ WF_vars(DeliverClose(e))
  /\ \A e \in E : WF_vars(MCReadCall(e)) /\ WF_vars(ReadCheck(e)) /\ WF_vars(Block(e)) /\ WF_vars(Wake(e))
  /\ \A e \in E : WF_vars(MCReadRet(e))
  /\ WF_vars(MCReply)
FairSpec == Spec /\ Fairness
(* once the peer has closed the stream, a reader that keeps reading drains the buffer and then sees EOF *)
C15_DrainThenEOF == \A e \in Readers : (tbl[e] = "closed" /\ cst[e] = "no") ~> (del[e] = acc[e] /\ sawEOF[e])
C06_IBBReadReturns == \A e \in E : (rpc[e] = "waiting" /\ Fill(e) > 0) ~> (rpc[e] # "waiting")
=============================================================================
