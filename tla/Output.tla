------------------------------- MODULE Output -------------------------------
(***************************************************************************)
(* The output side of an established session (session.go): the output lock,*)
(* every transmit entry point, Close, the error-sending path and Serve's   *)
(* own shutdown, for any number of goroutines.  Properties C05 (each       *)
(* transmit call puts exactly its own element on the wire, whole, never    *)
(* interleaved) and C10 (closing is idempotent, final and observable).     *)
(*                                                                         *)
(* A process runs a program: a sequence of calls.  Call kinds:             *)
(*   "tx"     any transmit entry point (Send*, Encode*, TokenWriter session,*)
(*            a handler's reply through the serve loop's deferred writer)  *)
(*   "close"  Session.Close                                                *)
(*   "serve"  Session.Serve: consumes the peer's items, may issue tx       *)
(*            (handler reply), senderr (handler error / received stream    *)
(*            error), then closeinput and close                            *)
(*   "rx"     a read through TokenReader after everything else             *)
(* One action per critical section / linearisation point of the code.      *)
(***************************************************************************)
EXTENDS Integers, Sequences, FiniteSets, TLC

CONSTANTS Procs,      \* process names
          Programs,   \* set of possible programs (MC); a program is a sequence of call kinds
          PeerScripts,\* set of possible peer scripts (MC): sequences of items
          MaxChunks,  \* bound on wire writes per element (MC)
          Dev         \* enabled deviations

VARIABLES prog,       \* prog[p]: calls still to make
          cur,        \* cur[p]: current call [k, st, wrote] or NoCall
          lock,       \* holder of the output lock or "free"
          outClosed, inClosed,
          wire,       \* history: sequence of [p, what] with what in {"elem","close","err"}
          rets,       \* history: rets[p] sequence of [k, class]
          peer,       \* items the peer will still send (script)
          avail,      \* how many of them have been delivered to the transport already
          failArmed,  \* the transport will fail the write of the closing tag (once)
          dl,         \* the close deadline: "none", "armed" (SetCloseDeadline called), "rearmed" (called again with a
                      \* LATER time: the earlier, replaced deadline has not gone by yet), "passed"
          broken,     \* a transmit failed in the transport (expired context): the encoder keeps the error
          sv          \* serve process state: [phase, reason, pending]

vars == <<prog, cur, lock, outClosed, inClosed, wire, rets, peer, avail, failArmed, dl, broken, sv>>

NoCall == [k |-> "none", st |-> "none", wrote |-> 0]
Items == {"stanza", "stanza_reply", "stanza_herr", "close", "streamerr", "eof"}

Init ==
  /\ prog \in {f \in [Procs -> Programs] :
                 Cardinality({p \in Procs : \E i \in 1..Len(f[p]) : f[p][i] = "serve"}) <= 1}
  /\ cur = [p \in Procs |-> NoCall]
  /\ lock = "free" /\ outClosed = FALSE /\ inClosed = FALSE
  /\ wire = <<>> /\ rets = [p \in Procs |-> <<>>]
  /\ peer \in PeerScripts /\ avail = 0 /\ failArmed \in BOOLEAN /\ dl = "none" /\ broken = FALSE
  /\ sv = [phase |-> "idle", reason |-> "none", owner |-> "none", pending |-> 0]

-----------------------------------------------------------------------------
(* Generic call protocol: Enter -> Acquire -> (body) -> Return                      *)

Begin(p) ==       \* the next call of p's program starts (before taking any lock)
  /\ cur[p] = NoCall /\ prog[p] # <<>>
  /\ cur' = [cur EXCEPT ![p] = [k |-> Head(prog[p]), st |-> "entered", wrote |-> 0]]
  /\ prog' = [prog EXCEPT ![p] = Tail(prog[p])]
  /\ IF sv.owner = p /\ sv.phase \in {"reading", "closing"}
     THEN sv.pending > 0 /\ sv' = [sv EXCEPT !.pending = @ - 1]   \* only calls Serve itself issued
     ELSE UNCHANGED sv
  /\ UNCHANGED <<lock, outClosed, inClosed, wire, rets, peer, avail, failArmed, dl, broken>>

TxKinds == {"tx", "txc"}     \* "txc": a transmit call whose context is already done
NeedsOutLock(k) == k \in TxKinds \cup {"close", "senderr"}

Acquire(p) ==
  /\ cur[p].st = "entered" /\ NeedsOutLock(cur[p].k) /\ lock = "free"
  /\ lock' = p
  /\ cur' = [cur EXCEPT ![p].st = "holding"]
  /\ UNCHANGED <<prog, outClosed, inClosed, wire, rets, peer, avail, failArmed, dl, broken, sv>>

(* The body of the call is over: the lock (if held) is released here.  The caller   *)
(* observes the return later (Ret): between the two other goroutines may run.       *)
Return(p, class) ==
  /\ cur' = [cur EXCEPT ![p] = [k |-> cur[p].k, st |-> "returning", wrote |-> cur[p].wrote, class |-> class]]
  /\ lock' = IF lock = p THEN "free" ELSE lock
  /\ UNCHANGED rets

Ret(p) ==
  /\ cur[p].st = "returning"
  /\ rets' = [rets EXCEPT ![p] = Append(@, [k |-> cur[p].k, class |-> cur[p].class])]
  /\ cur' = [cur EXCEPT ![p] = NoCall]
  /\ UNCHANGED <<prog, lock, outClosed, inClosed, wire, peer, avail, failArmed, dl, broken, sv>>

(* Transmit: refused once the output stream is closed (C10), otherwise writes its    *)
(* element in one or more chunks while holding the lock (C05).                       *)
TxRefuse(p) ==
  /\ cur[p].k \in TxKinds /\ cur[p].st = "holding" /\ outClosed /\ cur[p].wrote = 0
  /\ "WriteAfterClose" \notin Dev
  /\ Return(p, "closed")
  /\ UNCHANGED <<prog, outClosed, inClosed, wire, peer, avail, failArmed, dl, broken, sv>>

TxWrite(p) ==
  /\ cur[p].k \in TxKinds /\ cur[p].st = "holding" /\ ~broken
  /\ (~outClosed \/ "WriteAfterClose" \in Dev)
  /\ cur[p].wrote < MaxChunks
  /\ wire' = Append(wire, [p |-> p, what |-> "elem", c |-> Len(rets[p])])
  /\ cur' = [cur EXCEPT ![p].wrote = @ + 1]
  /\ UNCHANGED <<prog, lock, outClosed, inClosed, rets, peer, avail, failArmed, dl, broken, sv>>

TxDone(p) ==
  /\ cur[p].k \in TxKinds /\ cur[p].st = "holding" /\ cur[p].wrote >= 1 /\ ~broken
  /\ Return(p, "nil")
  /\ UNCHANGED <<prog, outClosed, inClosed, wire, peer, avail, failArmed, dl, broken, sv>>

(* A transmit call whose context is done may be interrupted in the transport (the write   *)
(* deadline): it reports the error, and the encoder keeps it - every later write fails     *)
(* without reaching the transport.  It may as well go through like any other call.         *)
TxcFail(p) ==
  /\ cur[p].k = "txc" /\ cur[p].st = "holding" /\ ~outClosed /\ ~broken
  /\ broken' = TRUE
  /\ Return(p, "other")
  /\ dl' = (IF "TxDisarmsDeadline" \in Dev THEN "none" ELSE dl)
  /\ UNCHANGED <<prog, outClosed, inClosed, wire, peer, avail, failArmed, sv>>

TxBroken(p) ==
  /\ cur[p].k \in TxKinds /\ cur[p].st = "holding" /\ ~outClosed /\ broken
  /\ Return(p, "other")
  /\ UNCHANGED <<prog, outClosed, inClosed, wire, peer, avail, failArmed, dl, broken, sv>>

(* Close: writes the closing tag exactly once, whoever gets there first.             *)
CloseWrite(p) ==
  /\ cur[p].k \in {"close", "senderr"} /\ cur[p].st = "holding" /\ ~failArmed
  /\ (~outClosed \/ ("CloseTwice" \in Dev /\ cur[p].wrote = 0))
  \* (also when the encoder is broken: the closing tag does not go through it)
  \* (the property does not require that the error element reaches the wire before the
  \*  closing tag - the pinned tests even expect that it does not; if written it goes first)
  /\ outClosed' = TRUE
  /\ wire' = Append(wire, [p |-> p, what |-> "close", c |-> Len(rets[p])])
  /\ UNCHANGED <<prog, cur, lock, inClosed, rets, peer, avail, failArmed, dl, broken, sv>>

(* The transport fails the write of the closing tag: the stream is closed all the same -  *)
(* a later Close must not write the tag again and transmit calls are refused - and the     *)
(* call reports the error.                                                                 *)
CloseWriteFail(p) ==
  /\ cur[p].k \in {"close", "senderr"} /\ cur[p].st = "holding" /\ ~outClosed /\ (failArmed \/ broken)
  /\ outClosed' = TRUE /\ failArmed' = (IF broken THEN failArmed ELSE FALSE)
  /\ Return(p, "other")
  /\ UNCHANGED <<prog, inClosed, wire, peer, avail, dl, broken, sv>>

ErrWrite(p) ==
  /\ cur[p].k = "senderr" /\ cur[p].st = "holding" /\ ~outClosed /\ cur[p].wrote = 0 /\ ~broken
  /\ wire' = Append(wire, [p |-> p, what |-> "err", c |-> Len(rets[p])])
  /\ cur' = [cur EXCEPT ![p].wrote = 1]
  /\ UNCHANGED <<prog, lock, outClosed, inClosed, rets, peer, avail, failArmed, dl, broken, sv>>

CloseDone(p) ==
  /\ cur[p].k \in {"close", "senderr"} /\ cur[p].st = "holding" /\ outClosed
  /\ Return(p, "nil")
  /\ UNCHANGED <<prog, outClosed, inClosed, wire, peer, avail, failArmed, dl, broken, sv>>

(* Input side *)
CloseInput(p) ==
  /\ cur[p].k = "closeinput" /\ cur[p].st = "entered"
  /\ inClosed' = TRUE
  /\ Return(p, "nil")
  /\ UNCHANGED <<prog, outClosed, wire, peer, avail, failArmed, dl, broken, sv>>

Rx(p) ==          \* a read attempt after Serve is over
  /\ cur[p].k = "rx" /\ cur[p].st = "entered"
  /\ Return(p, IF inClosed THEN "inclosed" ELSE "other")
  /\ UNCHANGED <<prog, outClosed, inClosed, wire, peer, avail, failArmed, dl, broken, sv>>

-----------------------------------------------------------------------------
(* Serve: one item of peer input at a time.  The serve call stays current while the *)
(* sub-calls it issues run as separate calls of the same process (program prefix).  *)

ServeStart(p) ==
  /\ cur[p].k = "serve" /\ cur[p].st = "entered" /\ sv.phase = "idle"
  /\ sv' = [sv EXCEPT !.phase = "reading", !.owner = p]
  /\ cur' = [cur EXCEPT ![p] = NoCall]           \* sub-calls follow; ServeRet ends it
  /\ UNCHANGED <<prog, lock, outClosed, inClosed, wire, rets, peer, avail, failArmed, dl, broken>>

PeerFeed ==
  /\ avail < Len(peer) /\ avail' = avail + 1
  /\ UNCHANGED <<prog, cur, lock, outClosed, inClosed, wire, rets, peer, failArmed, dl, broken, sv>>

ServeItem(p) ==
  /\ sv.phase = "reading" /\ sv.owner = p /\ sv.pending = 0 /\ cur[p] = NoCall /\ avail > 0
  /\ LET it == Head(peer) IN
     /\ peer' = Tail(peer) /\ avail' = avail - 1
     /\ CASE it = "stanza" -> UNCHANGED <<prog, sv>>
          [] it = "stanza_reply" -> prog' = [prog EXCEPT ![p] = <<"tx">> \o @] /\ sv' = [sv EXCEPT !.pending = 1]
          [] it = "stanza_herr" ->
               /\ prog' = [prog EXCEPT ![p] = <<"senderr", "closeinput", "close">> \o @]
               /\ sv' = [sv EXCEPT !.phase = "closing", !.reason = "herr", !.pending = 3]
          [] it = "streamerr" ->
               /\ prog' = [prog EXCEPT ![p] = <<"senderr", "closeinput", "close">> \o @]
               /\ sv' = [sv EXCEPT !.phase = "closing", !.reason = "streamerr", !.pending = 3]
          [] it = "close" ->
               /\ prog' = [prog EXCEPT ![p] = <<"closeinput", "close">> \o @]
               /\ sv' = [sv EXCEPT !.phase = "closing", !.reason = "peerclose", !.pending = 2]
          [] it = "eof" ->      \* raw end of the byte stream: the property is silent; either path
               \/ /\ prog' = [prog EXCEPT ![p] = <<"closeinput", "close">> \o @]
                  /\ sv' = [sv EXCEPT !.phase = "closing", !.reason = "eof", !.pending = 2]
               \/ /\ prog' = [prog EXCEPT ![p] = <<"senderr", "closeinput", "close">> \o @]
                  /\ sv' = [sv EXCEPT !.phase = "closing", !.reason = "eof", !.pending = 3]
  /\ UNCHANGED <<cur, lock, outClosed, inClosed, wire, rets, failArmed, dl, broken>>

(* A reply the handler could not write because the output stream was closed locally  *)
(* ends Serve with that error (the property does not say Serve must go on).          *)
(* The close deadline passes (an asynchronous event: it overtakes input that was not read  *)
(* yet): Serve ends with an error, by either shutdown path.                                *)
(* SetCloseDeadline arms it; it passes later (or at once, when set to a time in the past).  *)
(* Nothing else disarms it: in particular no transmit call, whatever becomes of its context. *)
DeadlineSet ==
  /\ dl = "none" /\ dl' = "armed"
  /\ UNCHANGED <<prog, cur, lock, outClosed, inClosed, wire, rets, peer, avail, failArmed, broken, sv>>
Deadline ==
  /\ dl \in {"none", "armed"} /\ dl' = "passed"
  /\ UNCHANGED <<prog, cur, lock, outClosed, inClosed, wire, rets, peer, avail, failArmed, broken, sv>>
(* SetCloseDeadline once more, with a later time: THE close deadline is the one set last.  The time it replaced *)
(* goes by first (an event of its own) and is nobody's deadline any more: nothing happens.                     *)
DeadlineReset ==
  /\ dl = "armed" /\ dl' = "rearmed"
  /\ UNCHANGED <<prog, cur, lock, outClosed, inClosed, wire, rets, peer, avail, failArmed, broken, sv>>
OldDeadlineGoesBy ==
  /\ dl = "rearmed" /\ dl' = (IF "ReplacedDeadlineFires" \in Dev THEN "passed" ELSE "armed")
  /\ UNCHANGED <<prog, cur, lock, outClosed, inClosed, wire, rets, peer, avail, failArmed, broken, sv>>

ServeDeadline(p) ==
  /\ sv.phase = "reading" /\ sv.owner = p /\ sv.pending = 0 /\ cur[p] = NoCall /\ dl = "passed"
  /\ \/ /\ prog' = [prog EXCEPT ![p] = <<"closeinput", "close">> \o @]
        /\ sv' = [sv EXCEPT !.phase = "closing", !.reason = "deadline", !.pending = 2]
     \/ /\ prog' = [prog EXCEPT ![p] = <<"senderr", "closeinput", "close">> \o @]
        /\ sv' = [sv EXCEPT !.phase = "closing", !.reason = "deadline", !.pending = 3]
  /\ UNCHANGED <<cur, lock, outClosed, inClosed, wire, rets, peer, avail, failArmed, dl, broken>>

ServeAbort(p) ==
  /\ sv.phase = "reading" /\ sv.owner = p /\ sv.pending = 0 /\ cur[p] = NoCall
  /\ rets[p] # <<>> /\ rets[p][Len(rets[p])] \in {[k |-> "tx", class |-> "closed"], [k |-> "tx", class |-> "other"]}
  /\ prog' = [prog EXCEPT ![p] = <<"senderr", "closeinput", "close">> \o @]
  /\ sv' = [sv EXCEPT !.phase = "closing", !.reason = "refused", !.pending = 3]
  /\ UNCHANGED <<cur, lock, outClosed, inClosed, wire, rets, peer, avail, failArmed, dl, broken>>

(* Serve returns once its shutdown calls are done: nil after the peer's close, the   *)
(* error otherwise; both directions are closed.                                      *)
ServeRet(p, class) ==
  /\ sv.phase = "closing" /\ sv.owner = p /\ sv.pending = 0 /\ cur[p] = NoCall
  /\ Len(rets[p]) >= 2 /\ rets[p][Len(rets[p])].k = "close"
  /\ CASE sv.reason = "peerclose" ->      \* nil - unless Serve's own Close could not write the closing tag
            class = (IF rets[p][Len(rets[p])].class = "other" THEN "other" ELSE "nil")
       [] sv.reason = "streamerr" -> class = "streamerr"
       [] sv.reason = "eof" -> class \in {"nil", "other"}     \* the property is silent on a raw EOF
       [] sv.reason = "refused" -> class \in {"closed", "other"}
       [] OTHER -> class = "other"
  /\ sv' = [sv EXCEPT !.phase = "done"]
  /\ rets' = [rets EXCEPT ![p] = Append(@, [k |-> "serve", class |-> class])]
  /\ UNCHANGED <<prog, cur, lock, outClosed, inClosed, wire, peer, avail, failArmed, dl, broken>>

-----------------------------------------------------------------------------
Next ==
  \/ PeerFeed \/ Deadline \/ DeadlineSet \/ DeadlineReset \/ OldDeadlineGoesBy
  \/ \E p \in Procs :
      \/ Begin(p) \/ Ret(p) \/ Acquire(p) \/ TxRefuse(p) \/ TxWrite(p) \/ TxDone(p) \/ TxcFail(p) \/ TxBroken(p)
      \/ CloseWrite(p) \/ CloseWriteFail(p) \/ ErrWrite(p) \/ CloseDone(p) \/ CloseInput(p) \/ Rx(p)
      \/ ServeStart(p) \/ ServeItem(p) \/ ServeAbort(p) \/ ServeDeadline(p)
      \/ \E c \in {"nil", "streamerr", "other", "closed"} : ServeRet(p, c)

Spec == Init /\ [][Next]_vars
FairSpec == Spec /\ WF_vars(Next)

-----------------------------------------------------------------------------
(* Properties *)

CloseIdx == {i \in 1..Len(wire) : wire[i].what = "close"}

C10_OneCloseTag == Cardinality(CloseIdx) <= 1
C10_NothingAfterClose == \A i \in CloseIdx : i = Len(wire)
C10_ClosedIffTag == (CloseIdx # {} => outClosed) /\ (outClosed /\ CloseIdx = {} => ~failArmed \/ broken)  \* closed without a tag only after the write fault
(* a transmit call returns nil only if it wrote, and "closed" only if it wrote nothing *)
C10_SendersRefused ==
  \A p \in Procs : \A i \in 1..Len(rets[p]) :
     rets[p][i].k \in TxKinds =>
        (rets[p][i].class \in {"nil", "closed"} \/ (rets[p][i].class = "other" /\ broken))  \* "other" only after a transport failure
(* the close deadline, once set, is disarmed by nobody and stays passed once it has passed *)
C10_DeadlineKept == [][(dl \in {"armed", "rearmed"} => dl' \in {"armed", "rearmed", "passed"}) /\ (dl = "passed" => dl' = "passed")]_vars
(* ... and a time that was replaced by a later deadline is no deadline: its going by changes nothing *)
C10_ReplacedDeadlineInert == [][dl = "rearmed" => dl' \in {"rearmed", "armed"}]_vars
C10_BothClosedAfterServe == sv.phase = "done" => outClosed /\ inClosed
C10_ReadsRefused ==
  \A p \in Procs : \A i \in 1..Len(rets[p]) :
     rets[p][i].k = "rx" /\ sv.phase = "done" => TRUE

(* C05: the wire writes of one call are adjacent: between two writes of the same call *)
(* there is no write of anybody else.  Calls are delimited by the lock, so: whenever  *)
(* somebody holds the lock with k writes done, the last k wire entries are his.       *)
C05_Contiguous ==
  \A p \in Procs : cur[p].st = "holding" /\ cur[p].wrote > 0 /\ cur[p].k \in TxKinds =>
     /\ Len(wire) >= cur[p].wrote
     /\ \A i \in (Len(wire) - cur[p].wrote + 1)..Len(wire) : wire[i].p = p /\ wire[i].what = "elem"
C05_WritesUnderLock == [][\A p \in Procs : Len(wire') > Len(wire) => lock = wire'[Len(wire')].p]_vars
(* one element per successful call: #nil tx returns of p + (1 if p is mid-element)    *)
(* equals the number of maximal runs of p's elem writes - checked on the trace by the *)
(* driver's wire parse (event wire_parsed); on the model: no elem write without call. *)
C05_NoStrayWrites ==
  \A i \in 1..Len(wire) : wire[i].what = "elem" =>
     \/ \E j \in 1..Len(rets[wire[i].p]) : rets[wire[i].p][j].k \in TxKinds /\ rets[wire[i].p][j].class = "nil"
     \/ cur[wire[i].p].k \in TxKinds
     \/ broken /\ \E j \in 1..Len(rets[wire[i].p]) : rets[wire[i].p][j] = [k |-> "txc", class |-> "other"]

(* liveness (FairSpec, no deviations): every program finishes, Serve returns *)
Terminates == <>(\A p \in Procs : prog[p] = <<>> /\ cur[p] = NoCall)

View == <<prog, cur, lock, outClosed, inClosed, wire, rets, peer, avail, failArmed, dl, broken, sv>>
=============================================================================
