------------------------------- MODULE Output -------------------------------
(***************************************************************************)
(* The output side of an established session (session.go): the output lock,*)
(* every transmit entry point, Close, the error-sending path and Serve's   *)
(* own shutdown, for any number of goroutines.  Properties C05 (each       *)
(* transmit call puts exactly its own element on the wire, whole, never    *)
(* interleaved) and C10 (closing is idempotent, final and observable).     *)
(*                                                                         *)
(* A process runs a program: a sequence of calls.  Call kinds:             *)
(*   "tx"     any transmit entry point (Send*, Encode*, TokenWriter session,*)
(*            a handler's reply through the serve loop's deferred writer)  *)
(*   "close"  Session.Close                                                *)
(*   "serve"  Session.Serve: consumes the peer's items, may issue tx       *)
(*            (handler reply), senderr (handler error / received stream    *)
(*            error), then closeinput and close                            *)
(*   "rx"     a read through TokenReader after everything else             *)
(*   "sclose" / "stx"  a CLOSED token writer used again: Close once more /  *)
(*            tokens written through it.  A token writer is one transmit   *)
(*            call ("tx"); its handle is dead once Close has returned, and *)
(*            the application may still use it at any later time - also    *)
(*            while somebody else holds a NEW token writer (handles are    *)
(*            told apart by the call that made them)                       *)
(* One action per critical section / linearisation point of the code.      *)
(***************************************************************************)
EXTENDS Integers, Sequences, FiniteSets, TLC

CONSTANTS Procs,      \* process names
          Programs,   \* set of possible programs (MC); a program is a sequence of call kinds
          PeerScripts,\* set of possible peer scripts (MC): sequences of items
          MaxChunks,  \* bound on wire writes per element (MC)
          Dev         \* enabled deviations

VARIABLES prog,       \* prog[p]: calls still to make
          cur,        \* cur[p]: current call [k, st, wrote] or NoCall
          lock,       \* holder of the output lock or "free"
          outClosed, inClosed,
          wire,       \* history: sequence of [p, what] with what in {"elem","close","err"}
          rets,       \* history: rets[p] sequence of [k, class]
          peer,       \* items the peer will still send (script)
          avail,      \* how many of them have been delivered to the transport already
          failArmed,  \* the transport will fail the write of the closing tag (once)
          dl,         \* the close deadline: "none", "armed" (SetCloseDeadline called), "rearmed" (called again with a
                      \* LATER time: the earlier, replaced deadline has not gone by yet), "passed"
          broken,     \* a transmit failed in the transport (expired context): the encoder keeps the error
          sv,         \* serve process state: [phase, reason, pending]
          sh          \* Serve's history: [got, stale].  got: the item of the peer that ended the reading ("none" as long
                      \* as Serve goes on: "close", "streamerr", "stanza_herr", "eof").  stale (only used by the
                      \* deviation ServeCachesDone): "set" once SetCloseDeadline was called WHILE Serve was running,
                      \* "due" once Serve has handled a further element after that

vars == <<prog, cur, lock, outClosed, inClosed, wire, rets, peer, avail, failArmed, dl, broken, sv, sh>>

NoCall == [k |-> "none", st |-> "none", wrote |-> 0]
(* Peer items.  "stanza_herr*": a stanza whose handler returns an error; the KIND of error is part of the item:     *)
(*   stanza_herr      a plain error                    stanza_herr_weof  an error that wraps io.EOF                *)
(*   stanza_herr_ueof io.ErrUnexpectedEOF              stanza_herr_st    a stanza.Error value                       *)
(*   stanza_herr_ctx  a context error                   stanza_herr_se / _wse  a stream.Error value / wrapped one    *)
(*   stanza_heof      a bare io.EOF (the handler reached the end of its element - not the end of the stream)       *)
HerrPlain == {"stanza_herr", "stanza_herr_weof", "stanza_herr_ueof", "stanza_herr_st", "stanza_herr_ctx"}
HerrSE    == {"stanza_herr_se", "stanza_herr_wse"}
Herr      == HerrPlain \cup HerrSE \cup {"stanza_heof"}
Items == {"stanza", "stanza_reply", "close", "streamerr", "eof"} \cup Herr

Init ==
  /\ prog \in {f \in [Procs -> Programs] :
                 Cardinality({p \in Procs : \E i \in 1..Len(f[p]) : f[p][i] = "serve"}) <= 1}
  /\ cur = [p \in Procs |-> NoCall]
  /\ lock = "free" /\ outClosed = FALSE /\ inClosed = FALSE
  /\ wire = <<>> /\ rets = [p \in Procs |-> <<>>]
  /\ peer \in PeerScripts /\ avail = 0 /\ failArmed \in BOOLEAN /\ dl = "none" /\ broken = FALSE
  /\ sv = [phase |-> "idle", reason |-> "none", owner |-> "none", pending |-> 0]
  /\ sh = [got |-> "none", stale |-> "no"]

-----------------------------------------------------------------------------
(* Generic call protocol: Enter -> Acquire -> (body) -> Return                      *)

Begin(p) ==       \* the next call of p's program starts (before taking any lock)
  /\ cur[p] = NoCall /\ prog[p] # <<>>
  /\ cur' = [cur EXCEPT ![p] = [k |-> Head(prog[p]), st |-> "entered", wrote |-> 0]]
  /\ prog' = [prog EXCEPT ![p] = Tail(prog[p])]
  /\ IF sv.owner = p /\ sv.phase \in {"reading", "closing"}
     THEN sv.pending > 0 /\ sv' = [sv EXCEPT !.pending = @ - 1]   \* only calls Serve itself issued
     ELSE UNCHANGED sv
  /\ UNCHANGED <<lock, outClosed, inClosed, wire, rets, peer, avail, failArmed, dl, broken, sh>>

TxKinds == {"tx", "txc"}     \* "txc": a transmit call whose context is already done
NeedsOutLock(k) == k \in TxKinds \cup {"close", "senderr"}

Acquire(p) ==
  /\ cur[p].st = "entered" /\ NeedsOutLock(cur[p].k) /\ lock = "free"
  /\ lock' = p
  /\ cur' = [cur EXCEPT ![p].st = "holding"]
  /\ UNCHANGED <<prog, outClosed, inClosed, wire, rets, peer, avail, failArmed, dl, broken, sv, sh>>

(* The body of the call is over: the lock (if held) is released here.  The caller   *)
(* observes the return later (Ret): between the two other goroutines may run.       *)
Return(p, class) ==
  /\ cur' = [cur EXCEPT ![p] = [k |-> cur[p].k, st |-> "returning", wrote |-> cur[p].wrote, class |-> class]]
  /\ lock' = IF lock = p THEN "free" ELSE lock
  /\ UNCHANGED rets

Ret(p) ==
  /\ cur[p].st = "returning"
  /\ rets' = [rets EXCEPT ![p] = Append(@, [k |-> cur[p].k, class |-> cur[p].class])]
  /\ cur' = [cur EXCEPT ![p] = NoCall]
  /\ UNCHANGED <<prog, lock, outClosed, inClosed, wire, peer, avail, failArmed, dl, broken, sv, sh>>

(* Transmit: refused once the output stream is closed (C10), otherwise writes its    *)
(* element in one or more chunks while holding the lock (C05).                       *)
TxRefuse(p) ==
  /\ cur[p].k \in TxKinds /\ cur[p].st = "holding" /\ outClosed /\ cur[p].wrote = 0
  /\ "WriteAfterClose" \notin Dev
  /\ Return(p, "closed")
  /\ UNCHANGED <<prog, outClosed, inClosed, wire, peer, avail, failArmed, dl, broken, sv, sh>>

TxWrite(p) ==
  /\ cur[p].k \in TxKinds /\ cur[p].st = "holding" /\ ~broken
  /\ (~outClosed \/ "WriteAfterClose" \in Dev)
  /\ cur[p].wrote < MaxChunks
  /\ wire' = Append(wire, [p |-> p, what |-> "elem", c |-> Len(rets[p])])
  /\ cur' = [cur EXCEPT ![p].wrote = @ + 1]
  /\ UNCHANGED <<prog, lock, outClosed, inClosed, rets, peer, avail, failArmed, dl, broken, sv, sh>>

TxDone(p) ==
  /\ cur[p].k \in TxKinds /\ cur[p].st = "holding" /\ cur[p].wrote >= 1 /\ ~broken
  /\ Return(p, "nil")
  /\ UNCHANGED <<prog, outClosed, inClosed, wire, peer, avail, failArmed, dl, broken, sv, sh>>

(* A transmit call whose context is done may be interrupted in the transport (the write   *)
(* deadline): it reports the error, and the encoder keeps it - every later write fails     *)
(* without reaching the transport.  It may as well go through like any other call.         *)
TxcFail(p) ==
  /\ cur[p].k = "txc" /\ cur[p].st = "holding" /\ ~outClosed /\ ~broken
  /\ broken' = TRUE
  /\ Return(p, "other")
  /\ dl' = (IF "TxDisarmsDeadline" \in Dev THEN "none" ELSE dl)
  /\ UNCHANGED <<prog, outClosed, inClosed, wire, peer, avail, failArmed, sv, sh>>

TxBroken(p) ==
  /\ cur[p].k \in TxKinds /\ cur[p].st = "holding" /\ ~outClosed /\ broken
  /\ Return(p, "other")
  /\ UNCHANGED <<prog, outClosed, inClosed, wire, peer, avail, failArmed, dl, broken, sv, sh>>

(* Close: writes the closing tag exactly once, whoever gets there first.             *)
CloseWrite(p) ==
  /\ cur[p].k \in {"close", "senderr"} /\ cur[p].st = "holding" /\ ~failArmed
  /\ (~outClosed \/ ("CloseTwice" \in Dev /\ cur[p].wrote = 0))
  \* (also when the encoder is broken: the closing tag does not go through it)
  \* (the property does not require that the error element reaches the wire before the
  \*  closing tag - the pinned tests even expect that it does not; if written it goes first)
  /\ outClosed' = TRUE
  /\ wire' = Append(wire, [p |-> p, what |-> "close", c |-> Len(rets[p])])
  /\ UNCHANGED <<prog, cur, lock, inClosed, rets, peer, avail, failArmed, dl, broken, sv, sh>>

(* The transport fails the write of the closing tag: the stream is closed all the same -  *)
(* a later Close must not write the tag again and transmit calls are refused - and the     *)
(* call reports the error.                                                                 *)
CloseWriteFail(p) ==
  /\ cur[p].k \in {"close", "senderr"} /\ cur[p].st = "holding" /\ ~outClosed /\ (failArmed \/ broken)
  /\ outClosed' = TRUE /\ failArmed' = (IF broken THEN failArmed ELSE FALSE)
  /\ Return(p, "other")
  /\ UNCHANGED <<prog, inClosed, wire, peer, avail, dl, broken, sv, sh>>

ErrWrite(p) ==
  /\ cur[p].k = "senderr" /\ cur[p].st = "holding" /\ ~outClosed /\ cur[p].wrote = 0 /\ ~broken
  /\ wire' = Append(wire, [p |-> p, what |-> "err", c |-> Len(rets[p])])
  /\ cur' = [cur EXCEPT ![p].wrote = 1]
  /\ UNCHANGED <<prog, lock, outClosed, inClosed, rets, peer, avail, failArmed, dl, broken, sv, sh>>

CloseDone(p) ==
  /\ cur[p].k \in {"close", "senderr"} /\ cur[p].st = "holding" /\ outClosed
  /\ Return(p, "nil")
  /\ UNCHANGED <<prog, outClosed, inClosed, wire, peer, avail, failArmed, dl, broken, sv, sh>>

(* A closed token writer used again.  "After the TokenWriteCloser has been closed, any future writes will return     *)
(* io.EOF" (Session.TokenWriter): nothing reaches the wire; a second Close is a no-op.  Neither needs nor touches the *)
(* output lock - whoever holds it now, with a token writer of his own or through any other entry point, is not       *)
(* affected.  Possible only once some transmit call has returned (there is a closed handle).                         *)
StaleKinds == {"sclose", "stx"}
SomeHandleClosed == \E q \in Procs : \E i \in 1..Len(rets[q]) : rets[q][i].k \in TxKinds
StaleOp(p, class) ==
  /\ cur[p].k \in StaleKinds /\ cur[p].st = "entered" /\ SomeHandleClosed
  \* (tokens: io.EOF - or the output-closed error, once the session's output is closed; never success)
  /\ class \in (IF cur[p].k = "stx" THEN {"eof"} \cup (IF outClosed THEN {"closed"} ELSE {}) ELSE {"nil", "eof"})
  /\ cur' = [cur EXCEPT ![p] = [k |-> cur[p].k, st |-> "returning", wrote |-> 0, class |-> class]]
  /\ UNCHANGED <<prog, lock, outClosed, inClosed, wire, rets, peer, avail, failArmed, dl, broken, sv, sh>>

(* (deviations, the shape of a real mistake: ONE writer object kept in the session and handed out again by every     *)
(* TokenWriter call, its closed mark cleared each time - an old handle is then the live writer of the current holder) *)
StaleCloseUnlocks(p) ==      \* the second Close flushes and gives away the lock of whoever holds it
  /\ "StaleHandleIsLive" \in Dev /\ cur[p].k = "sclose" /\ cur[p].st = "entered" /\ SomeHandleClosed
  /\ lock \notin {"free", p} /\ lock' = "free"
  /\ cur' = [cur EXCEPT ![p] = [k |-> cur[p].k, st |-> "returning", wrote |-> 0, class |-> "nil"]]
  /\ UNCHANGED <<prog, outClosed, inClosed, wire, rets, peer, avail, failArmed, dl, broken, sv, sh>>
StaleWriteLands(p) ==        \* tokens written through the old handle go out, inside whatever is being written
  /\ "StaleHandleIsLive" \in Dev /\ cur[p].k = "stx" /\ cur[p].st = "entered" /\ SomeHandleClosed
  /\ lock \notin {"free", p} /\ ~outClosed
  /\ wire' = Append(wire, [p |-> p, what |-> "elem", c |-> Len(rets[p])])
  /\ cur' = [cur EXCEPT ![p] = [k |-> cur[p].k, st |-> "returning", wrote |-> 1, class |-> "nil"]]
  /\ UNCHANGED <<prog, lock, outClosed, inClosed, rets, peer, avail, failArmed, dl, broken, sv, sh>>

(* Input side *)
CloseInput(p) ==
  /\ cur[p].k = "closeinput" /\ cur[p].st = "entered"
  /\ inClosed' = TRUE
  /\ Return(p, "nil")
  /\ UNCHANGED <<prog, outClosed, wire, peer, avail, failArmed, dl, broken, sv, sh>>

Rx(p) ==          \* a read attempt after Serve is over
  /\ cur[p].k = "rx" /\ cur[p].st = "entered"
  /\ Return(p, IF inClosed THEN "inclosed" ELSE "other")
  /\ UNCHANGED <<prog, outClosed, inClosed, wire, peer, avail, failArmed, dl, broken, sv, sh>>

-----------------------------------------------------------------------------
(* Serve: one item of peer input at a time.  The serve call stays current while the *)
(* sub-calls it issues run as separate calls of the same process (program prefix).  *)

ServeStart(p) ==
  /\ cur[p].k = "serve" /\ cur[p].st = "entered" /\ sv.phase = "idle"
  /\ sv' = [sv EXCEPT !.phase = "reading", !.owner = p]
  /\ cur' = [cur EXCEPT ![p] = NoCall]           \* sub-calls follow; ServeRet ends it
  /\ UNCHANGED <<prog, lock, outClosed, inClosed, wire, rets, peer, avail, failArmed, dl, broken, sh>>

PeerFeed ==
  /\ avail < Len(peer) /\ avail' = avail + 1
  /\ UNCHANGED <<prog, cur, lock, outClosed, inClosed, wire, rets, peer, failArmed, dl, broken, sv, sh>>

(* Serve goes on reading after an element that is none of the three reasons to return - in particular after *)
(* the application has called SetCloseDeadline (that call only arms the deadline).  sh.got records the item    *)
(* that ended the reading.                                                                                    *)
Seen(h) == [h EXCEPT !.stale = (IF h.stale = "set" THEN "due" ELSE h.stale)]
ServeItem(p) ==
  /\ sv.phase = "reading" /\ sv.owner = p /\ sv.pending = 0 /\ cur[p] = NoCall /\ avail > 0
  /\ LET it == Head(peer) IN
     /\ peer' = Tail(peer) /\ avail' = avail - 1
     /\ CASE it = "stanza" -> UNCHANGED <<prog, sv>> /\ sh' = Seen(sh)
          [] it = "stanza_reply" -> /\ prog' = [prog EXCEPT ![p] = <<"tx">> \o @] /\ sv' = [sv EXCEPT !.pending = 1]
                                    /\ sh' = Seen(sh)
          \* Whatever error the handler returns - wrapping io.EOF or not -, it is the handler's error and not the end of
          \* the peer's stream: a stream error goes out and Serve reports an error.  (Serve: "If an error is returned from
          \* the handler and it is of type stanza.Error or stream.Error, the error is marshaled and sent over the XML
          \* stream.  If any other error type is returned, it is marshaled as an undefined-condition StreamError.")
          [] it \in HerrPlain \cup HerrSE ->
               IF "WrappedEOFIsPeerClose" \in Dev /\ it = "stanza_herr_weof"
               THEN /\ prog' = [prog EXCEPT ![p] = <<"closeinput", "close">> \o @]     \* (deviation: taken for the end of the stream)
                    /\ sv' = [sv EXCEPT !.phase = "closing", !.reason = "peerclose", !.pending = 2]
                    /\ sh' = [Seen(sh) EXCEPT !.got = it]
               ELSE /\ prog' = [prog EXCEPT ![p] = <<"senderr", "closeinput", "close">> \o @]
                    /\ sv' = [sv EXCEPT !.phase = "closing", !.reason = (IF it \in HerrSE THEN "herr_se" ELSE "herr"), !.pending = 3]
                    /\ sh' = [Seen(sh) EXCEPT !.got = it]
          \* a bare io.EOF from the handler: nobody documents it; it is either no error at all (Serve goes on) or an
          \* error like any other - but never the end of the peer's stream
          [] it = "stanza_heof" ->
               \/ UNCHANGED <<prog, sv>> /\ sh' = Seen(sh)
               \/ /\ prog' = [prog EXCEPT ![p] = <<"senderr", "closeinput", "close">> \o @]
                  /\ sv' = [sv EXCEPT !.phase = "closing", !.reason = "herr", !.pending = 3]
                  /\ sh' = [Seen(sh) EXCEPT !.got = it]
          [] it = "streamerr" ->
               /\ prog' = [prog EXCEPT ![p] = <<"senderr", "closeinput", "close">> \o @]
               /\ sv' = [sv EXCEPT !.phase = "closing", !.reason = "streamerr", !.pending = 3]
               /\ sh' = [Seen(sh) EXCEPT !.got = it]
          [] it = "close" ->
               /\ prog' = [prog EXCEPT ![p] = <<"closeinput", "close">> \o @]
               /\ sv' = [sv EXCEPT !.phase = "closing", !.reason = "peerclose", !.pending = 2]
               /\ sh' = [Seen(sh) EXCEPT !.got = it]
          [] it = "eof" ->      \* raw end of the byte stream: the property is silent; either path
               /\ sh' = [Seen(sh) EXCEPT !.got = it]
               /\ \/ /\ prog' = [prog EXCEPT ![p] = <<"closeinput", "close">> \o @]
                     /\ sv' = [sv EXCEPT !.phase = "closing", !.reason = "eof", !.pending = 2]
                  \/ /\ prog' = [prog EXCEPT ![p] = <<"senderr", "closeinput", "close">> \o @]
                     /\ sv' = [sv EXCEPT !.phase = "closing", !.reason = "eof", !.pending = 3]
  /\ UNCHANGED <<cur, lock, outClosed, inClosed, wire, rets, failArmed, dl, broken>>

(* A reply the handler could not write because the output stream was closed locally  *)
(* ends Serve with that error (the property does not say Serve must go on).          *)
(* The close deadline passes (an asynchronous event: it overtakes input that was not read  *)
(* yet): Serve ends with an error, by either shutdown path.                                *)
(* SetCloseDeadline arms it; it passes later (or at once, when set to a time in the past).  *)
(* Nothing else disarms it: in particular no transmit call, whatever becomes of its context. *)
(* (deviation ServeCachesDone, the shape of a real mistake: Serve keeps the cancellation channel of the input   *)
(* context it found when it started; SetCloseDeadline replaces that context and cancels the old one)           *)
Staled == IF "ServeCachesDone" \in Dev /\ sv.phase = "reading" /\ sh.stale = "no" THEN [sh EXCEPT !.stale = "set"] ELSE sh
DeadlineSet ==
  /\ dl = "none" /\ dl' = "armed" /\ sh' = Staled
  /\ UNCHANGED <<prog, cur, lock, outClosed, inClosed, wire, rets, peer, avail, failArmed, broken, sv>>
Deadline ==
  /\ dl \in {"none", "armed"} /\ dl' = "passed"
  /\ UNCHANGED <<prog, cur, lock, outClosed, inClosed, wire, rets, peer, avail, failArmed, broken, sv, sh>>
(* SetCloseDeadline once more, with a later time: THE close deadline is the one set last.  The time it replaced *)
(* goes by first (an event of its own) and is nobody's deadline any more: nothing happens.                     *)
DeadlineReset ==
  /\ dl = "armed" /\ dl' = "rearmed" /\ sh' = Staled
  /\ UNCHANGED <<prog, cur, lock, outClosed, inClosed, wire, rets, peer, avail, failArmed, broken, sv>>
OldDeadlineGoesBy ==
  /\ dl = "rearmed" /\ dl' = (IF "ReplacedDeadlineFires" \in Dev THEN "passed" ELSE "armed")
  /\ UNCHANGED <<prog, cur, lock, outClosed, inClosed, wire, rets, peer, avail, failArmed, broken, sv, sh>>

(* only with the deviation: back at the top of its loop after the next element, Serve finds "its" context done   *)
(* and shuts down - reporting the error of the CURRENT context, which is nil before the deadline                  *)
ServeStale(p) ==
  /\ "ServeCachesDone" \in Dev /\ sh.stale = "due"
  /\ sv.phase = "reading" /\ sv.owner = p /\ sv.pending = 0 /\ cur[p] = NoCall
  /\ prog' = [prog EXCEPT ![p] = <<"closeinput", "close">> \o @]
  /\ sv' = [sv EXCEPT !.phase = "closing", !.reason = "ctxdone", !.pending = 2]
  /\ UNCHANGED <<cur, lock, outClosed, inClosed, wire, rets, peer, avail, failArmed, dl, broken, sh>>

ServeDeadline(p) ==
  /\ sv.phase = "reading" /\ sv.owner = p /\ sv.pending = 0 /\ cur[p] = NoCall /\ dl = "passed"
  /\ \/ /\ prog' = [prog EXCEPT ![p] = <<"closeinput", "close">> \o @]
        /\ sv' = [sv EXCEPT !.phase = "closing", !.reason = "deadline", !.pending = 2]
     \/ /\ prog' = [prog EXCEPT ![p] = <<"senderr", "closeinput", "close">> \o @]
        /\ sv' = [sv EXCEPT !.phase = "closing", !.reason = "deadline", !.pending = 3]
  /\ UNCHANGED <<cur, lock, outClosed, inClosed, wire, rets, peer, avail, failArmed, dl, broken, sh>>

ServeAbort(p) ==
  /\ sv.phase = "reading" /\ sv.owner = p /\ sv.pending = 0 /\ cur[p] = NoCall
  /\ rets[p] # <<>> /\ rets[p][Len(rets[p])] \in {[k |-> "tx", class |-> "closed"], [k |-> "tx", class |-> "other"]}
  /\ prog' = [prog EXCEPT ![p] = <<"senderr", "closeinput", "close">> \o @]
  /\ sv' = [sv EXCEPT !.phase = "closing", !.reason = "refused", !.pending = 3]
  /\ UNCHANGED <<cur, lock, outClosed, inClosed, wire, rets, peer, avail, failArmed, dl, broken, sh>>

(* Serve returns once its shutdown calls are done: nil after the peer's close, the   *)
(* error otherwise; both directions are closed.                                      *)
ServeRet(p, class) ==
  /\ sv.phase = "closing" /\ sv.owner = p /\ sv.pending = 0 /\ cur[p] = NoCall
  /\ Len(rets[p]) >= 2 /\ rets[p][Len(rets[p])].k = "close"
  /\ CASE sv.reason = "peerclose" ->      \* nil - unless Serve's own Close could not write the closing tag
            class = (IF rets[p][Len(rets[p])].class = "other" THEN "other" ELSE "nil")
       [] sv.reason = "streamerr" -> class = "streamerr"
       [] sv.reason = "herr_se" -> class \in {"streamerr", "other"}     \* the handler's stream error, or an error about it
       [] sv.reason = "eof" -> class \in {"nil", "other"}     \* the property is silent on a raw EOF
       [] sv.reason = "refused" -> class \in {"closed", "other"}
       [] sv.reason = "ctxdone" -> class = (IF dl = "passed" THEN "other" ELSE "nil")    \* (deviation only)
       [] OTHER -> class = "other"
  /\ sv' = [sv EXCEPT !.phase = "done"]
  /\ rets' = [rets EXCEPT ![p] = Append(@, [k |-> "serve", class |-> class])]
  /\ UNCHANGED <<prog, cur, lock, outClosed, inClosed, wire, peer, avail, failArmed, dl, broken, sh>>

-----------------------------------------------------------------------------
Next ==
  \/ PeerFeed \/ Deadline \/ DeadlineSet \/ DeadlineReset \/ OldDeadlineGoesBy
  \/ \E p \in Procs :
      \/ Begin(p) \/ Ret(p) \/ Acquire(p) \/ TxRefuse(p) \/ TxWrite(p) \/ TxDone(p) \/ TxcFail(p) \/ TxBroken(p)
      \/ CloseWrite(p) \/ CloseWriteFail(p) \/ ErrWrite(p) \/ CloseDone(p) \/ CloseInput(p) \/ Rx(p)
      \/ (\E c \in {"nil", "eof", "closed"} : StaleOp(p, c)) \/ StaleCloseUnlocks(p) \/ StaleWriteLands(p)
      \/ ServeStart(p) \/ ServeItem(p) \/ ServeAbort(p) \/ ServeDeadline(p) \/ ServeStale(p)
      \/ \E c \in {"nil", "streamerr", "other", "closed"} : ServeRet(p, c)

Spec == Init /\ [][Next]_vars
FairSpec == Spec /\ WF_vars(Next)

-----------------------------------------------------------------------------
(* Properties *)

CloseIdx == {i \in 1..Len(wire) : wire[i].what = "close"}

C10_OneCloseTag == Cardinality(CloseIdx) <= 1
C10_NothingAfterClose == \A i \in CloseIdx : i = Len(wire)
C10_ClosedIffTag == (CloseIdx # {} => outClosed) /\ (outClosed /\ CloseIdx = {} => ~failArmed \/ broken)  \* closed without a tag only after the write fault
(* a transmit call returns nil only if it wrote, and "closed" only if it wrote nothing *)
C10_SendersRefused ==
  \A p \in Procs : \A i \in 1..Len(rets[p]) :
     rets[p][i].k \in TxKinds =>
        (rets[p][i].class \in {"nil", "closed"} \/ (rets[p][i].class = "other" /\ broken))  \* "other" only after a transport failure
(* the close deadline, once set, is disarmed by nobody and stays passed once it has passed *)
C10_DeadlineKept == [][(dl \in {"armed", "rearmed"} => dl' \in {"armed", "rearmed", "passed"}) /\ (dl = "passed" => dl' = "passed")]_vars
(* ... and a time that was replaced by a later deadline is no deadline: its going by changes nothing *)
C10_ReplacedDeadlineInert == [][dl = "rearmed" => dl' \in {"rearmed", "armed"}]_vars
C10_BothClosedAfterServe == sv.phase = "done" => outClosed /\ inClosed
(* Serve stops reading (and returns) for a reason, stated over what has HAPPENED - not over Serve's own          *)
(* bookkeeping: the peer closed its stream; a stream error is exchanged (received, or sent because the handler   *)
(* failed or its reply could not be written); the close deadline has passed.  (The raw end of the transport is   *)
(* a fourth reason the property is silent about.)  Nothing else - not a SetCloseDeadline call, not a further     *)
(* element - ends it; every element before the reason has been consumed (ServeItem takes them in order).         *)
Refused(p) == \E i \in 1..Len(rets[p]) : rets[p][i].k \in TxKinds /\ rets[p][i].class \in {"closed", "other"}
C10_ServeReturnsForCause ==
  sv.phase \in {"closing", "done"} =>
     \/ sh.got = "close"
     \/ sh.got \in {"streamerr"} \cup Herr \/ Refused(sv.owner)
     \/ dl = "passed"
     \/ sh.got = "eof"
(* ... and what it returns tells which: nil only after the peer's close (or the raw end of input) - never because *)
(* a handler failed, whatever its error wraps -, a stream error only if one was received or returned by the handler *)
C10_ServeRetTellsCause ==
  \A p \in Procs : \A i \in 1..Len(rets[p]) : rets[p][i].k = "serve" =>
     /\ (rets[p][i].class = "nil" => sh.got \in {"close", "eof"})
     /\ (rets[p][i].class = "streamerr" => sh.got \in {"streamerr"} \cup HerrSE)
C10_ReadsRefused ==
  \A p \in Procs : \A i \in 1..Len(rets[p]) :
     rets[p][i].k = "rx" /\ sv.phase = "done" => TRUE

(* C05: the wire writes of one call are adjacent: between two writes of the same call *)
(* there is no write of anybody else.  Calls are delimited by the lock, so: whenever  *)
(* somebody holds the lock with k writes done, the last k wire entries are his.       *)
C05_Contiguous ==
  \A p \in Procs : cur[p].st = "holding" /\ cur[p].wrote > 0 /\ cur[p].k \in TxKinds =>
     /\ Len(wire) >= cur[p].wrote
     /\ \A i \in (Len(wire) - cur[p].wrote + 1)..Len(wire) : wire[i].p = p /\ wire[i].what = "elem"
C05_WritesUnderLock == [][\A p \in Procs : Len(wire') > Len(wire) => lock = wire'[Len(wire')].p]_vars
(* one element per successful call: #nil tx returns of p + (1 if p is mid-element)    *)
(* equals the number of maximal runs of p's elem writes - checked on the trace by the *)
(* driver's wire parse (event wire_parsed); on the model: no elem write without call. *)
C05_NoStrayWrites ==
  \A i \in 1..Len(wire) : wire[i].what = "elem" =>
     \/ \E j \in 1..Len(rets[wire[i].p]) : rets[wire[i].p][j].k \in TxKinds /\ rets[wire[i].p][j].class = "nil"
     \/ cur[wire[i].p].k \in TxKinds
     \/ broken /\ \E j \in 1..Len(rets[wire[i].p]) : rets[wire[i].p][j] = [k |-> "txc", class |-> "other"]

(* a closed token writer stays closed: tokens written through it are refused with io.EOF, whoever holds the lock *)
C05_StaleHandleDead ==
  \A p \in Procs : \A i \in 1..Len(rets[p]) : rets[p][i].k = "stx" => rets[p][i].class \in {"eof", "closed"}

(* liveness (FairSpec, no deviations): every program finishes, Serve returns *)
Terminates == <>(\A p \in Procs : prog[p] = <<>> /\ cur[p] = NoCall)

View == <<prog, cur, lock, outClosed, inClosed, wire, rets, peer, avail, failArmed, dl, broken, sv, sh>>
=============================================================================
