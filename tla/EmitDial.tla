------------------------------ MODULE EmitDial ------------------------------
(* Pipeline B of the "dial" family: writes the quick tier's scenario universe (MCDialQuick)  *)
(* as JSON lines, one file per part, for harness/cmd/dial.                                    *)
EXTENDS MCDialQuick, Json, SequencesExt
ASSUME \A i \in DOMAIN PartsQuick : ndJsonSerialize("dial_scen_" \o ToString(i) \o ".ndjson", SetToSeq(PartsQuick[i]))
=============================================================================
