-------------------------------- MODULE Push --------------------------------
(***************************************************************************)
(* Family "push" (growth beyond C01-C20, check XPUSH): what a served       *)
(* session does with UNSOLICITED stanzas - roster pushes (RFC 6121 2.1.6), *)
(* message carbons (XEP-0280), blocking commands / pushes (XEP-0191) - and *)
(* the small request/response services registered in a mux (ping XEP-0199, *)
(* version XEP-0092, time XEP-0202, disco#info / disco#items XEP-0030), and*)
(* the client-side helpers of the same packages.                           *)
(*                                                                         *)
(* Two layers.  OBSERVER: the variables cbs / reps / reqs / ret record what*)
(* the application and the peer can see of the handling of the CURRENT     *)
(* stanza k of the script (callbacks with their fields, stanzas written in *)
(* reply, the request a helper wrote and what it returned); the properties *)
(* P_* are state predicates over them.  MECHANISM: the reference algorithm,*)
(* one action per step of the real code path (serve loop delivers -> mux   *)
(* routes by stanza type and payload name -> the handler authorises the    *)
(* sender -> decodes -> calls back per item -> replies -> the serve loop   *)
(* adds <service-unavailable/> if an IQ request got no reply), with        *)
(* nondeterminism where no document says what has to happen (malformed     *)
(* payloads).  Named deviations (Dev) each break one property; TrPush.tla  *)
(* validates recorded runs of the real code against the observer layer.    *)
(*                                                                         *)
(* Account: own full JID OwnFull, own bare JID OwnBare, server Server.     *)
(* "From the account" = no from attribute or from = OwnBare (RFC 6120      *)
(* 8.1.2.1: a stanza without from is from the account; the serve loop      *)
(* blanks from = OwnBare).  RFC 6121 2.1.6: a client MUST ignore a roster  *)
(* push unless it is from the account; it answers an unauthorised push with*)
(* <service-unavailable/> or not at all.  XEP-0280 11: carbon copies that  *)
(* are not from the user's bare JID MUST be ignored.                       *)
(***************************************************************************)
EXTENDS Integers, Sequences, FiniteSets, TLC

CONSTANTS Dev,        \* named deviations; {} = the property
          Scenarios   \* universe of the design check: set of [cfg, script]

None == "none"
OwnBare == "me@example.net"
OwnFull == "me@example.net/res"
Server == "example.net"
SenderAddr == [none |-> "", ownbare |-> OwnBare, ownfull |-> OwnFull, ownother |-> "me@example.net/other",
               server |-> Server, otheruser |-> "eve@example.net", otherfull |-> "eve@example.net/x",
               otherdomain |-> "evil.example.org"]
BadJid == "a@@b"
NSPing == "urn:xmpp:ping"
NSTime == "urn:xmpp:time"
NSVersion == "jabber:iq:version"
NSInfo == "http://jabber.org/protocol/disco#info"
NSItems == "http://jabber.org/protocol/disco#items"
NSCarbons == "urn:xmpp:carbons:2"
NSBlocking == "urn:xmpp:blocking"
NSRoster == "jabber:iq:roster"
NSExtra == "urn:x:extra"
NSBob == "urn:xmpp:bob"
KnownCid == "sha1+8f35fef110ffc5df08d579a50083ff9308fb6242@bob.xmpp.org"     \* the one cid the application's Get callback knows
BobData == <<KnownCid, "text/plain", "aGk=">>                                 \* what it returns for it: cid, type, content

(* Payload SHAPES.  Every request of the grammar is well-formed XML; `shape` says how far its payload is from *)
(* what the handler it is routed to expects.  "ok" (and the kind-specific shapes the documents show) is the   *)
(* request of the XEP; the others are requests the handler cannot decode, or can decode only in part:          *)
(*   kids     unexpected child elements inside the payload                                                    *)
(*   text     character data inside the payload                                                               *)
(*   own      children named like the content of the RESPONSE, with values that do not parse (wrong child      *)
(*            types, bad attribute values)                                                                    *)
(*   twice    the payload element twice (RFC 6120 8.2.3: exactly one child)                                   *)
(*   badage / badb64   bits of binary: max-age that is no number, content that is no base64                   *)
(*   grpkid   roster item whose <group/> has an element child                                                 *)
(* and, for the items of a block / unblock command, the shape of the abuse report (XEP-0377) inside the item: *)
(*   ""  none;  ok  reason + <stanza-id/> + <text/>;  badby  <stanza-id by/> that is no JID;  badby2  the     *)
(*   second of two <stanza-id/>s;  sidns  <stanza-id/> outside its namespace;  tworeports / twotext           *)
(*   duplicated children;  textkid  element inside <text/>;  foreign  an unknown child and character data     *)
(*   instead of a report;  noreason  report without the reason attribute                                      *)
ReqShapes == {"kids", "text", "own", "twice"}
MalformedShapes == ReqShapes \cup {"badage", "badb64", "grpkid", "unknown"}
ReportShapes == {"", "ok", "badby", "badby2", "sidns", "tworeports", "twotext", "textkid", "foreign", "noreason"}
ReportOK == "urn:xmpp:reporting:abuse|s1@room@muc.example.org|bad words"      \* summary of the well-formed report
RepSummary(sh) == IF sh = "ok" THEN ReportOK ELSE ""

VARIABLES
  cfg, script,        \* scenario: handler table / callbacks set, incoming stanzas and helper calls
  k, pc, eos,         \* current element, control state, the peer has ended the stream
  queue,              \* mechanism: callbacks still to make for the current stanza
  cbs, reps,          \* observer: callbacks made / stanzas written while handling element k
  reqs, ret           \* observer: requests a helper wrote, what it returned (sequences of at most one record)

vars == <<cfg, script, k, pc, eos, queue, cbs, reps, reqs, ret>>

S == script[k]

-----------------------------------------------------------------------------
(* the grammar of incoming stanzas (records [st, typ, snd, from, kind, shape, id, ver, items, dir, inner, node, to]) *)
IsMsg(s) == s.st = "message"
IsCall(s) == s.st = "call"
IsRequest(s) == s.st = "iq" /\ s.typ \in {"get", "set"}
FromAccount(s) == s.from \in {"", OwnBare}
ValidItem(it) == it.jid # BadJid /\ it.jid # "" /\ it.rep \in {"", "ok"}

(* which registered handler the multiplexer hands the stanza to (exact stanza type and payload name) *)
Route(s, c) ==
  IF IsCall(s) THEN None
  ELSE IF IsMsg(s) THEN (IF s.kind = "carbon" /\ c.carbons /\ s.typ \in {"chat", "normal"} THEN "carbon" ELSE None)
  ELSE IF ~IsRequest(s) THEN None
  ELSE CASE s.kind = "roster" /\ s.typ = "set" /\ c.roster # "off" -> "roster"
         [] s.kind \in {"block", "unblock"} /\ s.typ = "set" /\ c.block # "off" -> s.kind
         [] s.kind = "blocklist" /\ s.typ = "get" /\ c.block # "off" -> "blocklist"
         [] s.kind \in {"ping", "version", "time", "info", "items", "bob"} /\ s.typ = "get" /\ c.resp -> s.kind
         [] s.kind = "extra" /\ s.typ = "get" /\ c.extra -> "extra"
         [] OTHER -> None

(* well-formed for its kind: what RFC 6121 / XEP-0280 / XEP-0191 show; anything else is "malformed" and *)
(* no document says how it is to be treated beyond the authorisation rule                                 *)
WF(s) ==
  CASE s.kind = "roster" -> s.shape = "ok" /\ Len(s.items) = 1 /\ ValidItem(s.items[1])
    [] s.kind = "carbon" -> s.shape \in {"ok", "delay", "bodyfirst", "bodylast"}
    [] s.kind = "block" -> s.shape = "ok" /\ s.items # <<>> /\ \A i \in 1..Len(s.items) : ValidItem(s.items[i])   \* XEP-0191 3.3: no item = bad request
    [] s.kind = "unblock" -> s.shape = "ok" /\ \A i \in 1..Len(s.items) : ValidItem(s.items[i]) /\ s.items[i].rep = ""   \* no item = unblock everything
    [] OTHER -> s.shape \notin MalformedShapes

RosterCb(s, it) == [cb |-> "roster", ver |-> s.ver, jid |-> it.jid, name |-> it.name, sub |-> it.sub, groups |-> it.groups]
CarbonCb(s) == [cb |-> "carbon", sent |-> (s.dir = "sent"), id |-> s.inner.id, from |-> s.inner.from, to |-> s.inner.to,
                typ |-> s.inner.typ, body |-> s.inner.body, msgs |-> 1]
BlockCb(s, it) == [cb |-> s.kind, jid |-> it.jid, rep |-> IF s.kind = "block" THEN RepSummary(it.rep) ELSE ""]   \* Block is handed the report
(* the callbacks a stanza stands for, in order *)
CbsOf(s) ==
  CASE s.kind = "roster" -> [i \in 1..Len(s.items) |-> RosterCb(s, s.items[i])]
    [] s.kind = "carbon" -> <<CarbonCb(s)>>
    [] s.kind = "unblock" /\ s.items = <<>> -> <<[cb |-> "unblockall", jid |-> "", rep |-> ""]>>
    [] s.kind \in {"block", "unblock"} -> [i \in 1..Len(s.items) |-> BlockCb(s, s.items[i])]
    [] OTHER -> <<>>
CbKinds(s) ==
  CASE s.kind = "roster" -> {"roster"} [] s.kind = "carbon" -> {"carbon"} [] s.kind = "block" -> {"block"}
    [] s.kind = "unblock" -> {"unblock", "unblockall"} [] OTHER -> {}

(* a is a subsequence of b (short sequences) *)
IsSubSeq(a, b) ==
  /\ Len(a) <= Len(b)
  /\ \E f \in [1..Len(a) -> 1..Len(b)] :
       /\ \A i \in 1..Len(a) : a[i] = b[f[i]]
       /\ \A i, j \in 1..Len(a) : i < j => f[i] < f[j]

-----------------------------------------------------------------------------
(* replies: [st, typ, id, to, cond, pl, ns, node, a, b] - stanza name, type, id, to, error condition, payload *)
(* local name and namespace, node attribute, two lists of strings (payload summary)                            *)
Rep(s, typ, cond, pl, ns, node, a, b) ==
  [st |-> "iq", typ |-> typ, id |-> s.id, to |-> s.from, cond |-> cond, pl |-> pl, ns |-> ns, node |-> node, a |-> a, b |-> b]
Result(s) == Rep(s, "result", "", "", "", "", <<>>, <<>>)
ErrRep(s, cond) == Rep(s, "error", cond, "", "", "", <<>>, <<>>)
ErrSU(r) == r.typ = "error" /\ r.cond = "service-unavailable"

(* the JIDs the application's List callback reports *)
ListOf(n) == CASE n = 0 -> <<>> [] n = 1 -> <<"spam@example.org">> [] OTHER -> <<"spam@example.org", "bad.example.com">>
ListJids(c) == IF c.block # "all" THEN <<>> ELSE ListOf(c.list)

Features(c, node) ==
  IF node = ""
  THEN (IF c.resp THEN {NSPing, NSTime, NSInfo, NSBob, "urn:xmpp:bookmarks:1", "urn:xmpp:bookmarks:1+notify"} ELSE {})
       \cup (IF c.carbons THEN {NSCarbons} ELSE {})
       \cup (IF c.extra THEN {NSExtra, NSPing, "urn:x:static"} ELSE {})
  ELSE IF node = "n1" /\ c.extra THEN {"urn:x:n1"} ELSE {}
Idents(c, node) == IF node = "" /\ c.extra THEN {"client/bot/vt", "account/registered/"} ELSE {}
DiscoItems(c, node) == IF node = "" /\ c.extra THEN <<"example.net#n1#sub">> ELSE <<>>
FeatOrder == <<NSPing, NSTime, NSInfo, NSBob, NSExtra, NSCarbons, "urn:xmpp:bookmarks:1+notify", "urn:xmpp:bookmarks:1", "urn:x:static", "urn:x:n1">>
IdentOrder == <<"client/bot/vt", "account/registered/">>
VersionInfo == <<"vt", "0.9", "tla">>
FixedTime == <<"+02:00", "2020-01-02T03:04:05Z">>
SetOf(q) == {q[i] : i \in 1..Len(q)}
NoDup(q) == Cardinality(SetOf(q)) = Len(q)

(* is r an acceptable reply to request s under configuration c?  What a handler answers to a request it cannot *)
(* decode (~WF) is documented nowhere: a result, an error of any condition - but see P_AtMostOneReply,           *)
(* P_ExactlyOneReply, P_ReplyAddressed, which hold for EVERY request                                              *)
ReplyOK(s, c, r) ==
  LET h == Route(s, c) IN
  CASE h = None -> ErrSU(r)                  \* RFC 6120 8.4: payload not understood -> <service-unavailable/>
    [] h \in {"blocklist", "ping", "version", "time", "info", "items", "extra", "bob"} /\ ~WF(s) -> TRUE
    [] h = "roster" ->
         IF ~FromAccount(s) THEN ErrSU(r)    \* RFC 6121 2.1.6: error or silence, never an acknowledgement
         ELSE IF ~WF(s) \/ c.roster = "oerr" THEN TRUE
         ELSE IF c.roster = "ok" THEN r.typ = "result" /\ r.pl = ""
         ELSE r.typ = "error" /\ r.cond = "forbidden"    \* the stanza error the Push callback returned
    [] h \in {"block", "unblock"} -> (WF(s) => r.typ = "result" /\ r.pl = "")   \* XEP-0191 3.3 / 3.4: applied -> result
    [] h = "blocklist" -> r.typ = "result" /\ r.pl = "blocklist" /\ r.ns = NSBlocking /\ r.a = ListJids(c)
    [] h = "ping" -> r.typ = "result" /\ r.pl = ""
    [] h = "version" -> r.typ = "result" /\ r.pl = "query" /\ r.ns = NSVersion /\ r.a = VersionInfo
    [] h = "time" -> /\ r.typ = "result" /\ r.pl = "time" /\ r.ns = NSTime /\ Len(r.a) = 2
                     /\ (IF c.timefn THEN r.a = FixedTime ELSE r.a[1] # "" /\ r.a[2] # "")
    [] h = "info" -> /\ r.typ = "result" /\ r.pl = "query" /\ r.ns = NSInfo /\ r.node = s.node
                     /\ SetOf(r.a) = Features(c, s.node) /\ NoDup(r.a)
                     /\ SetOf(r.b) = Idents(c, s.node) /\ NoDup(r.b)
    [] h = "items" -> r.typ = "result" /\ r.pl = "query" /\ r.ns = NSItems /\ r.node = s.node /\ r.a = DiscoItems(c, s.node)
    [] h = "extra" -> r.typ = "result" /\ r.pl = "x" /\ r.ns = NSExtra
    [] h = "bob" -> IF s.node = KnownCid THEN r.typ = "result" /\ r.pl = "data" /\ r.ns = NSBob /\ r.a = BobData
                    ELSE r.typ = "error" /\ r.cond = "item-not-found"      \* the stanza error the Get callback returned
    [] OTHER -> FALSE

-----------------------------------------------------------------------------
(* client-side helpers: script element [st = "call", kind = helper, shape = what the responder answers, to, node, items] *)
WithContent == {"version", "time", "info"}
HelperReq(s) ==
  LET q(typ, pl, ns, node, a, b) == [st |-> "iq", typ |-> typ, to |-> s.to, pl |-> pl, ns |-> ns, node |-> node, a |-> a, b |-> b] IN
  CASE s.kind = "ping" -> q("get", "ping", NSPing, "", <<>>, <<>>)
    [] s.kind = "version" -> q("get", "query", NSVersion, "", <<"", "", "">>, <<>>)
    [] s.kind = "time" -> q("get", "time", NSTime, "", <<"", "">>, <<>>)
    [] s.kind = "info" -> q("get", "query", NSInfo, s.node, <<>>, <<>>)
    [] s.kind = "enable" -> q("set", "enable", NSCarbons, "", <<>>, <<>>)
    [] s.kind = "disable" -> q("set", "disable", NSCarbons, "", <<>>, <<>>)
    [] s.kind = "rosterset" -> q("set", "query", NSRoster, "", <<s.items[1].jid>>, <<s.items[1].sub>>)
    [] s.kind = "rosterdel" -> q("set", "query", NSRoster, "", <<s.items[1].jid>>, <<"remove">>)
    [] s.kind = "blockadd" -> q("set", "block", NSBlocking, "", [i \in 1..Len(s.items) |-> s.items[i].jid], <<>>)
    [] s.kind = "blockremove" -> q("set", "unblock", NSBlocking, "", [i \in 1..Len(s.items) |-> s.items[i].jid], <<>>)
ReqOK(s, q) == [st |-> q.st, typ |-> q.typ, to |-> q.to, pl |-> q.pl, ns |-> q.ns, node |-> q.node, a |-> q.a, b |-> q.b] = HelperReq(s)

CondOf(shape) == CASE shape = "err-su" -> "service-unavailable" [] shape = "err-forbidden" -> "forbidden"
                   [] shape = "err-inf" -> "item-not-found" [] OTHER -> ""
RetRec(err, cond, a, b, node) == [err |-> err, cond |-> cond, a |-> a, b |-> b, node |-> node]
ContentOf(s) ==
  CASE s.kind = "version" -> RetRec(None, "", <<"srv", "1.2", "plan9">>, <<>>, "")
    [] s.kind = "time" -> RetRec(None, "", <<"-05:00", "2021-03-04T05:06:07Z">>, <<>>, "")
    [] s.kind = "info" -> RetRec(None, "", <<"f1", "f2">>, <<"server/im/srv">>, s.node)
    [] OTHER -> RetRec(None, "", <<>>, <<>>, "")
(* what the helper must return: the content of a result, the stanza error of an error reply; ping.Send *)
(* documents that <service-unavailable/> counts as an answered ping                                      *)
RetOK(s, r) ==
  CASE s.shape = "result" -> r.err = None /\ (s.kind \in WithContent => r = ContentOf(s))
    [] s.shape = "empty" -> (s.kind \notin WithContent => r.err = None)       \* a result without the payload: free
    [] s.kind = "ping" /\ s.shape = "err-su" -> r.err = None
    [] OTHER -> r.err = "stanza" /\ r.cond = CondOf(s.shape)

-----------------------------------------------------------------------------
(* OBSERVER: the properties *)
Busy == pc \notin {"idle", "ended"}
Cur == k >= 1
Done == Cur /\ pc = "idle"           \* element k has been handled completely

(* authorised-only application; nothing is delivered for forged senders *)
P_RosterAuthorised == Cur => \A i \in 1..Len(cbs) : cbs[i].cb = "roster" => S.kind = "roster" /\ FromAccount(S)
P_CarbonAuthorised == Cur => \A i \in 1..Len(cbs) : cbs[i].cb = "carbon" => S.kind = "carbon" /\ FromAccount(S)
(* callbacks only for what the stanza is and only through registered handlers / callbacks that are set *)
P_OnlyRegistered ==
  Cur /\ cbs # <<>> => /\ Route(S, cfg) \notin {None}
                       /\ \A i \in 1..Len(cbs) : cbs[i].cb \in CbKinds(S)
                       /\ (S.kind \in {"block", "unblock"} => cfg.block = "all")
(* fields carried: every callback carries an item of the stanza (and its ver, direction, inner message), in order, at most once *)
P_FieldsCarried == Cur /\ WF(S) => IsSubSeq(cbs, CbsOf(S))
(* exactly once: a well-formed stanza from an authorised sender reaches the application completely *)
MustApply(s, c) ==
  \/ Route(s, c) \in {"roster", "carbon"} /\ WF(s) /\ FromAccount(s)
  \/ Route(s, c) \in {"block", "unblock"} /\ WF(s) /\ c.block = "all"
P_ExactlyOnce == Done /\ MustApply(S, cfg) => cbs = CbsOf(S)
(* replies: never more than one, only to IQ requests, addressed to the requester with the request's id *)
P_AtMostOneReply == Cur => Len(reps) <= 1 /\ (~IsRequest(S) => reps = <<>>)
P_ReplyAddressed ==
  Cur => \A i \in 1..Len(reps) : /\ reps[i].st = "iq" /\ reps[i].typ \in {"result", "error"} /\ reps[i].id = S.id
                                 /\ (reps[i].to = S.from \/ (S.from = OwnBare /\ reps[i].to = ""))
P_ReplyMeaning == Cur => \A i \in 1..Len(reps) : ReplyOK(S, cfg, reps[i])
(* every request is answered - except that an unauthorised roster push may be met with silence *)
P_ExactlyOneReply ==
  Done /\ IsRequest(S) /\ ~(Route(S, cfg) = "roster" /\ ~FromAccount(S)) => Len(reps) = 1
(* the session survives: Serve ends only when the peer ended the stream, when the application's Push callback *)
(* returned an error that is no stanza error (documented pass-through), or on a malformed payload (free)      *)
MayFail(s, c) ==
  \/ Route(s, c) = "roster" /\ c.roster = "oerr" /\ cbs # <<>>
  \/ Route(s, c) # None /\ ~WF(s)
P_ServeEnds == pc = "ended" => eos \/ (Cur /\ MayFail(S, cfg))
(* helpers *)
P_HelperRequest == Cur => /\ Len(reqs) <= 1 /\ (reqs # <<>> => IsCall(S))
                          /\ \A i \in 1..Len(reqs) : ReqOK(S, reqs[i])
                          /\ (Done /\ IsCall(S) => Len(reqs) = 1)
P_HelperResult == Cur => /\ (ret # <<>> => IsCall(S)) /\ Len(ret) <= 1
                         /\ (Done /\ IsCall(S) => Len(ret) = 1 /\ RetOK(S, ret[1]))

Safety ==
  /\ P_RosterAuthorised /\ P_CarbonAuthorised /\ P_OnlyRegistered /\ P_FieldsCarried /\ P_ExactlyOnce
  /\ P_AtMostOneReply /\ P_ReplyAddressed /\ P_ReplyMeaning /\ P_ExactlyOneReply /\ P_ServeEnds
  /\ P_HelperRequest /\ P_HelperResult

AllProps == {"P_RosterAuthorised", "P_CarbonAuthorised", "P_OnlyRegistered", "P_FieldsCarried", "P_ExactlyOnce", "P_AtMostOneReply",
             "P_ReplyAddressed", "P_ReplyMeaning", "P_ExactlyOneReply", "P_ServeEnds", "P_HelperRequest", "P_HelperResult"}
(* the conjunction of the named properties only (diagnosis of a rejected trace: which property rejects it?) *)
SafetyOf(only) ==
  /\ ("P_RosterAuthorised" \in only => P_RosterAuthorised) /\ ("P_CarbonAuthorised" \in only => P_CarbonAuthorised)
  /\ ("P_OnlyRegistered" \in only => P_OnlyRegistered) /\ ("P_FieldsCarried" \in only => P_FieldsCarried)
  /\ ("P_ExactlyOnce" \in only => P_ExactlyOnce) /\ ("P_AtMostOneReply" \in only => P_AtMostOneReply)
  /\ ("P_ReplyAddressed" \in only => P_ReplyAddressed) /\ ("P_ReplyMeaning" \in only => P_ReplyMeaning)
  /\ ("P_ExactlyOneReply" \in only => P_ExactlyOneReply) /\ ("P_ServeEnds" \in only => P_ServeEnds)
  /\ ("P_HelperRequest" \in only => P_HelperRequest) /\ ("P_HelperResult" \in only => P_HelperResult)

-----------------------------------------------------------------------------
(* MECHANISM *)
InitWith(c, s) ==
  /\ cfg = c /\ script = s /\ k = 0 /\ pc = "idle" /\ eos = FALSE
  /\ queue = <<>> /\ cbs = <<>> /\ reps = <<>> /\ reqs = <<>> /\ ret = <<>>
Init == \E sc \in Scenarios : InitWith(sc.cfg, sc.script)

D(d) == d \in Dev

(* the serve loop reads the next element (or the application calls a helper) *)
Deliver ==
  /\ pc = "idle" /\ ~eos /\ k < Len(script)
  /\ k' = k + 1 /\ cbs' = <<>> /\ reps' = <<>> /\ reqs' = <<>> /\ ret' = <<>> /\ queue' = <<>>
  /\ pc' = IF IsCall(script[k + 1]) THEN "creq" ELSE "route"
  /\ UNCHANGED <<cfg, script, eos>>

Authorised(s, h) ==
  \/ FromAccount(s)
  \/ h = "roster" /\ D("ForgedRosterApplied")
  \/ h = "roster" /\ D("ServerMayPushRoster") /\ s.snd = "server"
  \/ h = "roster" /\ D("OwnResourceMayPushRoster") /\ s.snd \in {"ownfull", "ownother"}
  \/ h = "carbon" /\ D("ForgedCarbonDelivered")

Plan(s, c) ==            \* callbacks for a well-formed stanza
  LET q == CbsOf(s) IN
  CASE D("DropVer") /\ s.kind = "roster" -> [i \in 1..Len(q) |-> [q[i] EXCEPT !.ver = ""]]
    [] D("DropGroups") /\ s.kind = "roster" -> [i \in 1..Len(q) |-> [q[i] EXCEPT !.groups = <<>>]]
    [] D("DirectionSwapped") /\ s.kind = "carbon" -> <<[q[1] EXCEPT !.sent = ~@]>>
    [] D("OuterForInner") /\ s.kind = "carbon" -> <<[q[1] EXCEPT !.from = s.from, !.id = s.id]>>
    [] D("CallbackTwice") /\ q # <<>> -> <<q[1]>> \o q
    [] D("SkipSecondItem") /\ Len(q) >= 2 -> <<q[1]>>
    [] D("UnblockAllForItems") /\ s.kind = "unblock" /\ s.items # <<>> -> q \o <<[cb |-> "unblockall", jid |-> "", rep |-> ""]>>
    [] D("ReportDropped") /\ s.kind = "block" -> [i \in 1..Len(q) |-> [q[i] EXCEPT !.rep = ""]]
    [] OTHER -> q

(* valid prefixes for the malformed case *)
ValidCbs(s) == LET q == CbsOf(s) IN
  IF s.kind \in {"roster", "block", "unblock"} /\ s.items # <<>>
  THEN {SubSeq(q, 1, n) : n \in {m \in 0..Len(q) : \A i \in 1..m : ValidItem(s.items[i])}}
  ELSE {<<>>}

RouteStep ==
  /\ pc = "route"
  /\ LET h == Route(S, cfg) IN
     \/ /\ h = None
        /\ IF D("CarbonForPlain") /\ IsMsg(S) /\ cfg.carbons
           THEN queue' = <<CarbonCb(S)>> /\ pc' = "apply"
           ELSE queue' = queue /\ pc' = "default"
     \/ /\ h \in {"roster", "carbon", "block", "unblock"}
        /\ IF h \in {"roster", "carbon"} /\ ~Authorised(S, h)
           THEN queue' = queue /\ pc' = (IF D("ResultOnRefusal") THEN "reply" ELSE "default")
           ELSE IF WF(S)
           THEN queue' = (IF h \in {"block", "unblock"} /\ cfg.block # "all" THEN <<>> ELSE Plan(S, cfg)) /\ pc' = "apply"
           ELSE \/ queue' = queue /\ pc' = "ended"              \* the handler fails on what it cannot decode
                \/ queue' = queue /\ pc' = "default"            \* or ignores the stanza
                \/ IsRequest(S) /\ queue' = queue /\ pc' = "reply"   \* or answers
                \/ /\ queue' \in (IF h \in {"block", "unblock"} /\ cfg.block # "all" THEN {<<>>} ELSE ValidCbs(S))
                   /\ pc' = "apply"                             \* or applies what is valid
     \/ /\ h \in {"blocklist", "ping", "version", "time", "info", "items", "extra", "bob"}
        /\ queue' = queue
        /\ \/ pc' = "reply"
           \/ ~WF(S) /\ pc' = "ended"             \* the handler fails on what it cannot decode
  /\ UNCHANGED <<cfg, script, k, eos, cbs, reps, reqs, ret>>

(* code-like deviation: the handler answers what it cannot decode with an error - and then carries on as if  *)
(* nothing had happened (applies what it has, acknowledges the command): two replies to one request           *)
RouteAnswerAndCarryOn ==
  /\ pc = "route" /\ D("ErrorThenCarriesOn")
  /\ Route(S, cfg) \in {"roster", "block", "unblock"} /\ Authorised(S, Route(S, cfg)) /\ ~WF(S) /\ IsRequest(S)
  /\ reps' = Append(reps, ErrRep(S, "bad-request"))
  /\ queue' = <<>> /\ pc' = "apply"
  /\ UNCHANGED <<cfg, script, k, eos, cbs, reqs, ret>>

ApplyStep ==
  /\ pc = "apply"
  /\ IF queue # <<>>
     THEN /\ cbs' = Append(cbs, Head(queue)) /\ queue' = Tail(queue)
          /\ pc' = IF S.kind = "roster" /\ cfg.roster = "oerr" THEN "ended" ELSE pc
     ELSE /\ UNCHANGED <<cbs, queue>>
          /\ pc' = IF IsMsg(S) THEN "default" ELSE "reply"
  /\ UNCHANGED <<cfg, script, k, eos, reps, reqs, ret>>

(* what the handler writes *)
HandlerReplies(s, c) ==
  LET h == Route(s, c) IN
  CASE h = "roster" ->
         IF ~FromAccount(s) /\ ~D("ResultOnRefusal") /\ cbs = <<>> THEN {ErrRep(s, "service-unavailable")}
         ELSE IF c.roster = "serr" /\ cbs # <<>> THEN {ErrRep(s, "forbidden")}
         ELSE IF WF(s) \/ D("ResultOnRefusal") THEN {Result(s)} ELSE {Result(s), ErrRep(s, "bad-request")}
    [] h \in {"block", "unblock"} -> IF WF(s) THEN {Result(s)} ELSE {Result(s), ErrRep(s, "jid-malformed")}
    [] h = "blocklist" -> {Rep(s, "result", "", "blocklist", NSBlocking, "", ListJids(c), <<>>)}
    [] h = "ping" -> {Result(s)}
    [] h = "version" -> {Rep(s, "result", "", "query", NSVersion, "", VersionInfo, <<>>)}
    [] h = "time" -> {Rep(s, "result", "", "time", NSTime, "", IF c.timefn THEN FixedTime ELSE <<"Z", "now">>, <<>>)}
    [] h = "info" ->
         LET fs == Features(c, s.node)
             ord == SelectSeq(FeatOrder, LAMBDA f : f \in fs)
             feats == CASE D("FeatureDuplicated") /\ fs # {} -> ord \o <<ord[1]>>
                        [] D("StaticSourcesForgotten") -> SelectSeq(ord, LAMBDA f : f # "urn:x:static")
                        [] D("FeaturesIgnoreNode") -> SelectSeq(FeatOrder, LAMBDA f : f \in Features(c, ""))
                        [] OTHER -> ord
             is == Idents(c, s.node)
             iord == SelectSeq(IdentOrder, LAMBDA f : f \in is)
         IN {Rep(s, "result", "", "query", NSInfo, IF D("NodeDropped") THEN "" ELSE s.node, feats, iord)}
    [] h = "items" -> {Rep(s, "result", "", "query", NSItems, IF D("NodeDropped") THEN "" ELSE s.node, DiscoItems(c, s.node), <<>>)}
    [] h = "extra" -> {Rep(s, "result", "", "x", NSExtra, "", <<>>, <<>>)}
    [] h = "bob" -> IF ~WF(s) THEN {ErrRep(s, "bad-request"), ErrRep(s, "item-not-found")}
                    ELSE IF s.node = KnownCid THEN {Rep(s, "result", "", "data", NSBob, "", BobData, <<>>)}
                    ELSE {ErrRep(s, "item-not-found")}
    [] OTHER -> {Result(s)}

Mangle(r) ==
  CASE D("WrongId") -> [r EXCEPT !.id = "zz"]
    [] D("ReplyToSelf") -> [r EXCEPT !.to = OwnFull]
    [] OTHER -> r

ReplyStep ==
  /\ pc = "reply"
  /\ IF D("NoReplyOnApply") /\ Route(S, cfg) \in {"block", "unblock"}
     THEN reps' = reps
     ELSE \E r \in HandlerReplies(S, cfg) : reps' = Append(reps, Mangle(r))
  /\ pc' = "default"
  /\ UNCHANGED <<cfg, script, k, eos, queue, cbs, reqs, ret>>

(* the serve loop's own reply to an IQ request nobody answered *)
DefaultStep ==
  /\ pc = "default"
  /\ reps' = (IF IsRequest(S) /\ reps = <<>> /\ ~D("NoDefaultReply") THEN <<Mangle(ErrRep(S, "service-unavailable"))>>
              ELSE IF IsRequest(S) /\ reps # <<>> /\ D("DoubleReply") THEN Append(reps, ErrRep(S, "service-unavailable"))
              ELSE IF IsMsg(S) /\ D("ReplyToMessage") THEN <<ErrRep(S, "service-unavailable")>>
              ELSE IF ~IsRequest(S) /\ ~IsMsg(S) /\ D("ReplyToResponse") THEN <<ErrRep(S, "service-unavailable")>>
              ELSE reps)
  /\ pc' = "finish"
  /\ UNCHANGED <<cfg, script, k, eos, queue, cbs, reqs, ret>>

FinishStep ==
  /\ pc = "finish"
  /\ pc' = (IF D("ServeDiesOnPush") /\ S.kind \in {"roster", "carbon"} THEN "ended" ELSE "idle")
  /\ UNCHANGED <<cfg, script, k, eos, queue, cbs, reps, reqs, ret>>

(* the peer ends the stream after the script *)
EosStep ==
  /\ pc = "idle" /\ ~eos /\ k = Len(script)
  /\ eos' = TRUE /\ pc' = "ended"
  /\ UNCHANGED <<cfg, script, k, queue, cbs, reps, reqs, ret>>

(* helpers: request, the responder's answer (environment), return *)
CReq ==
  /\ pc = "creq"
  /\ reqs' = <<CASE D("RequestToNobody") -> [HelperReq(S) EXCEPT !.to = ""]
                 [] D("GetForSet") -> [HelperReq(S) EXCEPT !.typ = "get"]
                 [] D("DeleteKeepsSubscription") /\ S.kind = "rosterdel" -> [HelperReq(S) EXCEPT !.b = <<S.items[1].sub>>]
                 [] OTHER -> HelperReq(S)>>
  /\ pc' = "cwait"
  /\ UNCHANGED <<cfg, script, k, eos, queue, cbs, reps, ret>>
CAnswer == pc = "cwait" /\ pc' = "cret" /\ UNCHANGED <<cfg, script, k, eos, queue, cbs, reps, reqs, ret>>
HelperRets(s) ==
  CASE s.shape = "result" -> {IF D("ContentDropped") THEN RetRec(None, "", <<>>, <<>>, "") ELSE ContentOf(s)}
    [] s.shape = "empty" -> IF s.kind \in WithContent THEN {RetRec(None, "", <<>>, <<>>, ""), RetRec("other", "", <<>>, <<>>, "")}
                            ELSE {RetRec(None, "", <<>>, <<>>, "")}
    [] s.kind = "ping" /\ s.shape = "err-su" /\ ~D("PingFailsOnUnavailable") -> {RetRec(None, "", <<>>, <<>>, "")}
    [] D("ErrorReplySwallowed") /\ s.kind \notin WithContent -> {RetRec(None, "", <<>>, <<>>, "")}
    [] OTHER -> {RetRec("stanza", CondOf(s.shape), <<>>, <<>>, "")}
CRet ==
  /\ pc = "cret"
  /\ \E r \in HelperRets(S) : ret' = <<r>>
  /\ pc' = "finish"
  /\ UNCHANGED <<cfg, script, k, eos, queue, cbs, reps, reqs>>

Next == Deliver \/ RouteStep \/ RouteAnswerAndCarryOn \/ ApplyStep \/ ReplyStep \/ DefaultStep \/ FinishStep \/ EosStep \/ CReq \/ CAnswer \/ CRet
Spec == Init /\ [][Next]_vars

(* the session is not wedged: every scenario runs to the end of the stream or to a failure the rules allow *)
FairSpec == Spec /\ WF_vars(Next)
P_Terminates == <>(pc = "ended")
=============================================================================
