----------------------------- MODULE TrCommands -----------------------------
(* Trace validation of recorded runs of the real commands package                 *)
(* (harness/cmd/iter, part "commands") against Commands.tla.                      *)
EXTENDS Commands, Json

Trace == ndJsonDeserialize("trace.ndjson")
VARIABLES l, t0
tvars == <<vars, l, t0>>
Starts == {i \in 1..Len(Trace) : Trace[i].ev = "reset"}
EndOf(i) == Trace[i].end
IsEv(e) == l < EndOf(t0) /\ Trace[l].ev = e /\ l' = l + 1
IsHook(pt) == IsEv("hook") /\ Trace[l].point = pt
E == Trace[l]

TInit == /\ t0 \in Starts /\ l = t0 /\ InitWith(Trace[t0].mode, Trace[t0].script, Trace[t0].plan)
TrReset == l = t0 /\ IsEv("reset") /\ UNCHANGED vars

ErrMatch(e, o) ==
  CASE e = None -> o = "none"
    [] e = "stanza" -> o = "stanza"
    [] e = "cb" -> o = "cb"
    [] e = "ctx" -> o \in {"ctx", "other"}
    [] OTHER -> o = "other"

TrCall == IsEv("call") /\ Call(E.op)
TrRetExec ==
  /\ IsEv("ret") /\ E.op = "exec" /\ RetExec
  /\ E.ok = (cst = "open")
  /\ (IF cst = "open" THEN E.status = resp.status /\ E.sid = resp.sid /\ E.node = resp.node /\ E.err = "none"
      ELSE ErrMatch(err, E.err))
TrRetClosep == IsEv("ret") /\ E.op = "closep" /\ RetClosep
TrRetForEach == IsEv("ret") /\ E.op = "foreach" /\ RetForEach /\ ErrMatch(IF cst = "done" THEN None ELSE err, E.err)
TrReq == IsEv("req") /\ SendCmd([sid |-> E.sid, node |-> E.node, action |-> E.action])
TrCb == /\ IsEv("cb") /\ cst = "cb" /\ E.k = P
        /\ E.status = resp.status /\ E.sid = resp.sid /\ E.node = resp.node
        /\ Callback
TrPeer == IsEv("peer") /\ PeerReply /\ answered + 1 = E.k
TrCancel == IsEv("cancel") /\ Cancel
TrEos == IsEv("eos") /\ EndStream
TrHanded == IsHook("serve.handed") /\ spc = "handed" /\ UNCHANGED vars
TrResume == IsHook("serve.resume") /\ Resume
TrOtherHook == IsEv("hook") /\ E.point \notin {"serve.handed", "serve.resume"} /\ UNCHANGED vars
TrHandler == IsEv("handler") /\ inbox # <<>> /\ ReplyToHandler /\ Head(inbox) = E.k
TrServeRet == IsEv("serve_ret") /\ spc = "ended" /\ UNCHANGED vars
TrEnd ==
  /\ IsEv("end") /\ cop = None /\ spc \in {"read", "ended"} /\ ~held
  /\ opened = released /\ released = resumed
  /\ UNCHANGED vars

Silent ==
  /\ (ReadEos \/ Handoff \/ Examine \/ SendFail \/ CtxDone \/ ClosePayload)
  /\ UNCHANGED l

TNext ==
  /\ l < EndOf(t0)
  /\ \/ TrReset \/ TrCall \/ TrRetExec \/ TrRetClosep \/ TrRetForEach \/ TrReq \/ TrCb \/ TrPeer \/ TrCancel \/ TrEos
     \/ TrHanded \/ TrResume \/ TrOtherHook \/ TrHandler \/ TrServeRet \/ TrEnd \/ Silent
  /\ UNCHANGED t0
  /\ Safety'

TSpec == TInit /\ [][TNext]_tvars
HW == TLCSet(t0, IF TLCGet(t0) < l THEN l ELSE TLCGet(t0))
Rejected == {i \in Starts : TLCGet(i) # EndOf(i)}
Accepted ==
  \/ Rejected = {}
  \/ PrintT(<<"REJECTED", {<<Trace[i].t, TLCGet(i)>> : i \in Rejected}>>) /\ FALSE
ASSUME \A i \in Starts : TLCSet(i, 0)
=============================================================================
