------------------------------ MODULE MCOutput ------------------------------
EXTENDS Output
ProgramsMC == { <<"tx">>, <<"close">>, <<"close", "close">>, <<"tx", "tx">>, <<"close", "tx">>,
                <<"tx", "close">>, <<"serve", "rx">>, <<"txc">>, <<"txc", "close">>, <<"txc", "tx">> }
RECURSIVE SeqsUpTo(_, _)
SeqsUpTo(S, n) == IF n = 0 THEN {<<>>} ELSE SeqsUpTo(S, n - 1) \cup {Append(s, x) : s \in SeqsUpTo(S, n - 1), x \in S}
PeerScriptsMC == SeqsUpTo({"stanza", "stanza_reply", "close", "streamerr", "eof", "stanza_herr", "stanza_herr_se", "stanza_heof"}, 2)
ProgramsQuick == { <<"tx">>, <<"close">>, <<"close", "tx">>, <<"tx", "close">>, <<"serve", "rx">>, <<"txc", "close">> }
(* ... and the histories in which the peer sends k >= 1 more elements before one of the reasons for Serve to return *)
(* (its close, a stream error, the deadline, the end of the transport) - SetCloseDeadline, an event of its own, falls *)
(* before, between and after them                                                                                   *)
(* one representative of every class of handler error the specification tells apart *)
ItemsMC == {"stanza", "stanza_reply", "close", "streamerr", "eof", "stanza_herr", "stanza_herr_weof", "stanza_herr_se", "stanza_heof"}
PeerScriptsQuick == SeqsUpTo(ItemsMC \ {"stanza"}, 1) \cup {<<"stanza_reply", "close">>, <<"stanza", "stanza_herr">>,
                                                          <<"stanza", "close">>, <<"stanza", "stanza">>, <<"stanza", "streamerr">>}
(* closed token writers used again, next to transmit calls and Close of the other process (no Serve: `MCOutput_stale`) *)
ProgramsStale == { <<"tx">>, <<"close">>, <<"tx", "sclose">>, <<"tx", "stx">>, <<"tx", "stx", "tx">> }
NoDeadline == dl = "none"     \* (state constraint of that configuration: without Serve the close deadline plays no part)
PeerScriptsNone == {<<>>}
(* what the peer sends matters only if somebody serves: otherwise the empty script stands for all of them *)
MCInit == Init /\ ((\A p \in Procs : \A i \in 1..Len(prog[p]) : prog[p][i] # "serve") => peer = <<>>)
MCSpec == MCInit /\ [][Next]_vars
=============================================================================
