------------------------------ MODULE MCOutput ------------------------------
EXTENDS Output
ProgramsMC == { <<"tx">>, <<"close">>, <<"close", "close">>, <<"tx", "tx">>, <<"close", "tx">>,
                <<"tx", "close">>, <<"serve", "rx">>, <<"txc">>, <<"txc", "close">>, <<"txc", "tx">> }
RECURSIVE SeqsUpTo(_, _)
SeqsUpTo(S, n) == IF n = 0 THEN {<<>>} ELSE SeqsUpTo(S, n - 1) \cup {Append(s, x) : s \in SeqsUpTo(S, n - 1), x \in S}
PeerScriptsMC == SeqsUpTo(Items, 2)
ProgramsQuick == { <<"tx">>, <<"close">>, <<"close", "tx">>, <<"tx", "close">>, <<"serve", "rx">>, <<"txc", "close">> }
PeerScriptsQuick == SeqsUpTo(Items \ {"stanza"}, 1) \cup {<<"stanza_reply", "close">>, <<"stanza", "stanza_herr">>}
=============================================================================
