----------------------------- MODULE MCReceipts -----------------------------
EXTENDS Receipts
(* model-checking instance of Receipts (constants come from the .cfg) *)
=============================================================================
