------------------------------- MODULE Caps -------------------------------
(* C20 - the entity-capabilities verification string is canonical.                      *)
(*                                                                                      *)
(* This module IS the construction of XEP-0115 section 5.1, written over the same shape *)
(* of data the code works on (disco.Info: a list of identities, a list of features, a   *)
(* list of data forms, each a list of fields, each with a list of values - all in the   *)
(* order in which they happen to appear in the peer's reply), one definition per        *)
(* numbered step of 5.1.  Strings are sequences of octets (the UTF-8 bytes of the       *)
(* concrete strings the driver uses) and are compared octet-wise (RFC 4790 i;octet).    *)
(*                                                                                      *)
(* Where 5.1 is silent (a form without FORM_TYPE, a FORM_TYPE without value, several    *)
(* forms of the same FORM_TYPE) the module gives NO string: the property then only      *)
(* asks for "no panic, the same result under every permutation, Hash = AppendHash(nil)" *)
(* (class "free"); a FORM_TYPE with several different values is ill-formed by 5.4 and   *)
(* nothing but "no panic, Hash = AppendHash(nil)" is asked (class "ill").               *)
EXTENDS Integers, Sequences, FiniteSets, TLC

LT == 60   \* '<'
SL == 47   \* '/'
FT == <<70, 79, 82, 77, 95, 84, 89, 80, 69>>   \* "FORM_TYPE"

(* ---------------------------------------------------------------- octet-wise order *)
MinOf(x, y) == IF x < y THEN x ELSE y

StrLess(x, y) ==
  \E k \in 0..MinOf(Len(x), Len(y)) :
     /\ \A j \in 1..k : x[j] = y[j]
     /\ (IF k = Len(x) THEN k < Len(y)
         ELSE (IF k = Len(y) THEN FALSE ELSE x[k + 1] < y[k + 1]))

RECURSIVE Cat(_)
Cat(ss) == IF ss = <<>> THEN <<>> ELSE Head(ss) \o Cat(Tail(ss))

Map(s, Op(_)) == [i \in 1..Len(s) |-> Op(s[i])]

(* ---------------------------------------------------------------- 5.1 step by step *)
(* step 2: identities sorted by category, then type, then xml:lang *)
IdLess(x, y) ==
  IF x.cat # y.cat THEN StrLess(x.cat, y.cat)
  ELSE (IF x.type # y.type THEN StrLess(x.type, y.type) ELSE StrLess(x.lang, y.lang))
(* step 3: category/type/lang/name< (every slash present even when lang or name are absent) *)
IdStr(x) == x.cat \o <<SL>> \o x.type \o <<SL>> \o x.lang \o <<SL>> \o x.name \o <<LT>>
IdentityPart(ids) == Cat(Map(SortSeq(ids, IdLess), IdStr))

(* steps 4, 5 *)
Term(s) == s \o <<LT>>
FeaturePart(feats) == Cat(Map(SortSeq(feats, StrLess), Term))

(* steps 6, 7 *)
IsFT(f) == f.var = FT
FTFields(form) == SelectSeq(form.fields, IsFT)
NotFT(f) == f.var # FT
OtherFields(form) == SelectSeq(form.fields, NotFT)
FormType(form) == FTFields(form)[1].vals[1]
FieldLess(f, g) == StrLess(f.var, g.var)
FieldStr(f) == Term(f.var) \o Cat(Map(SortSeq(f.vals, StrLess), Term))     \* 7.3.1 - 7.3.3
FormStr(form) == Term(FormType(form)) \o Cat(Map(SortSeq(OtherFields(form), FieldLess), FieldStr))
FormLess(f, g) == StrLess(FormType(f), FormType(g))
FormPart(forms) == Cat(Map(SortSeq(forms, FormLess), FormStr))

(* the string S of 5.1 before hashing, as octets *)
Ver(info) == IdentityPart(info.ids) \o FeaturePart(info.feats) \o FormPart(info.forms)

(* ---------------------------------------------------------------- where 5.1 applies *)
Elems(s) == {s[i] : i \in 1..Len(s)}
Injective(s) == \A i, j \in 1..Len(s) : s[i] = s[j] => i = j

WellTyped(form) == Len(FTFields(form)) = 1 /\ Len(FTFields(form)[1].vals) = 1
IllTyped(form) == \E i \in 1..Len(form.fields) :
                     form.fields[i].var = FT /\ Cardinality(Elems(form.fields[i].vals)) > 1

Class(info) ==
  IF \E i \in 1..Len(info.forms) : IllTyped(info.forms[i]) THEN "ill"
  ELSE IF /\ \A i \in 1..Len(info.forms) : WellTyped(info.forms[i])
          /\ Injective(Map(info.forms, FormType))
       THEN "strict" ELSE "free"

(* the quantifier of the property: distinct (category, type, lang), a set of features,  *)
(* distinct vars within a form *)
IdKey(x) == <<x.cat, x.type, x.lang>>
Var(f) == f.var
InDomain(info) ==
  /\ Injective(Map(info.ids, IdKey))
  /\ Injective(info.feats)
  /\ \A i \in 1..Len(info.forms) : Injective(Map(info.forms[i].fields, Var))

(* ---------------------------------------------------------------- declarative form *)
(* "the concatenation in ascending order": a second, order-free statement of 5.1 used   *)
(* to cross-check the sort-based one (C20_MatchesDeclarative)                           *)
PermsOf(s) == {[i \in 1..Len(s) |-> s[p[i]]] : p \in Permutations(1..Len(s))}
Ascending(s, Less(_, _)) == \A i \in 1..(Len(s) - 1) : Less(s[i], s[i + 1])
TheAscending(s, Less(_, _)) == CHOOSE q \in PermsOf(s) : Ascending(q, Less)
VerDecl(info) ==
  Cat(Map(TheAscending(info.ids, IdLess), IdStr))
  \o Cat(Map(TheAscending(info.feats, StrLess), Term))
  \o Cat(Map(TheAscending(info.forms, FormLess),
             LAMBDA fm : Term(FormType(fm)) \o
                Cat(Map(TheAscending(OtherFields(fm), FieldLess),
                        LAMBDA f : Term(f.var) \o Cat(Map(TheAscending(f.vals, StrLess), Term))))))

(* ---------------------------------------------------------------- presentations *)
(* every order in which the same sets can appear: permutations of identities, features, *)
(* forms, of the fields of each form and of the values of each field                    *)
RECURSIVE SeqProduct(_)
SeqProduct(ss) == IF ss = <<>> THEN {<<>>}
                  ELSE {<<h>> \o t : h \in Head(ss), t \in SeqProduct(Tail(ss))}

FieldVariants(f) == {[var |-> f.var, vals |-> v] : v \in PermsOf(f.vals)}
FormVariants(form) ==
  UNION {{[fields |-> q] : q \in SeqProduct(Map(p, FieldVariants))} : p \in PermsOf(form.fields)}
FormsVariants(forms) == UNION {SeqProduct(Map(p, FormVariants)) : p \in PermsOf(forms)}
Presentations(b) ==
  {[ids |-> i, feats |-> f, forms |-> m] :
      i \in PermsOf(b.ids), f \in PermsOf(b.feats), m \in FormsVariants(b.forms)}

(* one adjacent transposition somewhere (these generate every presentation) *)
SwapAt(s, i) == [s EXCEPT ![i] = s[i + 1], ![i + 1] = s[i]]
Swaps(c) ==
  {[c EXCEPT !.ids = SwapAt(c.ids, i)] : i \in 1..(Len(c.ids) - 1)}
  \cup {[c EXCEPT !.feats = SwapAt(c.feats, i)] : i \in 1..(Len(c.feats) - 1)}
  \cup {[c EXCEPT !.forms = SwapAt(c.forms, i)] : i \in 1..(Len(c.forms) - 1)}
  \cup UNION {{[c EXCEPT !.forms[k].fields = SwapAt(c.forms[k].fields, i)] :
                  i \in 1..(Len(c.forms[k].fields) - 1)} : k \in 1..Len(c.forms)}
  \cup UNION {UNION {{[c EXCEPT !.forms[k].fields[j].vals = SwapAt(c.forms[k].fields[j].vals, i)] :
                         i \in 1..(Len(c.forms[k].fields[j].vals) - 1)} :
                     j \in 1..Len(c.forms[k].fields)} : k \in 1..Len(c.forms)}

(* ---------------------------------------------------------------- design check *)
(* the environment presents one info value of the domain in some order and keeps        *)
(* re-ordering it; the verification string must not notice                              *)
CONSTANT Bases
VARIABLES base, cur
vars == <<base, cur>>

Init == base \in Bases /\ cur = base
Reorder == cur' \in Swaps(cur) /\ UNCHANGED base
Next == Reorder
Spec == Init /\ [][Next]_vars

C20_InDomain == InDomain(cur) /\ Class(cur) = Class(base)
C20_PermutationInvariant == Class(base) = "strict" => Ver(cur) = Ver(base)
C20_MatchesDeclarative == Class(base) = "strict" => Ver(cur) = VerDecl(cur)
=============================================================================
