----------------------------- MODULE PeerInput -----------------------------
(* Property C09 - no peer input can panic or wedge the library.                        *)
(*                                                                                     *)
(* This module is a GENERATOR WITH STATE and a small run protocol:                     *)
(*                                                                                     *)
(*  part 1  the grammar of what a peer can send to each handler the library registers  *)
(*          on a multiplexer (Targets: one entry per registered (kind, type, payload)) *)
(*          and of what it can answer to each request helper (Helpers): for every      *)
(*          expected payload (an element tree) the productions Mut/Top give the        *)
(*          payload shapes - absent, empty, text where an element is expected, the     *)
(*          expected element, every attribute missing / empty / junk (neither a number *)
(*          nor an address) / overflowing / another well-formed value, children        *)
(*          missing, replaced by text or repeated, an unexpected child, a nested copy  *)
(*          of itself, a wrong namespace or name - applied at every element of the     *)
(*          tree;                                                                      *)
(*  part 2  the handler-table state that earlier stanzas and application calls create  *)
(*          (IBB stream none / open / one block received / closed locally / closed by  *)
(*          the peer, tracked history query, pending receipt, managed room) and the    *)
(*          sequences that reach every such state, each followed by every shape of     *)
(*          every stanza of that handler; and the IDENTITY of the served session: how   *)
(*          it was made (initiated / received, client / server namespace, WebSocket     *)
(*          framing), what its local address is (full, bare, domain only, EMPTY: no     *)
(*          origin given and none named by the peer's stream header) and what the       *)
(*          application has done with it (Close before Serve, Serve called again after  *)
(*          it returned, never served at all), crossed with the addressing of the       *)
(*          stanzas (from / to absent, empty, the session's own bare / full / domain    *)
(*          address, another entity, junk);                                             *)
(*  part 3  the run protocol (what a trace of one scenario must look like).  The only  *)
(*          obligations are C09_NoPanic and C09_Terminates: Serve keeps going or       *)
(*          returns (nil or an error) and has returned once the input ended; every     *)
(*          helper / application call returns a value or an error.  Nothing is said    *)
(*          about WHICH of the allowed outcomes occurs, so the oracle cannot be wrong  *)
(*          about code that is right.                                                  *)
EXTENDS Integers, Sequences, FiniteSets, TLC

CONSTANT Tier        \* "quick" | "thorough"
Quick == Tier = "quick"

---------------------------------------------------------------------------
(*                         PART 1 - the grammar                                        *)

E(n, ns, a, c) == [k |-> "el", n |-> n, ns |-> ns, a |-> a, c |-> c, t |-> ""]
X(s)   == [k |-> "text", n |-> "", ns |-> "", a |-> <<>>, c |-> <<>>, t |-> s]
Raw(s) == [k |-> "raw", n |-> "", ns |-> "", a |-> <<>>, c |-> <<>>, t |-> s]
A(n, v) == <<n, v>>

Peer   == "juliet@example.com/b"
Own    == "test@example.net/res"
OwnBare == "test@example.net"
Room   == "room@conf.example.net"
RoomMe == "room@conf.example.net/me"

IBB == "http://jabber.org/protocol/ibb"
MAM == "urn:xmpp:mam:2"
FWD == "urn:xmpp:forward:0"
DELAY == "urn:xmpp:delay"
RCPT == "urn:xmpp:receipts"
MUCUSER == "http://jabber.org/protocol/muc#user"
MUCOWNER == "http://jabber.org/protocol/muc#owner"
CONF == "jabber:x:conference"
DINFO == "http://jabber.org/protocol/disco#info"
DITEMS == "http://jabber.org/protocol/disco#items"
CAPS == "http://jabber.org/protocol/caps"
ROSTER == "jabber:iq:roster"
BLOCK == "urn:xmpp:blocking"
REPORT == "urn:xmpp:reporting:1"
SIDNS == "urn:xmpp:sid:0"
CARBONS == "urn:xmpp:carbons:2"
TIME == "urn:xmpp:time"
VERSION == "jabber:iq:version"
PING == "urn:xmpp:ping"
BOB == "urn:xmpp:bob"
CMD == "http://jabber.org/protocol/commands"
PUBSUB == "http://jabber.org/protocol/pubsub"
PSOWNER == "http://jabber.org/protocol/pubsub#owner"
BOOKMARKS == "urn:xmpp:bookmarks:1"
UPLOAD == "urn:xmpp:http:upload:0"
RSM == "http://jabber.org/protocol/rsm"
XDATA == "jabber:x:data"
STANZAS == "urn:ietf:params:xml:ns:xmpp-stanzas"
VTQ == "urn:vt:q"
WrongNS == "urn:vt:wrong"

Txt == X("text")
JunkText == X("@/ not base64 !")
Comment == Raw("<!-- c -->")
Unexp == E("unexpected", "urn:vt:shape", <<A("a", "1")>>, <<E("deep", "", <<>>, <<X("x")>>)>>)
Body == E("body", "", <<>>, <<X("hi")>>)

(* ----- productions ----- *)
DropAt(s, i) == SubSeq(s, 1, i - 1) \o SubSeq(s, i + 1, Len(s))

Numeric == {"0", "1", "4096", "110", "86400", "3"}
AttrModes == IF Quick THEN {"missing", "empty", "junk", "over", "other"}
             ELSE {"missing", "empty", "junk", "over", "other", "neg", "big"}
AttrVal(m, old) ==
  CASE m = "empty" -> ""
    [] m = "junk"  -> "@/"                        \* neither a number nor an address
    [] m = "over"  -> "99999999999999999999"      \* overflows every integer type
    [] m = "neg"   -> "-1"
    [] m = "big"   -> "70000"                     \* overflows 16 bits only
    [] OTHER       -> IF old \in Numeric THEN (IF old = "1" THEN "2" ELSE "1")
                      ELSE IF old = "iq" THEN "message" ELSE "zz9"
                                                  \* "other": well-formed but not the expected one
AttrMut(a, i, m) == IF m = "missing" THEN DropAt(a, i)
                    ELSE [a EXCEPT ![i] = <<a[i][1], AttrVal(m, a[i][2])>>]

KidModes(x) == IF x.k = "el" THEN {"missing", "text", "dup"} ELSE {"missing", "junk"}
KidMut(c, j, m) ==
  CASE m = "missing" -> DropAt(c, j)
    [] m = "text"    -> [c EXCEPT ![j] = Txt]
    [] m = "dup"     -> SubSeq(c, 1, j) \o SubSeq(c, j, Len(c))
    [] OTHER         -> [c EXCEPT ![j] = JunkText]

(* single-point changes of the element e itself; p is its path (for the shape name) *)
SelfMut(e, p) ==
  LET na == Len(e.a)
      nc == Len(e.c)
      Tag(s) == p \o ":" \o s
  IN    {<<Tag("attr-" \o m \o "-" \o e.a[i][1]), [e EXCEPT !.a = AttrMut(e.a, i, m)]>> :
            i \in 1..na, m \in AttrModes}
   \cup {<<Tag("kid" \o ToString(jm[1]) \o "-" \o jm[2]), [e EXCEPT !.c = KidMut(e.c, jm[1], jm[2])]>> :
            jm \in UNION {{<<j, m>> : m \in KidModes(e.c[j])} : j \in 1..nc}}
   \cup (IF na + nc > 0 THEN {<<Tag("empty"), [e EXCEPT !.a = <<>>, !.c = <<>>]>>} ELSE {})
   \cup (IF na > 0 /\ nc > 0
         THEN {<<Tag("noattrs"), [e EXCEPT !.a = <<>>]>>, <<Tag("nokids"), [e EXCEPT !.c = <<>>]>>}
         ELSE {})
   \cup {<<Tag("text-first"), [e EXCEPT !.c = <<Txt>> \o e.c]>>,
         <<Tag("comment-first"), [e EXCEPT !.c = <<Comment>> \o e.c]>>,
         <<Tag("unexpected-first"), [e EXCEPT !.c = <<Unexp>> \o e.c]>>,
         <<Tag("unexpected-last"), [e EXCEPT !.c = e.c \o <<Unexp>>]>>,
         <<Tag("nested"), [e EXCEPT !.c = <<e>> \o e.c]>>,
         <<Tag("wrongns"), [e EXCEPT !.ns = WrongNS]>>,
         <<Tag("wronglocal"), [e EXCEPT !.n = "bogus"]>>}

(* every single-point change anywhere in the tree of e *)
RECURSIVE Mut(_, _)
Mut(e, p) ==
  SelfMut(e, p) \cup
  UNION {{<<v[1], [e EXCEPT !.c = [e.c EXCEPT ![j] = v[2]]]>> :
             v \in Mut(e.c[j], p \o "/" \o ToString(j) \o e.c[j].n)} :
         j \in {i \in 1..Len(e.c) : e.c[i].k = "el"}}

(* the children of the stanza: shapes of the payload P as a whole + the changes inside P *)
Top(P) ==
  {<<"absent", <<>>>>, <<"textonly", <<Txt>>>>, <<"text-before", <<Txt, P>>>>,
   <<"text-after", <<P, Txt>>>>, <<"expected", <<P>>>>, <<"dup", <<P, P>>>>,
   <<"sibling-before", <<Body, P>>>>, <<"comment-before", <<Comment, P>>>>}
  \cup {<<v[1], <<v[2]>>>> : v \in Mut(P, "")}
(* thorough tier: two changes at once, for the payloads whose tree is small *)
Top2(P) == LET M == Mut(P, "") IN
           IF Quick \/ Cardinality(M) > 40 THEN {}
           ELSE UNION {{<<v[1] \o "+" \o w[1], <<w[2]>>>> : w \in Mut(v[2], "")} : v \in M}
TopFew(P) == {<<"expected", <<P>>>>, <<"textonly", <<Txt>>>>, <<"text-before", <<Txt, P>>>>,
              <<":empty", <<[P EXCEPT !.a = <<>>, !.c = <<>>]>>>>}

(* ----- expected payloads ----- *)
Delay == E("delay", DELAY, <<A("stamp", "2020-01-01T00:00:00Z"), A("from", "example.net")>>, <<>>)
FwdMsg == E("message", "jabber:client", <<A("from", Peer), A("to", Own), A("type", "chat")>>, <<Body>>)
Forwarded == E("forwarded", FWD, <<>>, <<Delay, FwdMsg>>)
Form == E("x", XDATA, <<A("type", "result")>>,
          <<E("title", "", <<>>, <<X("t")>>),
            E("field", "", <<A("var", "FORM_TYPE"), A("type", "hidden")>>, <<E("value", "", <<>>, <<X("urn:vt:form")>>)>>),
            E("field", "", <<A("var", "v"), A("type", "text-single"), A("label", "l")>>,
              <<E("value", "", <<>>, <<X("1")>>), E("required", "", <<>>, <<>>)>>)>>)
RsmSet == E("set", RSM, <<>>, <<E("first", "", <<A("index", "0")>>, <<X("f")>>), E("last", "", <<>>, <<X("l")>>),
                               E("count", "", <<>>, <<X("1")>>)>>)
ErrEl == E("error", "", <<A("type", "cancel")>>,
           <<E("item-not-found", STANZAS, <<>>, <<>>), E("text", STANZAS, <<A("xml:lang", "en")>>, <<X("no")>>)>>)
Generic == E("query", VTQ, <<A("a", "1")>>, <<E("item", "", <<A("id", "1")>>, <<X("t")>>)>>)

P_ibb_open  == E("open", IBB, <<A("block-size", "4096"), A("sid", "s1"), A("stanza", "iq")>>, <<>>)
P_ibb_data  == E("data", IBB, <<A("seq", "0"), A("sid", "s1")>>, <<X("aGVsbG8=")>>)
P_ibb_close == E("close", IBB, <<A("sid", "s1")>>, <<>>)
P_hist      == E("result", MAM, <<A("queryid", "q1"), A("id", "a1")>>, <<Forwarded>>)
P_received  == E("received", RCPT, <<A("id", "r1")>>, <<>>)
P_request   == E("request", RCPT, <<>>, <<>>)
P_mucx      == E("x", MUCUSER, <<>>,
                 <<E("item", "", <<A("affiliation", "member"), A("role", "participant"), A("jid", Peer), A("nick", "me")>>, <<>>),
                   E("status", "", <<A("code", "110")>>, <<>>)>>)
P_mediated  == E("x", MUCUSER, <<>>,
                 <<E("invite", "", <<A("to", Own)>>,
                     <<E("reason", "", <<>>, <<X("come")>>), E("continue", "", <<A("thread", "t1")>>, <<>>)>>),
                   E("password", "", <<>>, <<X("pw")>>)>>)
P_direct    == E("x", CONF, <<A("jid", Room), A("password", "pw"), A("reason", "r"), A("continue", "true"), A("thread", "t1")>>, <<>>)
P_dinfo     == E("query", DINFO, <<A("node", "n1")>>, <<>>)
P_ditems    == E("query", DITEMS, <<A("node", "n1")>>, <<>>)
P_caps      == E("c", CAPS, <<A("hash", "sha-1"), A("node", "http://vt.example"), A("ver", "QgayPKawpkPSDYmwT/WM94uAlu0=")>>, <<>>)
P_roster    == E("query", ROSTER, <<A("ver", "v1")>>,
                 <<E("item", "", <<A("jid", "romeo@example.net"), A("name", "R"), A("subscription", "both")>>,
                     <<E("group", "", <<>>, <<X("Friends")>>)>>)>>)
P_blocklist == E("blocklist", BLOCK, <<>>, <<>>)
P_block     == E("block", BLOCK, <<>>,
                 <<E("item", "", <<A("jid", "romeo@example.net")>>,
                     <<E("report", REPORT, <<A("reason", "urn:xmpp:reporting:spam")>>,
                         <<E("stanza-id", SIDNS, <<A("by", "example.net"), A("id", "x1")>>, <<>>),
                           E("text", "", <<>>, <<X("t")>>)>>)>>)>>)
P_unblock   == E("unblock", BLOCK, <<>>, <<E("item", "", <<A("jid", "romeo@example.net")>>, <<>>)>>)
P_carbon(n) == E(n, CARBONS, <<>>, <<Forwarded>>)
P_time      == E("time", TIME, <<>>, <<>>)
P_version   == E("query", VERSION, <<>>, <<>>)
P_ping      == E("ping", PING, <<>>, <<>>)
P_bob       == E("data", BOB, <<A("cid", "sha1+8f35fef110ffc5df08d579a50083ff9308fb6242@bob.xmpp.org")>>, <<>>)
P_show      == E("show", "", <<>>, <<X("away")>>)

(* ----- what is registered on the full multiplexer: (handler, kind, types, payload) ----- *)
(* types[1] gets every shape, the other registered types a few; "" = no type attribute     *)
Tg(name, fam, kind, types, from, pl) == [name |-> name, fam |-> fam, kind |-> kind, types |-> types, from |-> from, pl |-> pl]
Targets == {
  Tg("ibb.open", "ibb", "iq", <<"set">>, Peer, P_ibb_open),
  Tg("ibb.data", "ibb", "iq", <<"set">>, Peer, P_ibb_data),
  Tg("ibb.close", "ibb", "iq", <<"set">>, Peer, P_ibb_close),
  Tg("ibb.msgdata", "ibb", "message", <<"", "normal">>, Peer, P_ibb_data),
  Tg("hist.result", "hist", "message", <<"", "normal">>, Peer, P_hist),
  Tg("rcpt.received", "rcpt", "message", <<"chat", "", "headline", "groupchat", "error">>, Peer, P_received),
  Tg("rcpt.request", "rcpt", "message", <<"chat", "", "headline", "groupchat">>, Peer, P_request),
  Tg("muc.presence", "muc", "presence", <<"">>, RoomMe, P_mucx),
  Tg("muc.unavail", "muc", "presence", <<"unavailable">>, RoomMe, P_mucx),
  Tg("muc.mediated", "muc", "message", <<"", "normal">>, Room, P_mediated),
  Tg("muc.direct", "muc", "message", <<"", "normal">>, Peer, P_direct),
  Tg("disco.info", "disco", "iq", <<"get">>, Peer, P_dinfo),
  Tg("disco.items", "disco", "iq", <<"get">>, Peer, P_ditems),
  Tg("disco.caps", "disco", "presence", <<"">>, Peer, P_caps),
  Tg("roster.push", "roster", "iq", <<"set">>, OwnBare, P_roster),
  Tg("block.list", "block", "iq", <<"get">>, Peer, P_blocklist),
  Tg("block.block", "block", "iq", <<"set">>, Peer, P_block),
  Tg("block.unblock", "block", "iq", <<"set">>, Peer, P_unblock),
  Tg("carbons.received", "carbons", "message", <<"chat", "">>, OwnBare, P_carbon("received")),
  Tg("carbons.sent", "carbons", "message", <<"chat", "">>, OwnBare, P_carbon("sent")),
  Tg("xtime", "xtime", "iq", <<"get">>, Peer, P_time),
  Tg("version", "version", "iq", <<"get">>, Peer, P_version),
  Tg("ping", "ping", "iq", <<"get">>, Peer, P_ping),
  Tg("bob", "bob", "iq", <<"get">>, Peer, P_bob),
  (* nothing registered: the fall-back paths of the multiplexer and of the serve loop *)
  Tg("none.iq", "none", "iq", <<"get", "set", "result", "error">>, Peer, Generic),
  Tg("none.message", "none", "message", <<"chat", "", "error", "groupchat", "headline">>, Peer, Body),
  Tg("none.presence", "none", "presence", <<"", "unavailable", "subscribe", "error", "probe">>, Peer, P_show),
  Tg("none.other", "none", "other", <<"">>, Peer, Generic)
}
Families == {tg.fam : tg \in Targets}

StanzaAttrs(tg, ty) ==
  (IF ty = "" THEN <<>> ELSE <<A("type", ty)>>) \o
  <<A("id", IF tg.kind = "iq" THEN "i1" ELSE "m1"), A("from", tg.from), A("to", Own)>>
StName(tg) == IF tg.kind = "other" THEN "foreign" ELSE tg.kind
Stanza(tg, ty, kids) == E(StName(tg), IF tg.kind = "other" THEN VTQ ELSE "", StanzaAttrs(tg, ty), kids)

(* changes of the stanza's own attributes (around the expected payload) *)
StLevel(tg, ty) ==
  LET base == StanzaAttrs(tg, ty)
      Pos(n) == CHOOSE i \in 1..Len(base) : base[i][1] = n
      Drop(n) == DropAt(base, Pos(n))
      Put(n, v) == [base EXCEPT ![Pos(n)] = <<n, v>>]
  IN {<<"st-noid", Drop("id")>>, <<"st-emptyid", Put("id", "")>>, <<"st-nofrom", Drop("from")>>,
      <<"st-junkfrom", Put("from", "@/")>>, <<"st-ownfrom", Put("from", OwnBare)>>,
      <<"st-noto", Drop("to")>>, <<"st-junkto", Put("to", "@/")>>,
      <<"st-bogustype", (IF ty = "" THEN <<A("type", "bogus")>> \o base ELSE Put("type", "bogus"))>>}

Lab(tg, ty, shape) == tg.name \o "/" \o ty \o "#" \o shape
StanzasOf(tg) ==
  LET t1 == tg.types[1] IN
     {[lab |-> Lab(tg, t1, v[1]), fam |-> tg.fam, node |-> Stanza(tg, t1, v[2])] : v \in Top(tg.pl)}
  \cup {[lab |-> Lab(tg, t1, v[1]), fam |-> tg.fam,
         node |-> E(StName(tg), IF tg.kind = "other" THEN VTQ ELSE "", v[2], <<tg.pl>>)] : v \in StLevel(tg, t1)}
  \cup UNION {{[lab |-> Lab(tg, tg.types[i], v[1]), fam |-> tg.fam, node |-> Stanza(tg, tg.types[i], v[2])] :
                 v \in TopFew(tg.pl)} : i \in 2..Len(tg.types)}

(* ----- request helpers: what the peer answers ----- *)
(* kind of the reply stanza, expected payload of a result, paging = a second request      *)
(* follows an answer that carries a result-set element / an "executing" status            *)
Hp(name, kind, pl, errs, second) == [name |-> name, kind |-> kind, pl |-> pl, errs |-> errs, second |-> second]
Helpers == {
  Hp("core.UnmarshalIQ", "iq", Generic, "full", FALSE),
  Hp("core.UnmarshalIQ.nil", "iq", Generic, "few", FALSE),
  Hp("core.IterIQ", "iq", Generic, "full", FALSE),
  Hp("core.SendIQ", "iq", Generic, "full", FALSE),
  Hp("core.EncodeIQ", "iq", Generic, "few", FALSE),
  Hp("core.SendMessage", "message", ErrEl, "only", FALSE),
  Hp("core.SendPresence", "presence", ErrEl, "only", FALSE),
  Hp("ping.Send", "iq", P_ping, "full", FALSE),
  Hp("version.Get", "iq", E("query", VERSION, <<>>, <<E("name", "", <<>>, <<X("n")>>), E("version", "", <<>>, <<X("1")>>), E("os", "", <<>>, <<X("o")>>)>>), "few", FALSE),
  Hp("xtime.Get", "iq", E("time", TIME, <<>>, <<E("tzo", "", <<>>, <<X("+01:00")>>), E("utc", "", <<>>, <<X("2020-01-01T00:00:00Z")>>)>>), "few", FALSE),
  Hp("bin.Get", "iq", E("data", BOB, <<A("cid", "sha1+8f35fef110ffc5df08d579a50083ff9308fb6242@bob.xmpp.org"), A("max-age", "86400"), A("type", "text/plain")>>, <<X("aGVsbG8=")>>), "few", FALSE),
  Hp("upload.GetSlot", "iq", E("slot", UPLOAD, <<>>, <<E("put", "", <<A("url", "https://up.example/a")>>, <<E("header", "", <<A("name", "Authorization")>>, <<X("Basic x")>>)>>), E("get", "", <<A("url", "https://dl.example/a")>>, <<>>)>>), "few", FALSE),
  Hp("disco.GetInfo", "iq", E("query", DINFO, <<A("node", "n")>>, <<E("identity", "", <<A("category", "client"), A("type", "pc"), A("name", "n"), A("xml:lang", "en")>>, <<>>), E("feature", "", <<A("var", PING)>>, <<>>), Form>>), "few", FALSE),
  Hp("disco.FetchItems", "iq", E("query", DITEMS, <<>>, <<E("item", "", <<A("jid", "a.example"), A("node", "n1"), A("name", "N")>>, <<>>), RsmSet>>), "few", TRUE),
  Hp("disco.WalkItem", "iq", E("query", DITEMS, <<>>, <<E("item", "", <<A("jid", "a.example"), A("node", "n1"), A("name", "N")>>, <<>>), RsmSet>>), "few", TRUE),
  Hp("commands.Fetch", "iq", E("query", DITEMS, <<A("node", CMD)>>, <<E("item", "", <<A("jid", "a.example"), A("node", "n1"), A("name", "N")>>, <<>>), RsmSet>>), "few", TRUE),
  Hp("commands.Execute", "iq", E("command", CMD, <<A("node", "n"), A("sessionid", "s"), A("status", "executing")>>, <<E("actions", "", <<A("execute", "next")>>, <<E("next", "", <<>>, <<>>)>>), Form, E("note", "", <<A("type", "info")>>, <<X("t")>>)>>), "full", FALSE),
  Hp("commands.ForEach", "iq", E("command", CMD, <<A("node", "n"), A("sessionid", "s"), A("status", "executing")>>, <<E("actions", "", <<A("execute", "next")>>, <<E("next", "", <<>>, <<>>)>>), Form>>), "few", TRUE),
  Hp("history.Fetch", "iq", E("fin", MAM, <<A("complete", "true"), A("stable", "true")>>, <<RsmSet>>), "few", FALSE),
  Hp("roster.Fetch", "iq", P_roster, "few", FALSE),
  Hp("roster.Set", "iq", Generic, "few", FALSE),
  Hp("roster.Delete", "iq", Generic, "few", FALSE),
  Hp("pubsub.Fetch", "iq", E("pubsub", PUBSUB, <<>>, <<E("items", "", <<A("node", "n")>>, <<E("item", "", <<A("id", "i1")>>, <<Generic>>), RsmSet>>)>>), "full", FALSE),
  Hp("pubsub.Publish", "iq", E("pubsub", PUBSUB, <<>>, <<E("publish", "", <<A("node", "n")>>, <<E("item", "", <<A("id", "i1")>>, <<>>)>>)>>), "few", FALSE),
  Hp("pubsub.CreateNode", "iq", Generic, "few", FALSE),
  Hp("pubsub.GetConfig", "iq", E("pubsub", PSOWNER, <<>>, <<E("configure", "", <<A("node", "n")>>, <<Form>>)>>), "few", FALSE),
  Hp("pubsub.GetDefaultConfig", "iq", E("pubsub", PSOWNER, <<>>, <<E("default", "", <<>>, <<Form>>)>>), "few", FALSE),
  Hp("pubsub.SetConfig", "iq", Generic, "few", FALSE),
  Hp("pubsub.Delete", "iq", Generic, "few", FALSE),
  Hp("bookmarks.Fetch", "iq", E("pubsub", PUBSUB, <<>>, <<E("items", "", <<A("node", BOOKMARKS)>>, <<E("item", "", <<A("id", Room)>>, <<E("conference", BOOKMARKS, <<A("name", "r"), A("autojoin", "true")>>, <<E("nick", "", <<>>, <<X("me")>>), E("password", "", <<>>, <<X("pw")>>), E("extensions", "", <<>>, <<E("x", "urn:vt:ext", <<>>, <<>>)>>)>>)>>)>>)>>), "few", FALSE),
  Hp("bookmarks.Publish", "iq", E("pubsub", PUBSUB, <<>>, <<E("publish", "", <<A("node", BOOKMARKS)>>, <<E("item", "", <<A("id", Room)>>, <<>>)>>)>>), "few", FALSE),
  Hp("bookmarks.Delete", "iq", Generic, "few", FALSE),
  Hp("blocklist.Fetch", "iq", E("blocklist", BLOCK, <<>>, <<E("item", "", <<A("jid", "romeo@example.net")>>, <<>>)>>), "few", FALSE),
  Hp("blocklist.Add", "iq", Generic, "few", FALSE),
  Hp("blocklist.Remove", "iq", Generic, "few", FALSE),
  Hp("blocklist.Report", "iq", Generic, "few", FALSE),
  Hp("carbons.Enable", "iq", Generic, "few", FALSE),
  Hp("carbons.Disable", "iq", Generic, "few", FALSE),
  Hp("muc.GetConfig", "iq", E("query", MUCOWNER, <<>>, <<Form>>), "few", FALSE),
  Hp("muc.SetConfig", "iq", Generic, "few", FALSE),
  Hp("muc.Join", "presence", ErrEl, "only", FALSE),
  (* resource binding during stream negotiation (the helper runs its own negotiation) *)
  Hp("xmpp.BindResource", "iq", E("bind", "urn:ietf:params:xml:ns:xmpp-bind", <<>>, <<E("jid", "", <<>>, <<X(Own)>>)>>), "full", FALSE),
  Hp("ibb.Open", "iq", Generic, "few", FALSE),
  Hp("ibb.Write", "iq", Generic, "few", TRUE)
}

ReplyAttrs(ty) == <<A("type", ty), A("id", "$REQ"), A("from", Peer), A("to", Own)>>
Reply(h, ty, kids) == E(h.kind, "", ReplyAttrs(ty), kids)

ErrKids(h) ==
  LET few == {<<"err-absent", <<>>>>, <<"err-expected", <<ErrEl>>>>, <<"err-textonly", <<Txt>>>>,
              <<"err-text-before", <<Txt, ErrEl>>>>, <<"err-after-payload", <<h.pl, ErrEl>>>>,
              <<"err:empty", <<[ErrEl EXCEPT !.a = <<>>, !.c = <<>>]>>>>}
  IN IF h.errs = "few" THEN few ELSE few \cup {<<"err" \o v[1], <<v[2]>>>> : v \in Mut(ErrEl, "")}

(* one reply: [lab, node] *)
RepliesOf(h) ==
  LET R(l, n) == [lab |-> h.name \o "#" \o l, node |-> n] IN
     (IF h.errs = "only" THEN {} ELSE {R("result-" \o v[1], Reply(h, "result", v[2])) : v \in Top(h.pl)})
  \cup {R("error-" \o v[1], Reply(h, "error", v[2])) : v \in ErrKids(h)}
  \cup {R("st-otherid", E(h.kind, "", <<A("type", IF h.errs = "only" THEN "error" ELSE "result"), A("id", "zz9"), A("from", Peer)>>, <<>>)),
        R("st-nofrom", E(h.kind, "", <<A("type", "error"), A("id", "$REQ")>>, <<ErrEl>>)),
        R("st-junkfrom", E(h.kind, "", <<A("type", "error"), A("id", "$REQ"), A("from", "@/")>>, <<ErrEl>>)),
        R("st-junkto", E(h.kind, "", <<A("type", IF h.errs = "only" THEN "error" ELSE "result"), A("id", "$REQ"), A("from", Peer), A("to", "@/")>>, <<>>)),
        R("st-request", E(h.kind, "", <<A("type", IF h.kind = "iq" THEN "get" ELSE "chat"), A("id", "$REQ"), A("from", Peer)>>, <<h.pl>>))}

OkReply(h) == [lab |-> h.name \o "#ok", node |-> Reply(h, "result", IF h.name = "ibb.Write" THEN <<>> ELSE <<h.pl>>)]
SecondFew(h) == {r \in RepliesOf(h) : \E s \in {"#result-expected", "#result-absent", "#result-textonly", "#result-text-before",
                                                "#result-:empty", "#error-err-expected", "#error-err-absent", "#error-err-textonly"} :
                                        r.lab = h.name \o s}
(* reply scenarios: one shaped reply; for the paging helpers also a good first reply         *)
(* followed by a shaped second one, or by none (the peer ends the stream instead); the       *)
(* helpers whose reply is routed through a registered handler also with that handler in its  *)
(* default configuration (cfg "zero", see part 2)                                            *)
HandlerHelpers == {"muc.Join"}
(* sess / life: the identity of the served session and what the application does with it     *)
(* (part 2); these scenarios run on the usual one                                            *)
RepSc(c, x, lf, h, items) == [mode |-> "reply", cfg |-> c, sess |-> x, life |-> lf, helper |-> h.name, items |-> items]
UsualSess == [kind |-> "c2s", addr |-> "full"]
ReplyScenarios ==
  UNION {   {RepSc("listen", UsualSess, "fresh", h, <<r>>) : r \in RepliesOf(h)}
       \cup (IF h.name \in HandlerHelpers
             THEN {RepSc("zero", UsualSess, "fresh", h, <<r>>) : r \in RepliesOf(h)}
             ELSE {})
       \cup (IF h.second
             THEN {RepSc("listen", UsualSess, "fresh", h, <<OkReply(h), r>>) :
                      r \in (IF h.name = "ibb.Write" THEN RepliesOf(h) ELSE SecondFew(h))}
                  \cup {RepSc("listen", UsualSess, "fresh", h, <<OkReply(h)>>)}
             ELSE {}) : h \in Helpers}

---------------------------------------------------------------------------
(*                 PART 2 - handler-table state and the sequences                      *)

TargetNamed(n) == CHOOSE tg \in Targets : tg.name = n
HelperNamed(n) == CHOOSE h \in Helpers : h.name = n
Exp(n) == LET tg == TargetNamed(n) IN Lab(tg, tg.types[1], "expected")

(* stanzas that answer a request of the application made earlier in the sequence          *)
AckStanzas ==
     {[lab |-> "ack/result#absent", fam |-> "ibb", node |-> E("iq", "", ReplyAttrs("result"), <<>>)],
      [lab |-> "ack/error#expected", fam |-> "ibb", node |-> E("iq", "", ReplyAttrs("error"), <<ErrEl>>)]}
  \cup {[lab |-> "hist.fin/" \o r.lab, fam |-> "hist", node |-> r.node] : r \in RepliesOf(HelperNamed("history.Fetch"))}
  \cup {[lab |-> "muc.joinerr/" \o r.lab, fam |-> "muc", node |-> r.node] : r \in RepliesOf(HelperNamed("muc.Join"))}

(* input at the level of the stream itself (what it means is the business of C08; here it   *)
(* only must not panic or wedge)                                                            *)
StreamLevel ==
  LET R(l, nd) == [lab |-> "stream/#" \o l, fam |-> "none", node |-> nd] IN
  {R("whitespace", X(" ")), R("text", Txt), R("comment", Comment), R("pi", Raw("<?vt x?>")),
   R("cdata", Raw("<![CDATA[x]]>")), R("doctype", Raw("<!DOCTYPE x>")),
   R("error", E("stream:error", "", <<>>, <<E("host-unknown", "urn:ietf:params:xml:ns:xmpp-streams", <<>>, <<>>)>>)),
   R("error-empty", E("stream:error", "", <<>>, <<>>)),
   R("error-text", E("stream:error", "", <<>>, <<Txt>>)),
   R("features", E("stream:features", "", <<>>, <<E("bind", "urn:ietf:params:xml:ns:xmpp-bind", <<>>, <<>>)>>)),
   R("restart", Raw("<stream:stream xmlns='jabber:client' xmlns:stream='http://etherx.jabber.org/streams' version='1.0'>")),
   R("unknown-prefix", Raw("<vt:x/>")), R("end-tag", Raw("</iq>")), R("stray-lt", Raw("<")),
   R("bad-entity", Raw("<message>&nosuch;</message>")), R("attr-dup", Raw("<iq type='get' type='set' id='1'/>"))}

Alphabet == UNION {StanzasOf(tg) : tg \in Targets} \cup AckStanzas \cup StreamLevel
(* thorough tier only: the stanzas with two changes, sent alone *)
Alphabet2 == UNION {{[lab |-> Lab(tg, tg.types[1], v[1]), fam |-> tg.fam, node |-> Stanza(tg, tg.types[1], v[2])] :
                       v \in Top2(tg.pl)} : tg \in Targets}
Labels == {s.lab : s \in Alphabet}

(* ----- the configuration of the handler table -----                                     *)
(* What the application set on the handlers it registered on the multiplexer:              *)
(*  "listen"    every optional callback of every handler is set (receipts Unhandled, the   *)
(*              muc client's HandleInvite / HandleUserPresence, muc.HandleInvite's func,   *)
(*              blocklist Block / Unblock / UnblockAll / List, bin Get, xtime TimeFunc,    *)
(*              the inner handler of history), an IBB listener is installed;               *)
(*  "zero"      every handler in its default configuration (&receipts.Handler{},           *)
(*              &muc.Client{}, blocklist.Handler{}, ... : NO optional callback; only the   *)
(*              callbacks a handler cannot work without are set), an IBB listener is       *)
(*              installed;                                                                 *)
(*  "nolisten"  as "listen" without an IBB listener.                                       *)
Cfgs == {"listen", "zero", "nolisten"}
(* the configurations in which every table state of every handler can be reached *)
StateCfgs == {"listen", "zero"}

(* ----- the identity of the served session -----                                          *)
(* kind: how the session is made - "c2s" xmpp.NewSession with the application's own         *)
(* Negotiator, client namespace; "s2s" the same with the S2S bit and the server namespace;  *)
(* "rc2s" / "rs2s" xmpp.ReceiveSession (the local side is the receiving server);            *)
(* "ws" the library's negotiator with the WebSocket framing (websocket.NewSession); "comp"  *)
(* a component session (component.NewSession: handshake, namespace jabber:component:accept). *)
(* addr: the class of the session's local address - the origin given to the constructor     *)
(* and named by the "to" of the peer's stream header (received sessions: only the header    *)
(* names it): "full", "bare" (a client that has not bound a resource), "domain" (a server,  *)
(* a component), "empty": the zero address - NO origin was given and the peer's header has  *)
(* no "to" (a Negotiator that leaves the addresses alone, a received session whose peer     *)
(* names nobody, a server that omits "to" in its response header).                          *)
Kinds == {"c2s", "s2s", "rc2s", "rs2s", "ws", "comp"}
AddrClasses == {"full", "bare", "domain", "empty"}
LegitAddrs(k) == CASE k = "c2s" -> AddrClasses
                   [] k = "ws"  -> {"full", "bare", "empty"}
                   [] OTHER     -> {"domain", "empty"}        \* the local side is a server / a component
Sess(k, a) == [kind |-> k, addr |-> a]
Sessions == UNION {{Sess(k, a) : a \in LegitAddrs(k)} : k \in Kinds}
DefaultSess == Sess("c2s", "full")
(* the concrete addresses of a session of address class a *)
LocalOfAddr(a)  == CASE a = "full" -> Own [] a = "bare" -> OwnBare [] a = "domain" -> "example.net" [] OTHER -> ""
BareOfAddr(a)   == CASE a \in {"full", "bare"} -> OwnBare [] a = "domain" -> "example.net" [] OTHER -> ""
FullOfAddr(a)   == CASE a \in {"full", "bare"} -> Own [] a = "domain" -> "example.net/res" [] OTHER -> ""
DomainOfAddr(a) == IF a = "empty" THEN "" ELSE "example.net"
(* what the application has done with the session when / after the scenario's items arrive:  *)
(* "fresh" Serve is called once, right away; "closed" the application has called Close()     *)
(* before Serve; "again" when Serve has returned the application calls it a second time;     *)
(* "unserved" Serve is never called: a helper is called, then the application closes the     *)
(* session and cancels.                                                                      *)
Lives == {"fresh", "closed", "again", "unserved"}
Serves(lf) == CASE lf = "unserved" -> 0 [] lf = "again" -> 2 [] OTHER -> 1

(* ----- the addressing of a stanza on a session of address class a -----                   *)
(* from / to: absent, empty, the session's own bare / full / domain address, another        *)
(* entity, junk.  The own addresses of a session without an address are all empty: they     *)
(* coincide with the shape "empty" and are not listed twice.                                *)
NoAttr == "(none)"
OwnShapes(a) ==
     (IF BareOfAddr(a) # "" THEN {<<"ownbare", BareOfAddr(a)>>, <<"ownfull", FullOfAddr(a)>>} ELSE {})
  \cup (IF DomainOfAddr(a) # "" /\ DomainOfAddr(a) # BareOfAddr(a) THEN {<<"owndomain", DomainOfAddr(a)>>} ELSE {})
FromShapes(a, other) == {<<"none", NoAttr>>, <<"empty", "">>, <<"other", other>>, <<"junk", "@/">>} \cup OwnShapes(a)
ToShapes(a) == {<<"none", NoAttr>>, <<"empty", "">>, <<"other", "romeo@example.org/x">>, <<"junk", "@/">>} \cup OwnShapes(a)
(* the usual addressing on that session: sent by the entity the target names (the account    *)
(* itself becomes the session's own bare address), addressed to the session's full address;   *)
(* an address the session does not have is left out                                           *)
BaseFrom(tg, a) == LET v == (IF tg.from = OwnBare THEN BareOfAddr(a) ELSE tg.from) IN IF v = "" THEN NoAttr ELSE v
BaseTo(a) == IF FullOfAddr(a) = "" THEN NoAttr ELSE FullOfAddr(a)
OtherFrom(tg) == IF tg.from = OwnBare THEN Peer ELSE tg.from
AddrAttr(nm, v) == IF v = NoAttr THEN <<>> ELSE <<A(nm, v)>>
AddrStanza(tg, ty, f, t) ==
  E(StName(tg), IF tg.kind = "other" THEN VTQ ELSE "",
    (IF ty = "" THEN <<>> ELSE <<A("type", ty)>>) \o <<A("id", IF tg.kind = "iq" THEN "i1" ELSE "m1")>>
      \o AddrAttr("from", f) \o AddrAttr("to", t),
    <<tg.pl>>)
AdLab(tg, a, fs, ts) == tg.name \o "/" \o tg.types[1] \o "#ad-" \o a \o ":from-" \o fs \o ":to-" \o ts
(* every target with every from shape (usual to) and every to shape (usual from) ...          *)
(* (the usual from is always one of the from shapes: "other", "ownbare" or "none")            *)
AddrSingles(tg, a) ==
     {[lab |-> AdLab(tg, a, f[1], "base"), fam |-> tg.fam, node |-> AddrStanza(tg, tg.types[1], f[2], BaseTo(a))] :
         f \in FromShapes(a, OtherFrom(tg))}
  \cup {[lab |-> AdLab(tg, a, "base", t[1]), fam |-> tg.fam, node |-> AddrStanza(tg, tg.types[1], BaseFrom(tg, a), t[2])] :
         t \in ToShapes(a)}
(* ... and, for one target of each path of the serve loop (a registered and an unregistered   *)
(* request - the default reply is addressed to the sender -, a message, a presence), every    *)
(* from shape with every to shape                                                             *)
CrossTargets == {"ping", "none.iq", "none.message", "none.presence"}
AddrCross(tg, a) ==
  {[lab |-> AdLab(tg, a, f[1], t[1]), fam |-> tg.fam, node |-> AddrStanza(tg, tg.types[1], f[2], t[2])] :
      f \in FromShapes(a, OtherFrom(tg)), t \in ToShapes(a)}
AddrAlphabet(a, all) ==
  UNION {(IF all THEN AddrSingles(tg, a) ELSE {}) \cup (IF tg.name \in CrossTargets THEN AddrCross(tg, a) ELSE {}) : tg \in Targets}
(* the few every session gets: every target as usually addressed and without from *)
AddrFew(a) == UNION {{x \in AddrSingles(tg, a) : \E fs \in {"other", "none", "ownbare"} : x.lab = AdLab(tg, a, fs, "base")} : tg \in Targets}
(* the sessions with the client's way of making them get every target with every shape, the    *)
(* others the cross of the four paths and every target as usually addressed / without from /   *)
(* from the session's own address                                                              *)
SessAlphabetOf(x) == IF x.kind = "c2s" THEN AddrAlphabet(x.addr, TRUE) ELSE AddrAlphabet(x.addr, FALSE) \cup AddrFew(x.addr)
AddrLabelled == UNION {AddrAlphabet(a, TRUE) : a \in AddrClasses}

(* ----- the table states of the stateful handlers -----                                   *)
(* For IBB the state is (stream table entry, carrier, LOCAL state of the bytestream on     *)
(* the application's side): "open" / "mopen" = opened by the peer with the iq / message    *)
(* carrier, nothing written; "open1" / "mopen1" = one block received; "buffered" /         *)
(* "mbuffered" = the application has written fewer bytes than a block and has not flushed  *)
(* (they sit in the library's write buffer when the peer's next stanza arrives);           *)
(* "lclosed" = closed by the application; "closed" = closed by the peer.                   *)
TableStates(f) ==
  CASE f = "ibb"  -> {"none", "open", "open1", "buffered", "mopen", "mopen1", "mbuffered", "lclosed", "closed"}
    [] f = "hist" -> {"none", "tracked", "delivered", "done", "abandoned"}    \* abandoned: the application closed the iterator before the query ended
    [] f = "rcpt" -> {"none", "pending", "acked"}
    [] f = "muc"  -> {"none", "joining", "joined", "leaving", "left"}
    [] OTHER      -> {"none"}
Stateful == {"ibb", "hist", "rcpt", "muc"}

(* the local state of the extension: bytes the application has written and not flushed *)
LocalStates == {"clean", "buffered"}
LocalOf(st) == IF st \in {"buffered", "mbuffered"} THEN "buffered" ELSE "clean"
Carriers == {"iq", "message"}
CarrierOf(st) == IF st \in {"mopen", "mopen1", "mbuffered"} THEN "message" ELSE "iq"
(* what an application action does to it (the run protocol of part 3 tracks it) *)
LocAfter(act, loc) ==
  CASE act = "app:ibb_write"  -> "buffered"
    [] act = "app:ibb_lclose" -> "clean"          \* Close flushes
    [] OTHER                  -> loc

(* the open request of the peer that asks for the message carrier *)
OpenMsg == Lab(TargetNamed("ibb.open"), "set", ":attr-other-stanza")

(* setup steps: [items (labels, in order), from (states in which the step makes sense), to] *)
Step(items, from, to) == [items |-> items, from |-> from, to |-> to]
SetupSteps(f) ==
  CASE f = "ibb" ->
         {Step(<<Exp("ibb.open")>>, {"none", "closed"}, "open"),
          Step(<<OpenMsg>>, {"none", "closed"}, "mopen"),
          Step(<<Exp("ibb.data")>>, {"open"}, "open1"),
          Step(<<Exp("ibb.msgdata")>>, {"mopen"}, "mopen1"),
          Step(<<"app:ibb_write">>, {"open", "open1"}, "buffered"),
          Step(<<"app:ibb_write">>, {"mopen", "mopen1"}, "mbuffered"),
          Step(<<"app:ibb_lclose", "ack/result#absent">>, {"open", "open1", "mopen", "mopen1"}, "lclosed"),
          Step(<<Exp("ibb.close")>>, {"open", "open1", "buffered", "mopen", "mopen1", "mbuffered", "lclosed"}, "closed")}
    [] f = "hist" ->
         {Step(<<"app:hist_fetch">>, {"none"}, "tracked"),
          Step(<<Exp("hist.result")>>, {"tracked"}, "delivered"),
          Step(<<"hist.fin/history.Fetch#result-expected">>, {"tracked", "delivered"}, "done"),
          Step(<<"app:hist_abandon">>, {"none"}, "abandoned")}
    [] f = "rcpt" ->
         {Step(<<"app:rcpt_send">>, {"none"}, "pending"),
          Step(<<Exp("rcpt.received")>>, {"pending"}, "acked")}
    [] f = "muc" ->
         {Step(<<"app:muc_join">>, {"none", "left"}, "joining"),
          Step(<<Exp("muc.presence")>>, {"joining"}, "joined"),
          Step(<<Exp("muc.unavail")>>, {"joined"}, "left"),
          Step(<<"app:muc_leave">>, {"joined"}, "leaving")}
    [] OTHER -> {}

(* all setups of at most n steps (a step applies only in its from-states): pairs      *)
(* <<items, state reached>>                                                          *)
RECURSIVE SetupsOK(_, _)
SetupsOK(f, n) ==
  IF n = 0 THEN {<<<<>>, "none">>}
  ELSE LET S == SetupsOK(f, n - 1)
       IN S \cup UNION {{<<x[1] \o st.items, st.to>> : st \in {s \in SetupSteps(f) : x[2] \in s.from}} : x \in S}

Depth(f) == (IF f = "hist" \/ f = "muc" THEN 3 ELSE 2) + (IF Quick THEN 0 ELSE 1)
ReachedStates(f) == {x[2] : x \in SetupsOK(f, Depth(f))}
NonEmptySetups(f) == {y \in SetupsOK(f, Depth(f)) : y[1] # <<>>}

(* the probes of a family: every shape of every stanza addressed to its handler *)
Probes(f) == {s.lab : s \in {a \in Alphabet : a.fam = f}}

(* the helper call of the application that uses the same handler state (its table, its    *)
(* lock) as the peer's stanzas: it must still return after whatever the peer has sent     *)
FamCall(f) ==
  CASE f = "ibb"  -> <<"app:ibb_open">>
    [] f = "hist" -> <<"app:hist_fetch">>
    [] f = "rcpt" -> <<"app:rcpt_elem">>
    [] f = "muc"  -> <<"app:muc_join">>
    [] OTHER      -> <<>>
(* the trailer after a probe p: nothing, or the same item again and then the helper call  *)
Again(f, p) == <<p, p>> \o FamCall(f)

(* setup = the number of leading items that are the setup: the application actions among    *)
(* them must really establish the state the generator means (the driver reports whether they  *)
(* did; the trace specification requires it)                                                  *)
SeqSc(cfg, setup, items) == [mode |-> "seq", cfg |-> cfg, sess |-> DefaultSess, life |-> "fresh", setup |-> setup, items |-> items]
SingleLabels == Labels \ {x.lab : x \in AckStanzas}
Singles == {SeqSc(c, 0, <<l>>) : l \in SingleLabels, c \in StateCfgs}
NoListen == {SeqSc("nolisten", 0, <<l>>) : l \in {Exp("ibb.open"), Exp("ibb.data"), Exp("ibb.close"), Exp("ibb.msgdata")}}
(* every item twice in a row (unmatched both times in the empty table) + the helper call *)
Repeats == UNION {{SeqSc(c, 0, Again(f, l)) : l \in Probes(f) \cap SingleLabels, c \in StateCfgs} : f \in Families}
Stateful3 == UNION {{SeqSc(c, Len(x[1]), x[1] \o <<p>>) : x \in NonEmptySetups(f), p \in Probes(f), c \in StateCfgs} :
                    f \in Stateful}
(* the same in every table state; the quick tier keeps the families whose handler and     *)
(* helper share a lock-protected table with few probes (rcpt, ibb)                        *)
RepFamilies == Stateful
StatefulRep == UNION {{SeqSc(c, Len(x[1]), x[1] \o Again(f, p)) : x \in NonEmptySetups(f), p \in Probes(f), c \in StateCfgs} :
                      f \in RepFamilies}
(* after a stanza that a handler survived, the serve loop must still be usable *)
Pairs == {SeqSc("listen", 0, <<s.lab, Exp("ping")>>) :
            s \in {a \in Alphabet : a.lab # Exp("ping") /\      \* (ping, ping) is one of Repeats
                      (\E tg \in Targets : a.lab = Lab(tg, tg.types[1], "expected") \/ a.lab = Lab(tg, tg.types[1], ":empty"))}}
Singles2 == {SeqSc("listen", 0, <<s.lab>>) : s \in Alphabet2}
(* ----- the identity of the session crossed with the addressing of the stanzas -----          *)
SessSc(x, lf, c, items) == [mode |-> "seq", cfg |-> c, sess |-> x, life |-> lf, setup |-> 0, items |-> items]
(* the session without an address also with the default handlers *)
SessCfgs(x) == IF x = Sess("c2s", "empty") THEN StateCfgs ELSE {"listen"}
SessSingles == UNION {{SessSc(x, "fresh", c, <<st.lab>>) : st \in SessAlphabetOf(x), c \in SessCfgs(x)} : x \in Sessions}
(* what the application has done with the session: Close() before Serve, Serve called again    *)
(* after it returned - every registered stanza as expected and every stream-level input, on    *)
(* the usual session, the one without an address and one with the WebSocket framing            *)
LifeItems == {Exp(tg.name) : tg \in Targets} \cup {st.lab : st \in StreamLevel}
LifeSessions == {DefaultSess, Sess("c2s", "empty"), Sess("ws", "full")}
LifeSeqs == {SessSc(x, lf, "listen", <<l>>) : x \in LifeSessions, lf \in {"closed", "again"}, l \in LifeItems}
(* the replies to the core helpers (and to the one whose reply a handler routes) with every    *)
(* from shape, on every session                                                                *)
SessHelperNames == {"core.SendIQ", "core.UnmarshalIQ", "core.IterIQ", "core.SendMessage", "core.SendPresence", "ping.Send", "muc.Join"}
AddrReplies(h, a) ==
  {[lab |-> h.name \o "#ad-" \o a \o ":from-" \o f[1],
    node |-> E(h.kind, "", <<A("type", IF h.errs = "only" THEN "error" ELSE "result"), A("id", "$REQ")>>
                             \o AddrAttr("from", f[2]) \o AddrAttr("to", BaseTo(a)),
               IF h.errs = "only" THEN <<ErrEl>> ELSE <<h.pl>>)] : f \in FromShapes(a, Peer)}
SessReplies == UNION {UNION {{RepSc("listen", x, "fresh", h, <<r>>) : r \in AddrReplies(h, x.addr)} :
                               h \in {g \in Helpers : g.name \in SessHelperNames}} : x \in Sessions}
(* every helper on a session that nobody serves (the application then closes it and cancels)    *)
(* and on a session the application has closed                                                  *)
OwnPeerHelpers == {"xmpp.BindResource"}      \* negotiates a session of its own
LifeReplies ==
     {RepSc("listen", x, "unserved", h, <<>>) : h \in {g \in Helpers : g.name \notin OwnPeerHelpers}, x \in {DefaultSess, Sess("c2s", "empty")}}
  \cup {RepSc("listen", DefaultSess, "closed", h, <<OkReply(h)>>) : h \in {g \in Helpers : g.name \notin OwnPeerHelpers}}
SessReplyScenarios == SessReplies \cup LifeReplies
SeqScenarios == Singles \cup NoListen \cup Repeats \cup Stateful3 \cup StatefulRep \cup Pairs \cup SessSingles \cup LifeSeqs
PairsOf(f) == Cardinality(NonEmptySetups(f)) * Cardinality(Probes(f)) * Cardinality(StateCfgs)
RECURSIVE SumPairs(_)
SumPairs(F) == IF F = {} THEN 0 ELSE LET f == CHOOSE g \in F : TRUE IN PairsOf(f) + SumPairs(F \ {f})
(* the classes are pairwise disjoint (C09_ClassesDisjoint): tools enumerate them one by one  *)
(* instead of normalising the big union                                                      *)
SeqClasses == <<Singles, NoListen, Repeats, Stateful3, StatefulRep, Pairs, SessSingles, LifeSeqs>>
(* their number (the facts C09_EveryShapeInEveryState, C09_EveryConfigCrossed and               *)
(* C09_ClassesDisjoint establish the cardinalities used here)                                  *)
NSeqScenarios == 2 * Cardinality(SingleLabels) * Cardinality(StateCfgs) + Cardinality(NoListen)
                 + SumPairs(Stateful) + SumPairs(RepFamilies) + Cardinality(Pairs)
                 + Cardinality(SessSingles) + Cardinality(LifeSeqs)

(* design-level facts about the generator (checked by TLC as ASSUMEs of MCPeerInput)   *)
C09_EveryTableStateReachable == \A f \in Stateful : TableStates(f) \subseteq ReachedStates(f)
C09_LabelsUnique == Cardinality(Labels) = Cardinality(Alphabet)
AppNames == {"app:hist_fetch", "app:hist_abandon", "app:rcpt_send", "app:rcpt_elem", "app:muc_join", "app:muc_leave", "app:ibb_write",
             "app:ibb_lclose", "app:ibb_open"}
MaxItems == 7      \* the longest scenario (thorough tier: setup of 4 steps, a probe twice, a helper call)
(* the scenarios that vary what the application does with the session are short *)
MaxItemsOf(lf) == IF lf = "fresh" THEN MaxItems ELSE 2
(* every item of every sequence is a known stanza or application action: the sequences are    *)
(* built from single labels and probes (labels by definition), setups, helper calls, and the  *)
(* few hand-picked labels of NoListen / Pairs (the first item of a pair is a label of the      *)
(* alphabet by definition)                                                                    *)
SetupItems == UNION {UNION {{x[1][i] : i \in 1..Len(x[1])} : x \in SetupsOK(f, Depth(f))} : f \in Stateful}
C09_ItemsKnown ==
  /\ SetupItems \subseteq (Labels \cup AppNames)
  /\ \A f \in Stateful : \A x \in SetupsOK(f, Depth(f)) : Len(x[1]) + Len(Again(f, "p")) <= MaxItems
  /\ \A f \in Families : \A i \in 1..Len(FamCall(f)) : FamCall(f)[i] \in AppNames
  /\ {Exp("ping"), Exp("ibb.open"), Exp("ibb.data"), Exp("ibb.close"), Exp("ibb.msgdata")} \subseteq Labels
  /\ \A sc \in NoListen \cup Pairs : sc.items[Len(sc.items)] \in {Exp("ping"), Exp("ibb.open"), Exp("ibb.data"), Exp("ibb.close"), Exp("ibb.msgdata")}
  /\ StateCfgs \subseteq Cfgs
(* every (registered target, shape) pair occurs in a sequence, in every table state of its    *)
(* handler and in every configuration: the stateful part has exactly one scenario per         *)
(* (configuration, non-empty setup, probe) triple                                             *)
C09_EveryShapeInEveryState ==
  LET S3 == Stateful3 IN
  /\ Cardinality(S3) = SumPairs(Stateful)
  /\ \A sc \in S3 : sc.setup = Len(sc.items) - 1
  /\ \A f \in Stateful : LET P == Probes(f) IN
        \A tg \in {t \in Targets : t.fam = f} : \A v \in Top(tg.pl) : Lab(tg, tg.types[1], v[1]) \in P
(* the classes of scenarios are pairwise disjoint - Singles: one item, setup 0, state          *)
(* configurations; NoListen: configuration "nolisten"; Repeats: setup 0, the first two items   *)
(* equal; Pairs: two different items, setup 0; Stateful3 / StatefulRep: setup > 0, the item     *)
(* after the setup once / twice - and StatefulRep is complete for its families                 *)
C09_ClassesDisjoint ==
  LET SR == StatefulRep IN
  /\ \A sc \in Pairs : Len(sc.items) = 2 /\ sc.items[1] # sc.items[2]
  /\ Cardinality(SR) = SumPairs(RepFamilies)
  /\ \A sc \in SR : sc.setup > 0 /\ sc.setup <= Len(sc.items) - 2 /\ sc.items[sc.setup + 1] = sc.items[sc.setup + 2]
C09_EveryTargetCovered ==
  LET L == SingleLabels IN \A tg \in Targets : \A i \in 1..Len(tg.types) : Lab(tg, tg.types[i], "expected") \in L
(* the handler configuration is crossed with the whole grammar: every item alone, and twice   *)
(* in a row followed by the helper call of its handler, in every configuration                *)
C09_EveryConfigCrossed ==
  LET N == Cardinality(SingleLabels) * Cardinality(StateCfgs)
      R == Repeats
  IN /\ Cardinality(Singles) = N
     /\ Cardinality(R) = N
     /\ \A sc \in R : Len(sc.items) >= 2 /\ sc.items[1] = sc.items[2]
     /\ \A f \in Stateful : FamCall(f) # <<>>
(* the local state of the extension is crossed with the peer's input: for both carriers a     *)
(* setup reaches the bytestream with unflushed bytes, every probe of the handler follows it   *)
(* (close, data, error and every other shape: Stateful3 has one scenario per setup, probe     *)
(* and configuration, see C09_EveryShapeInEveryState), and the local state the run protocol derives *)
(* from the application actions of a setup is the one of the table state it reaches           *)
RECURSIVE LocFold(_, _)
LocFold(items, loc) == IF items = <<>> THEN loc ELSE LocFold(Tail(items), LocAfter(Head(items), loc))
C09_LocalStateCrossed ==
  /\ \A car \in Carriers : \E x \in NonEmptySetups("ibb") : CarrierOf(x[2]) = car /\ LocalOf(x[2]) = "buffered"
  /\ {Exp("ibb.close"), Exp("ibb.data"), Exp("ibb.msgdata"), "ack/error#expected"} \subseteq Probes("ibb")
  /\ \A x \in SetupsOK("ibb", Depth("ibb")) :
        (x[2] # "closed" => LocFold(x[1], "clean") = LocalOf(x[2]))

(* the identity of the session is crossed with the addressing of the stanzas: every kind of   *)
(* session exists without a local address; on every session every target is sent as usually   *)
(* addressed, without from and (where the session has an address) from the session itself;      *)
(* on every session every from shape meets every to shape on each path of the serve loop; on    *)
(* the sessions a client makes every target gets every from shape and every to shape; the       *)
(* shapes of a session without an address do not repeat the empty one; the labels are unique    *)
(* and apart from the other ones; every life of a session occurs                                *)
(* (TLC evaluates a LET definition anew at every use: the facts are stated as inclusions        *)
(* between sets that are each built once)                                                       *)
SessLabels(x) == {st.lab : st \in SessAlphabetOf(x)}
SessCrossed(x) ==
  LET a == x.addr
      F == FromShapes(a, Peer)
      T == ToShapes(a)
  IN    {AdLab(tg, a, fs, "base") : tg \in Targets, fs \in {"none", "other"} \cup (IF a = "empty" THEN {} ELSE {"ownbare"})}
   \cup (IF x.kind = "c2s" THEN {AdLab(tg, a, f[1], "base") : tg \in Targets, f \in F} \cup {AdLab(tg, a, "base", t[1]) : tg \in Targets, t \in T}
         ELSE {})
   \cup {AdLab(TargetNamed(nm), a, f[1], t[1]) : nm \in CrossTargets, f \in F, t \in T}
RECURSIVE SumSess(_)
SumSess(SS) == IF SS = {} THEN 0 ELSE LET x == CHOOSE y \in SS : TRUE IN
                                     Cardinality(SessAlphabetOf(x)) * Cardinality(SessCfgs(x)) + SumSess(SS \ {x})
C09_EverySessionCrossed ==
  /\ DefaultSess \in Sessions /\ UsualSess = DefaultSess
  /\ \A k \in Kinds : Sess(k, "empty") \in Sessions /\ \E a \in LegitAddrs(k) : a # "empty"
  /\ \A x \in Sessions : SessCrossed(x) \subseteq SessLabels(x)
  /\ Cardinality(SessSingles) = SumSess(Sessions)
  /\ OwnShapes("empty") = {} /\ \A a \in AddrClasses \ {"empty"} : Cardinality(OwnShapes(a)) >= 2
  /\ \A a \in AddrClasses : \A f \in FromShapes(a, Peer) \cup ToShapes(a) : f[1] \in {"none", "empty"} \/ f[2] \notin {"", NoAttr}
  /\ Cardinality({st.lab : st \in AddrLabelled}) = Cardinality(AddrLabelled)
  /\ {st.lab : st \in AddrLabelled} \cap Labels = {}
  /\ {sc.life : sc \in LifeSeqs \cup LifeReplies} = Lives \ {"fresh"}
  /\ \A sc \in LifeSeqs : Len(sc.items) <= MaxItemsOf(sc.life)
  /\ \A sc \in SessReplyScenarios : sc.sess \in Sessions /\ sc.life \in Lives /\ Len(sc.items) <= MaxItemsOf(sc.life)

---------------------------------------------------------------------------
(*                         PART 3 - the run protocol                                   *)
(* One scenario: n items (stanzas fed by the peer, calls started by the application);  *)
(* the library's serve loop consumes them one by one.                                  *)

VARIABLES n,          \* number of items of the scenario
          cfg,        \* the configuration of the handler table of the served session
          life,       \* what the application does with the session (Lives)
          pos,        \* items handed to the library so far
          eof,        \* the peer ended the input
          served,     \* "idle" (Serve not called yet) | "running" | "returned"
          nserve,     \* calls of Serve so far
          outclosed,  \* the application has called Close()
          ncalls,     \* application calls / helpers started
          nret,       \* of which returned
          loc,        \* local state of the extension: written, unflushed bytes of the application
          cancelled   \* the application cancelled the contexts of its pending calls
vars == <<n, cfg, life, pos, eof, served, nserve, outclosed, ncalls, nret, loc, cancelled>>
(* The kind of the session and the class of its local address (Sessions) are constants of a   *)
(* run that no step of the protocol depends on - the obligations are the same on every        *)
(* session -: the trace specification checks them on the reset line and against what the       *)
(* driver observes on the real session.                                                        *)

Acts == AppNames \cup {"helper"}
Init == /\ life \in Lives /\ n \in 0..MaxItemsOf(life) /\ cfg \in Cfgs /\ pos = 0 /\ eof = FALSE /\ served = "idle"
        /\ nserve = 0 /\ outclosed = FALSE /\ ncalls = 0 /\ nret = 0 /\ loc = "clean" /\ cancelled = FALSE

(* environment: the application calls Serve - for the first time (in the life "closed": after  *)
(* it has closed the session) or, in the life "again", once more after Serve has returned      *)
ServeStart ==
  /\ served \in {"idle", "returned"} /\ nserve < Serves(life) /\ ~cancelled
  /\ (life = "closed" => outclosed)
  /\ served' = "running" /\ nserve' = nserve + 1
  /\ UNCHANGED <<n, cfg, life, pos, eof, outclosed, ncalls, nret, loc, cancelled>>
(* environment + library: the application calls Close() on a session that is not being served  *)
(* (before Serve in the life "closed"; instead of ever serving it in the life "unserved");     *)
(* Close returns nil or an error                                                               *)
LocalClose(out) ==
  /\ life \in {"closed", "unserved"} /\ served = "idle" /\ ~outclosed /\ out \in {"nil", "error"}
  /\ outclosed' = TRUE
  /\ UNCHANGED <<n, cfg, life, pos, eof, served, nserve, ncalls, nret, loc, cancelled>>
(* environment: the peer sends the next stanza once the library asks for input *)
Feed(i, cut) ==
  /\ served = "running" /\ ~eof /\ i = pos + 1 /\ i <= n
  /\ pos' = (IF cut THEN n ELSE i)
  /\ UNCHANGED <<n, cfg, life, eof, served, nserve, outclosed, ncalls, nret, loc, cancelled>>
(* environment: the application starts a call (item i of a sequence, or the helper i = 0); *)
(* what it leaves in the extension's local state is part of the state the peer's next      *)
(* stanza meets.  On a session nobody serves the helper is called all the same.            *)
AppStart(i, act) ==
  /\ \/ served = "running" /\ ~eof
     \/ life = "unserved" /\ ~outclosed /\ ~cancelled
  /\ act \in Acts
  /\ \/ i = pos + 1 /\ i <= n /\ pos' = i /\ act # "helper" /\ served = "running"
     \/ i = 0 /\ ncalls = 0 /\ pos' = pos /\ act = "helper"
  /\ ncalls' = ncalls + 1
  /\ loc' = LocAfter(act, loc)
  /\ UNCHANGED <<n, cfg, life, eof, served, nserve, outclosed, nret, cancelled>>
(* environment: the peer ends the stream (after its last item, or earlier: a cut)      *)
Eof == /\ served = "running" /\ ~eof /\ eof' = TRUE
       /\ UNCHANGED <<n, cfg, life, pos, served, nserve, outclosed, ncalls, nret, loc, cancelled>>
(* library: Serve returns - at any time with an error (the property allows it to give  *)
(* up on any input), and it MUST return once the input ended - on every session, in    *)
(* every configuration of the handler table, whatever the local state of the extension *)
(* is, whether the application has closed the session before and whether it is the     *)
(* first call of Serve or the second                                                   *)
ServeReturn(out) ==
  /\ served = "running" /\ out \in {"nil", "error"}
  /\ served' = "returned"
  /\ UNCHANGED <<n, cfg, life, pos, eof, nserve, outclosed, ncalls, nret, loc, cancelled>>
(* the application is done with the session: every call of Serve it makes has returned, *)
(* or it has closed the session it never served                                         *)
SessionGone == /\ served # "running" /\ nserve = Serves(life)
               /\ (life = "unserved" => outclosed)
(* environment: with the session gone the application cancels what is still pending   *)
Cancel == /\ SessionGone /\ ~cancelled /\ cancelled' = TRUE
          /\ UNCHANGED <<n, cfg, life, pos, eof, served, nserve, outclosed, ncalls, nret, loc>>
(* library: a call returns a value or an error - at any time, and it MUST return once  *)
(* its context is cancelled                                                            *)
CallReturn(k, out) ==
  /\ k = nret + 1 /\ k <= ncalls /\ out \in {"value", "error"}
  /\ nret' = k
  /\ UNCHANGED <<n, cfg, life, pos, eof, served, nserve, outclosed, ncalls, loc, cancelled>>
Quiescent == SessionGone /\ nret = ncalls

Next == \/ \E i \in 0..MaxItems : \E cut \in BOOLEAN : Feed(i, cut)
        \/ \E i \in 0..MaxItems : \E a \in Acts : AppStart(i, a)
        \/ Eof \/ Cancel \/ ServeStart
        \/ \E o \in {"nil", "error"} : LocalClose(o)
        \/ \E o \in {"nil", "error"} : ServeReturn(o)
        \/ \E k \in 1..(MaxItems + 1) : \E o \in {"value", "error"} : CallReturn(k, o)

(* what the library owes: *)
LibServe == (eof /\ \E o \in {"nil", "error"} : ServeReturn(o))
LibCalls == (cancelled /\ \E k \in 1..(MaxItems + 1) : \E o \in {"value", "error"} : CallReturn(k, o))
(* what the environment does in every scenario the driver runs: the application calls Serve   *)
(* as often as its life says, closes the session where its life says so (Close returns), the   *)
(* peer ends the input, the application cancels when the session is gone                       *)
EnvServes == ServeStart
EnvCloses == \E o \in {"nil", "error"} : LocalClose(o)
EnvEnds == Eof \/ Cancel

Spec == Init /\ [][Next]_vars /\ WF_vars(LibServe) /\ WF_vars(LibCalls) /\ WF_vars(EnvEnds)
             /\ WF_vars(EnvServes) /\ WF_vars(EnvCloses)

TypeOK == /\ life \in Lives /\ n \in 0..MaxItemsOf(life) /\ cfg \in Cfgs /\ pos \in 0..n /\ eof \in BOOLEAN
          /\ served \in {"idle", "running", "returned"} /\ nserve \in 0..Serves(life) /\ outclosed \in BOOLEAN
          /\ ncalls \in 0..(MaxItems + 1) /\ nret \in 0..ncalls /\ loc \in LocalStates /\ cancelled \in BOOLEAN
          /\ (served = "idle" <=> nserve = 0)
(* nothing is handed to a serve loop that is not running; an application whose session is      *)
(* gone starts nothing                                                                         *)
C09_NoFeedAfterReturn == [][served # "running" => pos' = pos /\ (life # "unserved" => ncalls' = ncalls)]_vars
C09_Terminates == <>[]Quiescent
(* the application's calls of Serve happen one after the other, never more often than its life *)
(* says, and a session is closed locally only while nobody serves it                           *)
C09_ServeSequential == [][nserve' # nserve => served # "running" /\ served' = "running" /\ nserve' = nserve + 1]_vars
(* NoPanic has no state formula of its own: the outcome alphabets of ServeReturn and    *)
(* CallReturn do not contain PANIC or STALL, so a trace with such an outcome is not a   *)
(* behaviour of this specification (TrPeerInput rejects it at that event).              *)
C09_NoPanic == served \in {"idle", "running", "returned"}
=============================================================================
