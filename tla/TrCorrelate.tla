---------------------------- MODULE TrCorrelate ----------------------------
(* Trace validation of recorded schedules of real correlated requests          *)
(* (harness/cmd/correlate) against Correlate.                                  *)
EXTENDS Correlate, Json

Trace == ndJsonDeserialize("trace.ndjson")
VARIABLES l, t0
tvars == <<vars, l, t0>>
Starts == {i \in 1..Len(Trace) : Trace[i].ev = "reset"}
EndOf(i) == Trace[i].end
IsEv(e) == l < EndOf(t0) /\ Trace[l].ev = e /\ l' = l + 1
IsHook(pt) == IsEv("hook") /\ Trace[l].point = pt

TInit ==
  /\ t0 \in Starts /\ l = t0
  /\ rpc = [i \in Reqs |-> "off"] /\ outcome = [i \in Reqs |-> None]
  /\ table = {} /\ cancelled = {} /\ spc = "read" /\ cur = NoItem /\ owner = None
  /\ inbox = <<>> /\ npeer = 0 /\ delivered = [i \in Reqs |-> <<>>] /\ handled = <<>> /\ dropped = <<>>
  /\ misrouted = <<>> /\ skind = Trace[t0].skind

ToSet(s) == {s[i] : i \in 1..Len(s)}
TrReset ==
  /\ l = t0 /\ IsEv("reset")
  /\ rpc' = [i \in Reqs |-> IF i \in ToSet(Trace[l].reqs) THEN "idle" ELSE "off"]
  /\ skind \in SessionKinds
  /\ UNCHANGED <<outcome, table, cancelled, spc, cur, owner, inbox, npeer, delivered, handled, dropped, misrouted, skind>>

Item(x) == [id |-> IF x.id \in Reqs THEN x.id ELSE Unknown, kind |-> x.kind, resp |-> x.resp, q |-> x.q]

TrPeer == IsEv("peer") /\ Trace[l].item.q \in {"default", "explicit"} /\ PeerSend(Item(Trace[l].item))
TrCancel == IsEv("cancel") /\ Cancel(Trace[l].i)
TrRegistered == IsHook("resp.registered") /\ Register(Trace[l].id)
TrSent == IsHook("resp.sent") /\ Send(Trace[l].id, TRUE)
TrWoke ==     \* the requester's select resolved: by the hand-off (already taken) or by its context
  /\ IsHook("resp.woke")
  /\ LET i == Trace[l].id IN
     \/ rpc[i] = "got" /\ UNCHANGED vars
     \/ CtxDone(i)
TrDeregistered ==
  /\ IsHook("resp.deregistered")
  /\ LET i == Trace[l].id IN
     \/ Deregister(i)
     \/ /\ rpc[i] = "registered"           \* the send failed (no resp.sent): Send(i, FALSE) . Deregister(i)
        /\ table' = table \ {i}
        /\ outcome' = [outcome EXCEPT ![i] = "senderr"]
        /\ rpc' = [rpc EXCEPT ![i] = "finished"]
        /\ UNCHANGED <<cancelled, spc, cur, owner, inbox, npeer, delivered, handled, dropped, misrouted, skind>>
TrRet ==      \* the call returned to its caller
  /\ IsEv("ret")
  /\ LET i == Trace[l].i IN
     /\ outcome[i] = Trace[l].outcome
     /\ (Trace[l].outcome = "reply" => /\ Trace[l].rid = i /\ Trace[l].rkind = KindOf[i])
     /\ UNCHANGED vars
TrCloseResp == IsEv("closeresp") /\ CloseResp(Trace[l].i)
TrLookup == IsHook("serve.lookup") /\ Lookup /\ (cur.id = Trace[l].id \/ (cur.id = Unknown /\ Trace[l].id \notin Reqs))
TrHandoffPoint == IsHook("serve.handoff") /\ spc = "offer" /\ UNCHANGED vars
TrHanded == IsHook("serve.handed") /\ spc = "handed" /\ UNCHANGED vars
TrCtxDone == IsHook("serve.ctxdone") /\ (CtxSkip \/ GoneSkip)
(* the serve loop goes on after a hand-off: only once the requester has closed the response *)
(* it was handed (AwaitClose, silent, has been taken), whatever happened to its context      *)
TrResume ==
  /\ IsHook("serve.resume")
  /\ (IF Trace[l].id \in Reqs THEN rpc[Trace[l].id] = "finished" ELSE FALSE)
  /\ UNCHANGED vars
TrHandler ==
  /\ IsEv("handler") /\ Handle
  /\ cur.kind = Trace[l].kind /\ cur.resp = Trace[l].resp
  /\ (cur.id = Trace[l].id \/ (cur.id = Unknown /\ Trace[l].id \notin Reqs))
TrOtherHook == IsEv("hook") /\ Trace[l].point \notin {"resp.registered", "resp.sent", "resp.woke", "resp.deregistered",
                  "serve.lookup", "serve.handoff", "serve.handed", "serve.ctxdone", "serve.resume"} /\ UNCHANGED vars
TrServeRet == IsEv("serve_ret") /\ UNCHANGED vars
(* end of the run: the serve loop is not in the middle of a response, every call returned *)
TrEnd ==
  /\ IsEv("end") /\ spc = "read" /\ cur = NoItem
  /\ \A i \in Reqs : rpc[i] \in {"off", "finished"}
  /\ UNCHANGED vars
(* C07 as seen from this family: every get/set iq the handler was given (the recording    *)
(* handler writes nothing) got exactly one reply on the wire, also when its id collides     *)
(* with a pending request of our own                                                        *)
Gets(id) == Cardinality({k \in 1..Len(handled) : handled[k].kind = "iq" /\ ~handled[k].resp
                                                   /\ (handled[k].id = id \/ (handled[k].id = Unknown /\ id \notin Reqs))})
TrReplies ==
  /\ IsEv("replies")
  /\ \A k \in 1..Len(Trace[l].items) : Trace[l].items[k].n = Gets(Trace[l].items[k].id)
  /\ UNCHANGED vars
TrSendFail == IsEv("sendfail") /\ Send(Trace[l].i, FALSE)

Silent ==
  /\ \/ ReadStart \/ Handoff \/ AwaitClose
     \/ \E i \in ToSet(Trace[t0].autoclose) : CloseResp(i)   \* helpers that close the response themselves
     \/ \E i \in Reqs : Send(i, FALSE)                        \* a failed send leaves no event of its own
  /\ UNCHANGED l

Inv == /\ C06_OwnReplyOnly /\ C06_AtMostOneReply /\ C06_OutcomeConsistent /\ C06_UnclaimedToHandler /\ C06_TableClean
       /\ C06_WaitedForToCaller /\ C06_HeldUntilClosed

TNext ==
  /\ l < EndOf(t0)
  /\ \/ TrReset \/ TrPeer \/ TrCancel \/ TrRegistered \/ TrSent \/ TrWoke \/ TrDeregistered \/ TrRet
     \/ TrCloseResp \/ TrLookup \/ TrHandoffPoint \/ TrHanded \/ TrCtxDone \/ TrResume \/ TrHandler
     \/ TrOtherHook \/ TrServeRet \/ TrSendFail \/ TrReplies \/ TrEnd \/ Silent
  /\ UNCHANGED t0
  /\ Inv'

TSpec == TInit /\ [][TNext]_tvars
HW == TLCSet(t0, IF TLCGet(t0) < l THEN l ELSE TLCGet(t0))
Rejected == {i \in Starts : TLCGet(i) # EndOf(i)}
Accepted ==
  \/ Rejected = {}
  \/ PrintT(<<"REJECTED", {<<Trace[i].t, TLCGet(i)>> : i \in Rejected}>>) /\ FALSE
ASSUME \A i \in Starts : TLCSet(i, 0)
=============================================================================
