------------------------------ MODULE MCEscape ------------------------------
(* Design check of Escape.tla: the streaming machine over small inputs, every call sequence,  *)
(* plus the laws of the reference functions over the full alphabet.                           *)
EXTENDS Escape

CONSTANTS MCLen,       \* inputs: all strings over SubAlphabet up to this length
          LawLen       \* laws of the reference functions: all strings over Alphabet up to this length

(* \h1h2 forms with every pair of hex symbols, after 0..1 plain bytes *)
HexForms == {p \o <<Bs, h[1], h[2]>> : p \in {<<>>, <<Pg>>}, h \in {D2, D5, Lc, UC, D1, UD} \X {D0, Lc, UC, D1, Lb}}

MCInputs == StrsOf(SubAlphabet, MCLen) \cup HexForms
             \cup {<<Quot, Amp>>, <<Apos, Slash, Colon>>, <<Lt, Gt, Hi1, Hi2>>}

LawStrs == StrsOf(Alphabet, LawLen) \cup StrsOf(SubAlphabet, MCLen + 1)

ASSUME TablesConsistent
ASSUME C16_RoundTripOn(LawStrs)
ASSUME C16_NoDisallowedOn(LawStrs)
ASSUME C16_UnescOnlyDefinedOn(LawStrs)
ASSUME C16_FillerLawOn(StrsOf(SubAlphabet, 3) \cup HexForms, {Pg, Hi1}, 3)
ASSUME PrintT(<<"LAWS", Cardinality(LawStrs)>>)
=============================================================================
