------------------------------ MODULE IBBListen ------------------------------
(***************************************************************************)
(* The ACCEPTING side's rendezvous of in-band bytestreams (ibb/listen.go,   *)
(* handleOpen in ibb/ibb.go): Listener.Accept, Listener.Expect,             *)
(* Listener.Close against the serve loop that handles the peer's open       *)
(* requests.  IBB part of C06 (every Expect / Accept / Open call ends       *)
(* exactly once with its own outcome; a caller that went away or a          *)
(* rendezvous never stalls the serve loop; no panic) and the first clause   *)
(* of C15 (Open succeeds only when the peer accepted the session).          *)
(* IBB.tla models ONE session id and the byte pipe; this module models the  *)
(* hand-over of freshly opened sessions (several session ids, several       *)
(* callers) and nothing of the bytes.  Same style as Receipts.tla and the   *)
(* join / depart hand-off of MUC.tla.                                       *)
(*                                                                         *)
(* What the documentation of ibb/listen.go promises, and nothing more:      *)
(*   Accept  waits for the next incoming session; returns an error when the *)
(*           listener is closed.                                            *)
(*   Expect  like Accept for one (from, sid); takes precedence over Accept; *)
(*           a second Expect for the same session cancels the first (which  *)
(*           returns its context's error) and TAKES OVER.                   *)
(*   Close   stops listening; pending Accept calls return an error;         *)
(*           sessions already accepted are not closed.                      *)
(*   An open request without a listener is refused (not-acceptable).        *)
(*   An open request nobody is waiting for waits (in the serve loop) for    *)
(*   the next Accept: that wait is the only legitimate one of the serve     *)
(*   loop (WaitingForAcceptor).                                             *)
(*                                                                         *)
(* State: the expectation table `tab` (registered Expect calls, at most one *)
(* per key, each entry OWNED by the call that stored it), the requests on   *)
(* the wire `q`, the request the serve loop is handling (`hand`, `hst`).    *)
(* Steps that cannot be observed from outside (registration, the wake-up of *)
(* a cancelled call and its removal from the table, the lookup outcome, the *)
(* hand-over itself) are actions of their own: in recorded runs of the real *)
(* code they are silent and may happen at any time between the observable   *)
(* events around them.                                                      *)
(*                                                                         *)
(* Dev: named deviations (all off in the design check and in trace          *)
(* validation; each must make TLC report a property).                       *)
(*   ExpectDeletesForeignEntry  a cancelled Expect removes the table entry  *)
(*                              of its key without checking that the entry  *)
(*                              is still its own (it removes the entry of   *)
(*                              the call that took over)                    *)
(*   ExpectLeavesEntry          a cancelled Expect leaves its entry behind  *)
(*                              (a later open request is handed to nobody)  *)
(*   CloseClosesQueue           Close closes the accept queue while the     *)
(*                              serve loop is sending on it                 *)
(*   HandOverKeepsEntry         the serve loop does not consume the entry   *)
(*                              it hands a session to                       *)
(***************************************************************************)
EXTENDS Integers, Sequences, FiniteSets, TLC

CONSTANTS XCalls,    \* names of Expect calls
          ACalls,    \* names of Accept calls
          Opens,     \* names of Open calls of the peer
          Pings,     \* names of unrelated requests of the peer (they only need the serve loop)
          Dev

None == "-"
Calls == XCalls \cup ACalls
Reqs == Opens \cup Pings

VARIABLES
  lst,     \* the listener: "none" | "open" | "closing" (Close was called) | "closed" (Close returned)
  pc,      \* [Calls -> "idle" | "called" | "reg" (Expect: in the table, waiting) | "left" (Expect: woken by
           \*           its context, not returned yet) | "got" (was handed a session) | "done"]
  res,     \* [Calls -> None | "stream" | "ctx" | "closed"]
  key,     \* [XCalls \cup Opens -> the (from, sid) of the call | None]
  gotS,    \* [Calls -> the open request whose session the call was handed | None]
  ctxc,    \* calls and requests whose own context was cancelled
  sup,     \* Expect calls cancelled because another Expect took their key over
  tab,     \* the expectation table: the Expect calls that own an entry (at most one per key)
  cst,     \* [Reqs -> "idle" | "called" | "done"] the requesting call at the peer
  ores,    \* [Reqs -> None | "ok" | "err" | "ctx"]
  q,       \* requests on their way to the accepting side (FIFO)
  hand,    \* the request the serve loop is handling (None: it is reading)
  hst,     \* how far: None | "lookup" | "toacc" (nobody expected it at the lookup: it waits for an Accept) |
           \*          "refused" | "handed" | "dropped" | "other"
  rep,     \* [Reqs -> None | "result" | "error"] the reply seen on the wire
  given,   \* [Opens -> Nat] number of calls the session of this request was handed to
  dropped, \* open requests that were accepted while the listener was being closed: nobody gets the session
  viol     \* history: names of violated clauses

vars == <<lst, pc, res, key, gotS, ctxc, sup, tab, cst, ores, q, hand, hst, rep, given, dropped, viol>>

Init ==
  /\ lst \in {"none", "open"}
  /\ pc = [c \in Calls |-> "idle"] /\ res = [c \in Calls |-> None]
  /\ key = [c \in XCalls \cup Opens |-> None] /\ gotS = [c \in Calls |-> None]
  /\ ctxc = {} /\ sup = {} /\ tab = {}
  /\ cst = [r \in Reqs |-> "idle"] /\ ores = [r \in Reqs |-> None]
  /\ q = <<>> /\ hand = None /\ hst = None /\ rep = [r \in Reqs |-> None]
  /\ given = [o \in Opens |-> 0] /\ dropped = {} /\ viol = {}

Owner(k) == {x \in tab : key[x] = k}
AcceptWaiting == {a \in ACalls : pc[a] = "called"}
HKey == IF hand \in Opens THEN key[hand] ELSE None
(* the only legitimate wait of the serve loop: an open request, a listener, nobody expected the session *)
(* when the serve loop looked (an Expect that registers later does not get it), nobody is in Accept      *)
WaitingForAcceptor ==
  hand \in Opens /\ hst = "toacc" /\ lst = "open" /\ AcceptWaiting = {}

-----------------------------------------------------------------------------
(* Expect *)
ExpectCall(x, k) ==
  /\ pc[x] = "idle" /\ pc' = [pc EXCEPT ![x] = "called"] /\ key' = [key EXCEPT ![x] = k]
  /\ UNCHANGED <<lst, res, gotS, ctxc, sup, tab, cst, ores, q, hand, hst, rep, given, dropped, viol>>

(* the call stores its entry; an entry of another call for the same key is replaced and that call cancelled *)
CanRegister(x) == x \in XCalls /\ pc[x] = "called"
Register(x) ==
  /\ CanRegister(x)
  /\ pc' = [pc EXCEPT ![x] = "reg"]
  /\ tab' = (tab \ Owner(key[x])) \cup {x}
  /\ sup' = sup \cup (Owner(key[x]) \ {x})
  /\ UNCHANGED <<lst, res, key, gotS, ctxc, cst, ores, q, hand, hst, rep, given, dropped, viol>>

(* a waiting call is woken by its context (cancelled by its caller or by a take-over): it removes ITS OWN entry *)
CanWake(x) == x \in XCalls /\ pc[x] = "reg" /\ x \in ctxc \cup sup
Wake(x) ==
  /\ CanWake(x)
  /\ pc' = [pc EXCEPT ![x] = "left"]
  /\ tab' = IF "ExpectLeavesEntry" \in Dev THEN tab
            ELSE IF "ExpectDeletesForeignEntry" \in Dev THEN tab \ Owner(key[x])
            ELSE tab \ {x}
  /\ UNCHANGED <<lst, res, key, gotS, ctxc, sup, cst, ores, q, hand, hst, rep, given, dropped, viol>>

(* Expect returns: the session it was handed, or its context's error, or (nothing in the code does *)
(* that today, the documentation of Accept suggests it) an error because the listener is closed     *)
ExpectRet(x, out) ==
  /\ x \in XCalls
  /\ CASE out = "stream" -> pc[x] = "got"
       [] out = "ctx"    -> pc[x] = "left"
       [] out = "closed" -> pc[x] = "reg" /\ lst \in {"closing", "closed"}
       [] OTHER -> FALSE
  /\ pc' = [pc EXCEPT ![x] = "done"] /\ res' = [res EXCEPT ![x] = out]
  /\ tab' = IF out = "closed" THEN tab \ {x} ELSE tab
  /\ UNCHANGED <<lst, key, gotS, ctxc, sup, cst, ores, q, hand, hst, rep, given, dropped, viol>>

(* Accept *)
AcceptCall(a) ==
  /\ a \in ACalls /\ pc[a] = "idle" /\ lst # "none" /\ pc' = [pc EXCEPT ![a] = "called"]
  /\ UNCHANGED <<lst, res, key, gotS, ctxc, sup, tab, cst, ores, q, hand, hst, rep, given, dropped, viol>>
AcceptRet(a, out) ==
  /\ a \in ACalls
  /\ CASE out = "stream" -> pc[a] = "got"
       [] out = "closed" -> pc[a] = "called" /\ lst \in {"closing", "closed"}
       [] OTHER -> FALSE
  /\ pc' = [pc EXCEPT ![a] = "done"] /\ res' = [res EXCEPT ![a] = out]
  /\ UNCHANGED <<lst, key, gotS, ctxc, sup, tab, cst, ores, q, hand, hst, rep, given, dropped, viol>>

(* a caller goes away *)
Cancel(c) ==
  /\ ctxc' = ctxc \cup {c}
  /\ UNCHANGED <<lst, pc, res, key, gotS, sup, tab, cst, ores, q, hand, hst, rep, given, dropped, viol>>

(* Listener.Close *)
CloseCall ==
  /\ lst = "open" /\ lst' = "closing"
  /\ viol' = IF "CloseClosesQueue" \in Dev /\ hand \in Opens /\ hst = "toacc"
               THEN viol \cup {"C06_NoPanic"} ELSE viol
  /\ UNCHANGED <<pc, res, key, gotS, ctxc, sup, tab, cst, ores, q, hand, hst, rep, given, dropped>>
CloseRet ==
  /\ lst = "closing" /\ lst' = "closed"
  /\ UNCHANGED <<pc, res, key, gotS, ctxc, sup, tab, cst, ores, q, hand, hst, rep, given, dropped, viol>>

-----------------------------------------------------------------------------
(* The peer *)
ReqCall(r, k) ==
  /\ cst[r] = "idle" /\ cst' = [cst EXCEPT ![r] = "called"]
  /\ key' = IF r \in Opens THEN [key EXCEPT ![r] = k] ELSE key
  /\ UNCHANGED <<lst, pc, res, gotS, ctxc, sup, tab, ores, q, hand, hst, rep, given, dropped, viol>>
ReqWire(r) ==
  /\ cst[r] = "called" /\ rep[r] = None /\ hand # r /\ \A i \in 1..Len(q) : q[i] # r
  /\ q' = Append(q, r)
  /\ UNCHANGED <<lst, pc, res, key, gotS, ctxc, sup, tab, cst, ores, hand, hst, rep, given, dropped, viol>>
(* Open returns success only for a result, the stanza error for an error reply, or its context's error *)
ReqRet(r, out) ==
  /\ cst[r] = "called"
  /\ CASE out = "ok"  -> rep[r] = "result" \/ (r \in Pings /\ rep[r] # None)
       [] out = "err" -> rep[r] = "error" \/ (r \in Pings /\ rep[r] # None)
       [] out = "ctx" -> r \in ctxc
       [] OTHER -> FALSE
  /\ cst' = [cst EXCEPT ![r] = "done"] /\ ores' = [ores EXCEPT ![r] = out]
  /\ UNCHANGED <<lst, pc, res, key, gotS, ctxc, sup, tab, q, hand, hst, rep, given, dropped, viol>>

-----------------------------------------------------------------------------
(* The serve loop of the accepting side *)
Deliver(r) ==
  /\ hand = None /\ q # <<>> /\ Head(q) = r
  /\ q' = Tail(q) /\ hand' = r /\ hst' = IF r \in Opens THEN "lookup" ELSE "other"
  /\ UNCHANGED <<lst, pc, res, key, gotS, ctxc, sup, tab, cst, ores, rep, given, dropped, viol>>

(* no listener (any more): the request is refused *)
CanRefuse == hand \in Opens /\ hst = "lookup" /\ lst # "open"
Refuse ==
  /\ CanRefuse /\ hst' = "refused"
  /\ UNCHANGED <<lst, pc, res, key, gotS, ctxc, sup, tab, cst, ores, q, hand, rep, given, dropped, viol>>

(* the session is expected: it goes to the call that owns the entry, and the entry is consumed. *)
(* The hand-over needs the owner to be still waiting: a call that has left owns nothing.        *)
CanHandX(x) == hand \in Opens /\ hst = "lookup" /\ lst # "none" /\ x \in Owner(HKey) /\ pc[x] = "reg"
HandToExpect(x) ==
  /\ CanHandX(x)
  /\ pc' = [pc EXCEPT ![x] = "got"] /\ gotS' = [gotS EXCEPT ![x] = hand]
  /\ tab' = IF "HandOverKeepsEntry" \in Dev THEN tab ELSE tab \ {x}
  /\ given' = [given EXCEPT ![hand] = @ + 1] /\ hst' = "handed"
  /\ UNCHANGED <<lst, res, key, ctxc, sup, cst, ores, q, hand, rep, dropped, viol>>

(* nobody expects it (Expect takes precedence): it is for Accept.  The serve loop looks ONCE: an Expect *)
(* that registers while the session waits for an acceptor does not get it.  A waiting, live (not       *)
(* superseded) Expect call of that key at this moment means that its entry was lost.                   *)
CanToAcc == hand \in Opens /\ hst = "lookup" /\ lst # "none" /\ Owner(HKey) = {}
ToAcc ==
  /\ CanToAcc /\ hst' = "toacc"
  /\ viol' = IF \E x \in XCalls : pc[x] = "reg" /\ key[x] = HKey /\ x \notin sup
               THEN viol \cup {"C06_ExpectGetsItsSession"} ELSE viol
  /\ UNCHANGED <<lst, pc, res, key, gotS, ctxc, sup, tab, cst, ores, q, hand, rep, given, dropped>>

(* ... it goes to a call waiting in Accept *)
CanHandA(a) == hand \in Opens /\ hst = "toacc" /\ a \in AcceptWaiting
HandToAccept(a) ==
  /\ CanHandA(a)
  /\ pc' = [pc EXCEPT ![a] = "got"] /\ gotS' = [gotS EXCEPT ![a] = hand]
  /\ given' = [given EXCEPT ![hand] = @ + 1] /\ hst' = "handed"
  /\ UNCHANGED <<lst, res, key, ctxc, sup, tab, cst, ores, q, hand, rep, dropped, viol>>

(* the listener is closed while the session waits for an acceptor: the serve loop goes on; the request *)
(* was answered already (the result is written before the hand-over), nobody gets the session          *)
CanDrop == hand \in Opens /\ hst = "toacc" /\ lst \in {"closing", "closed"} /\ "CloseClosesQueue" \notin Dev
DropClosed ==
  /\ CanDrop /\ hst' = "dropped" /\ dropped' = dropped \cup {hand}
  /\ UNCHANGED <<lst, pc, res, key, gotS, ctxc, sup, tab, cst, ores, q, hand, rep, given, viol>>

(* the reply goes out when the handler returns; the serve loop reads on *)
CanReply == hand # None /\ hst \in {"refused", "handed", "dropped", "other"}
Reply(r, what) ==
  /\ hand = r /\ CanReply
  /\ CASE hst = "refused" -> what = "error"
       [] hst \in {"handed", "dropped"} -> what = "result"
       [] OTHER -> what \in {"result", "error"}
  /\ rep' = [rep EXCEPT ![r] = what] /\ hand' = None /\ hst' = None
  /\ UNCHANGED <<lst, pc, res, key, gotS, ctxc, sup, tab, cst, ores, q, given, dropped, viol>>

-----------------------------------------------------------------------------
(* When the library cannot move, whoever is still waiting must be waiting for something that only the *)
(* application or the peer can supply.                                                                *)
StallClauses ==
  (IF hand # None /\ ~WaitingForAcceptor THEN {"C06_ServeStall"} ELSE {})
  \cup (IF \E x \in XCalls : pc[x] \in {"called", "reg", "left"} /\ x \in ctxc \cup sup THEN {"C06_CallReturns"} ELSE {})

-----------------------------------------------------------------------------
(* the model's own environment (design check) *)
CONSTANTS XKey,     \* [XCalls -> keys] the session each Expect call of the model asks for
          OKey,     \* [Opens -> keys]
          MaxEnv
VARIABLE nenv

MCEnv ==
  /\ nenv < MaxEnv /\ nenv' = nenv + 1
  /\ \/ \E x \in XCalls : ExpectCall(x, XKey[x])
     \/ \E a \in ACalls : AcceptCall(a)
     \/ \E c \in XCalls \cup Reqs : c \notin ctxc /\ (IF c \in XCalls THEN pc[c] \in {"called", "reg"} ELSE cst[c] = "called") /\ Cancel(c)
     \/ \E r \in Reqs : ReqCall(r, IF r \in Opens THEN OKey[r] ELSE None)
     \/ CloseCall
MCLib ==
  /\ UNCHANGED nenv
  /\ \/ \E x \in XCalls : Register(x) \/ Wake(x) \/ HandToExpect(x) \/ \E out \in {"stream", "ctx"} : ExpectRet(x, out)
     \/ \E a \in ACalls : HandToAccept(a) \/ \E out \in {"stream", "closed"} : AcceptRet(a, out)
     \/ CloseRet \/ Refuse \/ ToAcc \/ DropClosed
     \/ \E r \in Reqs : ReqWire(r) \/ Deliver(r) \/ \E out \in {"ok", "err", "ctx"} : ReqRet(r, out)
     \/ \E r \in Reqs : \E what \in {"result", "error"} : Reply(r, what)
MCInit == Init /\ nenv = 0
MCNext == MCEnv \/ MCLib
MCSpec == MCInit /\ [][MCNext]_<<vars, nenv>>

-----------------------------------------------------------------------------
(* C06 *)
(* the call that registered last for a key and is still waiting owns the entry of that key (take-over) *)
C06_TakeOver == \A x \in XCalls : (pc[x] = "reg" /\ x \notin sup) => x \in tab
(* the table holds entries of waiting calls only: a caller that went away leaves nothing behind *)
C06_NoStaleEntry == \A x \in tab : pc[x] = "reg"
(* a session is handed to one call, of its own key *)
C06_SessionOnce ==
  /\ \A o \in Opens : given[o] <= 1 /\ Cardinality({c \in Calls : gotS[c] = o}) <= 1
  /\ \A x \in XCalls : gotS[x] # None => key[x] = key[gotS[x]]
(* one outcome per call, and its own *)
C06_Outcome ==
  /\ \A c \in Calls : (res[c] = "stream" => gotS[c] # None) /\ (res[c] = "ctx" => c \in ctxc \cup sup)
  /\ \A r \in Reqs : ores[r] = "ctx" => r \in ctxc
C06_NoPanic == "C06_NoPanic" \notin viol
(* a session is never left to Accept while a live Expect call is waiting for exactly that session *)
C06_ExpectGetsItsSession == "C06_ExpectGetsItsSession" \notin viol
(* no permanent stall: whenever the library cannot move, nobody waits for the library *)
C06_ListenNoStall == ~ENABLED MCLib => StallClauses = {}
(* C15, first clause: Open succeeds only when the peer accepted the session: the reply was a result, and a *)
(* result means that the session was handed to a call (or the listener was closed under it)               *)
C15_OpenIffAccepted ==
  \A o \in Opens : /\ (ores[o] = "ok" => rep[o] = "result")
                   /\ (rep[o] = "result" => (given[o] = 1 \/ o \in dropped))
                   /\ (rep[o] = "error" => given[o] = 0)
=============================================================================
