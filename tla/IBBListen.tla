------------------------------ MODULE IBBListen ------------------------------
(***************************************************************************)
(* The ACCEPTING side's rendezvous of in-band bytestreams (ibb/listen.go,   *)
(* handleOpen in ibb/ibb.go): Handler.Listen, Listener.Accept,              *)
(* Listener.Expect, Listener.Close against the serve loops that handle the  *)
(* peers' open requests.  IBB part of C06 (every Expect / Accept / Close /  *)
(* Listen / Open call ends exactly once with its own outcome; a caller that *)
(* went away, a rendezvous or a Close never stalls a serve loop; no panic)  *)
(* and the first clause of C15 (Open succeeds only when the peer accepted   *)
(* the session).                                                            *)
(* IBB.tla models ONE session id and the byte pipe; this module models the  *)
(* hand-over of freshly opened sessions (several session ids, several       *)
(* callers, several XMPP sessions that share one ibb.Handler) and nothing   *)
(* of the bytes.  Same style as Receipts.tla and the join / depart hand-off *)
(* of MUC.tla.                                                              *)
(*                                                                         *)
(* What the documentation of ibb/listen.go promises, and nothing more:      *)
(*   Listen  (Handler.Listen(session)) creates the listener of that         *)
(*           session, or returns the one that exists.                       *)
(*   Accept  waits for the next incoming session; returns an error when the *)
(*           listener is closed (also when it was closed before the call).  *)
(*   Expect  like Accept for one (from, sid); takes precedence over Accept; *)
(*           a second Expect for the same session cancels the first (which  *)
(*           returns its context's error) and TAKES OVER.                   *)
(*   Close   stops listening; pending Accept calls return an error;         *)
(*           sessions already accepted are not closed.  It may be called    *)
(*           at any time, any number of times, from any goroutine (it is    *)
(*           the Close of a net.Listener).                                  *)
(*   An open request without a listener is refused (not-acceptable).        *)
(*   An open request nobody is waiting for waits (in the serve loop) for    *)
(*   the next Accept: that wait is the only legitimate one of a serve       *)
(*   loop (WaitingForAcceptor), and Close ends it.                          *)
(*                                                                         *)
(* Lsn: the XMPP sessions of the accepting application.  They share ONE     *)
(* Handler (one table of listeners); each has its own serve loop, at most   *)
(* one listener, its own peer.  A listener is identified with its session   *)
(* (a listener created by Listen AFTER a Close of the same session is a new *)
(* generation: not modelled, the scenario generators never do that).        *)
(*                                                                         *)
(* State: per session the listener `lst`, the requests on the wire `q`, the *)
(* request its serve loop is handling (`hand`, `hst`); the expectation      *)
(* table `tab` (registered Expect calls, at most one per listener and key,  *)
(* each entry OWNED by the call that stored it).                            *)
(* Steps that cannot be observed from outside (registration, the wake-up of *)
(* a cancelled call and its removal from the table, the lookup outcome, the *)
(* hand-over itself, the moment at which Close / Listen take effect) are    *)
(* actions of their own: in recorded runs of the real code they are silent  *)
(* and may happen at any time between the observable events around them.    *)
(*                                                                         *)
(* Dev: named deviations (all off in the design check and in trace          *)
(* validation; each must make TLC report a property).                       *)
(*   ExpectDeletesForeignEntry  a cancelled Expect removes the table entry  *)
(*                              of its key without checking that the entry  *)
(*                              is still its own (it removes the entry of   *)
(*                              the call that took over)                    *)
(*   ExpectLeavesEntry          a cancelled Expect leaves its entry behind  *)
(*                              (a later open request is handed to nobody)  *)
(*   CloseClosesQueue           Close closes the accept queue: while the    *)
(*                              serve loop is sending on it, or a second    *)
(*                              time                                        *)
(*   HandOverKeepsEntry         the serve loop does not consume the entry   *)
(*                              it hands a session to                       *)
(*   HandlerKeepsTableLocked    the handler of an open request keeps the    *)
(*                              Handler's table of listeners to itself from *)
(*                              the lookup until it returns (i.e. also      *)
(*                              while it waits for an acceptor): Close,     *)
(*                              Listen and the other serve loops' lookups   *)
(*                              wait for it                                 *)
(*   AnyListenerTakes           a waiting session is handed to an Accept    *)
(*                              call of another session's listener          *)
(***************************************************************************)
EXTENDS Integers, Sequences, FiniteSets, TLC

CONSTANTS XCalls,    \* names of Expect calls
          ACalls,    \* names of Accept calls
          KCalls,    \* names of Listener.Close calls
          LCalls,    \* names of Handler.Listen calls
          Opens,     \* names of Open calls of the peers
          Pings,     \* names of unrelated requests of the peers (they only need the serve loop)
          Lsn,       \* the sessions of the accepting application (one Handler)
          Dev

None == "-"
Calls == XCalls \cup ACalls
TCalls == KCalls \cup LCalls          \* calls that work on the Handler's table of listeners
Reqs == Opens \cup Pings

VARIABLES
  lst,     \* [Lsn -> "none" | "open" | "closed"] the listener of the session
  lof,     \* [Calls \cup TCalls \cup Reqs -> Lsn \cup {None}] the session whose listener the call is made on / that the request is sent to
  pc,      \* [Calls -> "idle" | "called" | "reg" (Expect: in the table, waiting) | "left" (Expect: woken by
           \*           its context, not returned yet) | "got" (was handed a session) | "done"]
  res,     \* [Calls -> None | "stream" | "ctx" | "closed"]
  key,     \* [XCalls \cup Opens -> the (from, sid) of the call | None]
  gotS,    \* [Calls -> the open request whose session the call was handed | None]
  ctxc,    \* calls and requests whose own context was cancelled
  sup,     \* Expect calls cancelled because another Expect took their key over
  tab,     \* the expectation tables: the Expect calls that own an entry (at most one per listener and key)
  tpc,     \* [TCalls -> "idle" | "called" | "eff" (took effect, not returned yet) | "done"]
  cst,     \* [Reqs -> "idle" | "called" | "done"] the requesting call at the peer
  ores,    \* [Reqs -> None | "ok" | "err" | "ctx"]
  q,       \* [Lsn -> requests on their way to that session (FIFO)]
  hand,    \* [Lsn -> the request the serve loop of the session is handling (None: it is reading)]
  hst,     \* [Lsn -> how far: None | "lookup" | "toacc" (nobody expected it at the lookup: it waits for an Accept) |
           \*          "refused" | "handed" | "dropped" | "other"]
  rep,     \* [Reqs -> None | "result" | "error"] the reply seen on the wire
  given,   \* [Opens -> Nat] number of calls the session of this request was handed to
  dropped, \* open requests that were accepted while the listener was being closed: nobody gets the session
  viol     \* history: names of violated clauses

vars == <<lst, lof, pc, res, key, gotS, ctxc, sup, tab, tpc, cst, ores, q, hand, hst, rep, given, dropped, viol>>

InitRest ==
  /\ lof = [c \in Calls \cup TCalls \cup Reqs |-> None]
  /\ pc = [c \in Calls |-> "idle"] /\ res = [c \in Calls |-> None]
  /\ key = [c \in XCalls \cup Opens |-> None] /\ gotS = [c \in Calls |-> None]
  /\ ctxc = {} /\ sup = {} /\ tab = {}
  /\ tpc = [c \in TCalls |-> "idle"]
  /\ cst = [r \in Reqs |-> "idle"] /\ ores = [r \in Reqs |-> None]
  /\ q = [l \in Lsn |-> <<>>] /\ hand = [l \in Lsn |-> None] /\ hst = [l \in Lsn |-> None]
  /\ rep = [r \in Reqs |-> None]
  /\ given = [o \in Opens |-> 0] /\ dropped = {} /\ viol = {}
Init == lst \in [Lsn -> {"none", "open"}] /\ InitRest

Owner(l, k) == {x \in tab : lof[x] = l /\ key[x] = k}
OwnerOf(x) == Owner(lof[x], key[x])
AcceptWaiting(l) == {a \in ACalls : pc[a] = "called" /\ lof[a] = l}
HKey(l) == IF hand[l] \in Opens THEN key[hand[l]] ELSE None
(* the only legitimate wait of a serve loop: an open request, a listener, nobody expected the session *)
(* when the serve loop looked (an Expect that registers later does not get it), nobody is in Accept    *)
WaitingForAcceptor(l) ==
  hand[l] \in Opens /\ hst[l] = "toacc" /\ lst[l] = "open" /\ AcceptWaiting(l) = {}

(* HandlerKeepsTableLocked: a handler past its lookup still holds the table; everybody else who needs  *)
(* the table (Close, Listen, the lookup of another serve loop) waits until it has returned             *)
PastLookup(l) == hand[l] \in Opens /\ hst[l] \in {"toacc", "refused", "handed", "dropped"}
TableFree(me) == "HandlerKeepsTableLocked" \in Dev => \A l \in Lsn \ {me} : ~PastLookup(l)

-----------------------------------------------------------------------------
(* Expect *)
ExpectCall(x, l, k) ==
  /\ pc[x] = "idle" /\ lst[l] # "none"
  /\ pc' = [pc EXCEPT ![x] = "called"] /\ key' = [key EXCEPT ![x] = k] /\ lof' = [lof EXCEPT ![x] = l]
  /\ UNCHANGED <<lst, res, gotS, ctxc, sup, tab, tpc, cst, ores, q, hand, hst, rep, given, dropped, viol>>

(* the call stores its entry; an entry of another call for the same key is replaced and that call cancelled *)
CanRegister(x) == x \in XCalls /\ pc[x] = "called"
Register(x) ==
  /\ CanRegister(x)
  /\ pc' = [pc EXCEPT ![x] = "reg"]
  /\ tab' = (tab \ OwnerOf(x)) \cup {x}
  /\ sup' = sup \cup (OwnerOf(x) \ {x})
  /\ UNCHANGED <<lst, lof, res, key, gotS, ctxc, tpc, cst, ores, q, hand, hst, rep, given, dropped, viol>>

(* a waiting call is woken by its context (cancelled by its caller or by a take-over): it removes ITS OWN entry *)
CanWake(x) == x \in XCalls /\ pc[x] = "reg" /\ x \in ctxc \cup sup
Wake(x) ==
  /\ CanWake(x)
  /\ pc' = [pc EXCEPT ![x] = "left"]
  /\ tab' = IF "ExpectLeavesEntry" \in Dev THEN tab
            ELSE IF "ExpectDeletesForeignEntry" \in Dev THEN tab \ OwnerOf(x)
            ELSE tab \ {x}
  /\ UNCHANGED <<lst, lof, res, key, gotS, ctxc, sup, tpc, cst, ores, q, hand, hst, rep, given, dropped, viol>>

(* Expect returns: the session it was handed, or its context's error, or (nothing in the code does *)
(* that today, the documentation of Accept suggests it) an error because the listener is closed     *)
ExpectRet(x, out) ==
  /\ x \in XCalls
  /\ CASE out = "stream" -> pc[x] = "got"
       [] out = "ctx"    -> pc[x] = "left"
       [] out = "closed" -> pc[x] = "reg" /\ lst[lof[x]] = "closed"
       [] OTHER -> FALSE
  /\ pc' = [pc EXCEPT ![x] = "done"] /\ res' = [res EXCEPT ![x] = out]
  /\ tab' = IF out = "closed" THEN tab \ {x} ELSE tab
  /\ UNCHANGED <<lst, lof, key, gotS, ctxc, sup, tpc, cst, ores, q, hand, hst, rep, given, dropped, viol>>

(* Accept (also on a listener that is closed already) *)
AcceptCall(a, l) ==
  /\ a \in ACalls /\ pc[a] = "idle" /\ lst[l] # "none"
  /\ pc' = [pc EXCEPT ![a] = "called"] /\ lof' = [lof EXCEPT ![a] = l]
  /\ UNCHANGED <<lst, res, key, gotS, ctxc, sup, tab, tpc, cst, ores, q, hand, hst, rep, given, dropped, viol>>
AcceptRet(a, out) ==
  /\ a \in ACalls
  /\ CASE out = "stream" -> pc[a] = "got"
       [] out = "closed" -> pc[a] = "called" /\ lst[lof[a]] = "closed"
       [] OTHER -> FALSE
  /\ pc' = [pc EXCEPT ![a] = "done"] /\ res' = [res EXCEPT ![a] = out]
  /\ UNCHANGED <<lst, lof, key, gotS, ctxc, sup, tab, tpc, cst, ores, q, hand, hst, rep, given, dropped, viol>>

(* a caller goes away *)
Cancel(c) ==
  /\ ctxc' = ctxc \cup {c}
  /\ UNCHANGED <<lst, lof, pc, res, key, gotS, sup, tab, tpc, cst, ores, q, hand, hst, rep, given, dropped, viol>>

(* Listener.Close and Handler.Listen: the call, the moment it takes effect (it needs the Handler's table *)
(* of listeners for that moment), the return.  A second Close finds the listener closed and changes      *)
(* nothing; Listen for a session that has a listener changes nothing.                                    *)
TableCall(c, l) ==
  /\ c \in TCalls /\ tpc[c] = "idle" /\ (c \in KCalls => lst[l] # "none")
  /\ tpc' = [tpc EXCEPT ![c] = "called"] /\ lof' = [lof EXCEPT ![c] = l]
  /\ UNCHANGED <<lst, pc, res, key, gotS, ctxc, sup, tab, cst, ores, q, hand, hst, rep, given, dropped, viol>>
CanEffect(c) == c \in TCalls /\ tpc[c] = "called" /\ TableFree(None)
TableEffect(c) ==
  /\ CanEffect(c)
  /\ tpc' = [tpc EXCEPT ![c] = "eff"]
  /\ lst' = [lst EXCEPT ![lof[c]] = IF c \in KCalls THEN "closed" ELSE IF @ = "none" THEN "open" ELSE @]
  /\ viol' = IF /\ "CloseClosesQueue" \in Dev /\ c \in KCalls
                /\ \/ lst[lof[c]] = "closed"
                   \/ hand[lof[c]] \in Opens /\ hst[lof[c]] = "toacc"
               THEN viol \cup {"C06_NoPanic"} ELSE viol
  /\ UNCHANGED <<lof, pc, res, key, gotS, ctxc, sup, tab, cst, ores, q, hand, hst, rep, given, dropped>>
TableRet(c) ==
  /\ c \in TCalls /\ tpc[c] = "eff" /\ tpc' = [tpc EXCEPT ![c] = "done"]
  /\ UNCHANGED <<lst, lof, pc, res, key, gotS, ctxc, sup, tab, cst, ores, q, hand, hst, rep, given, dropped, viol>>

-----------------------------------------------------------------------------
(* The peers *)
ReqCall(r, l, k) ==
  /\ cst[r] = "idle" /\ cst' = [cst EXCEPT ![r] = "called"] /\ lof' = [lof EXCEPT ![r] = l]
  /\ key' = IF r \in Opens THEN [key EXCEPT ![r] = k] ELSE key
  /\ UNCHANGED <<lst, pc, res, gotS, ctxc, sup, tab, tpc, ores, q, hand, hst, rep, given, dropped, viol>>
ReqWire(r) ==
  /\ cst[r] = "called" /\ rep[r] = None /\ hand[lof[r]] # r /\ \A i \in 1..Len(q[lof[r]]) : q[lof[r]][i] # r
  /\ q' = [q EXCEPT ![lof[r]] = Append(@, r)]
  /\ UNCHANGED <<lst, lof, pc, res, key, gotS, ctxc, sup, tab, tpc, cst, ores, hand, hst, rep, given, dropped, viol>>
(* Open returns success only for a result, the stanza error for an error reply, or its context's error *)
ReqRet(r, out) ==
  /\ cst[r] = "called"
  /\ CASE out = "ok"  -> rep[r] = "result" \/ (r \in Pings /\ rep[r] # None)
       [] out = "err" -> rep[r] = "error" \/ (r \in Pings /\ rep[r] # None)
       [] out = "ctx" -> r \in ctxc
       [] OTHER -> FALSE
  /\ cst' = [cst EXCEPT ![r] = "done"] /\ ores' = [ores EXCEPT ![r] = out]
  /\ UNCHANGED <<lst, lof, pc, res, key, gotS, ctxc, sup, tab, tpc, q, hand, hst, rep, given, dropped, viol>>

-----------------------------------------------------------------------------
(* The serve loops of the accepting side *)
Deliver(r) ==
  LET l == lof[r] IN
  /\ l \in Lsn /\ hand[l] = None /\ q[l] # <<>> /\ Head(q[l]) = r
  /\ q' = [q EXCEPT ![l] = Tail(@)] /\ hand' = [hand EXCEPT ![l] = r]
  /\ hst' = [hst EXCEPT ![l] = IF r \in Opens THEN "lookup" ELSE "other"]
  /\ UNCHANGED <<lst, lof, pc, res, key, gotS, ctxc, sup, tab, tpc, cst, ores, rep, given, dropped, viol>>

AtLookup(l) == hand[l] \in Opens /\ hst[l] = "lookup" /\ TableFree(l)

(* no listener (any more): the request is refused *)
CanRefuse(l) == AtLookup(l) /\ lst[l] # "open"
Refuse(l) ==
  /\ CanRefuse(l) /\ hst' = [hst EXCEPT ![l] = "refused"]
  /\ UNCHANGED <<lst, lof, pc, res, key, gotS, ctxc, sup, tab, tpc, cst, ores, q, hand, rep, given, dropped, viol>>

(* the session is expected: it goes to the call that owns the entry, and the entry is consumed. *)
(* The hand-over needs the owner to be still waiting: a call that has left owns nothing.        *)
CanHandX(l, x) == AtLookup(l) /\ lst[l] # "none" /\ x \in Owner(l, HKey(l)) /\ pc[x] = "reg"
HandToExpect(l, x) ==
  /\ CanHandX(l, x)
  /\ pc' = [pc EXCEPT ![x] = "got"] /\ gotS' = [gotS EXCEPT ![x] = hand[l]]
  /\ tab' = IF "HandOverKeepsEntry" \in Dev THEN tab ELSE tab \ {x}
  /\ given' = [given EXCEPT ![hand[l]] = @ + 1] /\ hst' = [hst EXCEPT ![l] = "handed"]
  /\ UNCHANGED <<lst, lof, res, key, ctxc, sup, tpc, cst, ores, q, hand, rep, dropped, viol>>

(* nobody expects it (Expect takes precedence): it is for Accept.  The serve loop looks ONCE: an Expect *)
(* that registers while the session waits for an acceptor does not get it.  A waiting, live (not       *)
(* superseded) Expect call of that key at this moment means that its entry was lost.                   *)
CanToAcc(l) == AtLookup(l) /\ lst[l] # "none" /\ Owner(l, HKey(l)) = {}
ToAcc(l) ==
  /\ CanToAcc(l) /\ hst' = [hst EXCEPT ![l] = "toacc"]
  /\ viol' = IF \E x \in XCalls : pc[x] = "reg" /\ lof[x] = l /\ key[x] = HKey(l) /\ x \notin sup
               THEN viol \cup {"C06_ExpectGetsItsSession"} ELSE viol
  /\ UNCHANGED <<lst, lof, pc, res, key, gotS, ctxc, sup, tab, tpc, cst, ores, q, hand, rep, given, dropped>>

(* ... it goes to a call waiting in Accept on the listener of that session *)
CanHandA(l, a) ==
  /\ hand[l] \in Opens /\ hst[l] = "toacc" /\ a \in ACalls /\ pc[a] = "called"
  /\ (lof[a] = l \/ "AnyListenerTakes" \in Dev)
HandToAccept(l, a) ==
  /\ CanHandA(l, a)
  /\ pc' = [pc EXCEPT ![a] = "got"] /\ gotS' = [gotS EXCEPT ![a] = hand[l]]
  /\ given' = [given EXCEPT ![hand[l]] = @ + 1] /\ hst' = [hst EXCEPT ![l] = "handed"]
  /\ UNCHANGED <<lst, lof, res, key, ctxc, sup, tab, tpc, cst, ores, q, hand, rep, dropped, viol>>

(* the listener is closed while the session waits for an acceptor: the serve loop goes on; the request *)
(* was answered already (the result is written before the hand-over), nobody gets the session          *)
CanDrop(l) == hand[l] \in Opens /\ hst[l] = "toacc" /\ lst[l] = "closed" /\ "CloseClosesQueue" \notin Dev
DropClosed(l) ==
  /\ CanDrop(l) /\ hst' = [hst EXCEPT ![l] = "dropped"] /\ dropped' = dropped \cup {hand[l]}
  /\ UNCHANGED <<lst, lof, pc, res, key, gotS, ctxc, sup, tab, tpc, cst, ores, q, hand, rep, given, viol>>

(* the reply goes out when the handler returns; the serve loop reads on *)
CanReply(l) == hand[l] # None /\ hst[l] \in {"refused", "handed", "dropped", "other"}
Reply(r, what) ==
  LET l == lof[r] IN
  /\ l \in Lsn /\ hand[l] = r /\ CanReply(l)
  /\ CASE hst[l] = "refused" -> what = "error"
       [] hst[l] \in {"handed", "dropped"} -> what = "result"
       [] OTHER -> what \in {"result", "error"}
  /\ rep' = [rep EXCEPT ![r] = what] /\ hand' = [hand EXCEPT ![l] = None] /\ hst' = [hst EXCEPT ![l] = None]
  /\ UNCHANGED <<lst, lof, pc, res, key, gotS, ctxc, sup, tab, tpc, cst, ores, q, given, dropped, viol>>

-----------------------------------------------------------------------------
(* When the library cannot move, whoever is still waiting must be waiting for something that only the *)
(* application or the peer can supply.  A Close or Listen call never waits for either.                *)
TablePending == {c \in TCalls : tpc[c] \in {"called", "eff"}}
StallClauses ==
  (IF \E l \in Lsn : hand[l] # None /\ ~WaitingForAcceptor(l) THEN {"C06_ServeStall"} ELSE {})
  \cup (IF \E x \in XCalls : pc[x] \in {"called", "reg", "left"} /\ x \in ctxc \cup sup THEN {"C06_CallReturns"} ELSE {})
  \cup (IF TablePending # {} THEN {"C06_CloseReturns"} ELSE {})
  \cup (IF \E a \in ACalls : pc[a] = "called" /\ lst[lof[a]] = "closed" THEN {"C06_AcceptReturns"} ELSE {})

-----------------------------------------------------------------------------
(* the model's own environment (design check) *)
CONSTANTS XKey,     \* [XCalls -> keys] the session each Expect call of the model asks for
          OKey,     \* [Opens -> keys]
          CL,       \* [all names -> Lsn] the session each call / request of the model belongs to
          LInit,    \* the initial listener states of the model
          MaxEnv
VARIABLE nenv

(* Listen after (or beside) a Close of the same session makes a new generation of that listener: excluded *)
MCEnv ==
  /\ nenv < MaxEnv /\ nenv' = nenv + 1
  /\ \/ \E x \in XCalls : ExpectCall(x, CL[x], XKey[x])
     \/ \E a \in ACalls : AcceptCall(a, CL[a])
     \/ \E c \in XCalls \cup Reqs : c \notin ctxc /\ (IF c \in XCalls THEN pc[c] \in {"called", "reg"} ELSE cst[c] = "called") /\ Cancel(c)
     \/ \E r \in Reqs : ReqCall(r, CL[r], IF r \in Opens THEN OKey[r] ELSE None)
     \/ \E c \in KCalls : (\A d \in LCalls : CL[d] = CL[c] => tpc[d] = "done") /\ TableCall(c, CL[c])
     \/ \E c \in LCalls : (\A d \in KCalls : CL[d] = CL[c] => tpc[d] = "idle") /\ TableCall(c, CL[c])
MCLib ==
  /\ UNCHANGED nenv
  /\ \/ \E x \in XCalls : Register(x) \/ Wake(x) \/ (\E l \in Lsn : HandToExpect(l, x)) \/ \E out \in {"stream", "ctx"} : ExpectRet(x, out)
     \/ \E a \in ACalls : (\E l \in Lsn : HandToAccept(l, a)) \/ \E out \in {"stream", "closed"} : AcceptRet(a, out)
     \/ \E c \in TCalls : TableEffect(c) \/ TableRet(c)
     \/ \E l \in Lsn : Refuse(l) \/ ToAcc(l) \/ DropClosed(l)
     \/ \E r \in Reqs : ReqWire(r) \/ Deliver(r) \/ \E out \in {"ok", "err", "ctx"} : ReqRet(r, out)
     \/ \E r \in Reqs : \E what \in {"result", "error"} : Reply(r, what)
MCInit == lst \in LInit /\ InitRest /\ nenv = 0
MCNext == MCEnv \/ MCLib
MCSpec == MCInit /\ [][MCNext]_<<vars, nenv>>

-----------------------------------------------------------------------------
(* C06 *)
(* the call that registered last for a key and is still waiting owns the entry of that key (take-over) *)
C06_TakeOver == \A x \in XCalls : (pc[x] = "reg" /\ x \notin sup) => x \in tab
(* the table holds entries of waiting calls only: a caller that went away leaves nothing behind *)
C06_NoStaleEntry == \A x \in tab : pc[x] = "reg"
(* a session is handed to one call, of its own key, on the listener of the session it was sent to *)
C06_SessionOnce ==
  /\ \A o \in Opens : given[o] <= 1 /\ Cardinality({c \in Calls : gotS[c] = o}) <= 1
  /\ \A x \in XCalls : gotS[x] # None => key[x] = key[gotS[x]]
  /\ \A c \in Calls : gotS[c] # None => lof[c] = lof[gotS[c]]
(* one outcome per call, and its own *)
C06_Outcome ==
  /\ \A c \in Calls : (res[c] = "stream" => gotS[c] # None) /\ (res[c] = "ctx" => c \in ctxc \cup sup)
  /\ \A r \in Reqs : ores[r] = "ctx" => r \in ctxc
  /\ \A c \in KCalls : tpc[c] = "done" => lst[lof[c]] = "closed"
  /\ \A c \in LCalls : tpc[c] = "done" => lst[lof[c]] # "none"
C06_NoPanic == "C06_NoPanic" \notin viol
(* a session is never left to Accept while a live Expect call is waiting for exactly that session *)
C06_ExpectGetsItsSession == "C06_ExpectGetsItsSession" \notin viol
(* no permanent stall: whenever the library cannot move, nobody waits for the library *)
C06_ListenNoStall == ~ENABLED MCLib => StallClauses = {}
(* C15, first clause: Open succeeds only when the peer accepted the session: the reply was a result, and a *)
(* result means that the session was handed to a call (or the listener was closed under it)               *)
C15_OpenIffAccepted ==
  \A o \in Opens : /\ (ores[o] = "ok" => rep[o] = "result")
                   /\ (rep[o] = "result" => (given[o] = 1 \/ o \in dropped))
                   /\ (rep[o] = "error" => given[o] = 0)
=============================================================================
