--------------------------- MODULE TrNegotiation ---------------------------
(* Trace validation of recorded negotiations (harness/cmd/neg) against Negotiation. *)
(* One initial state per trace; register t0 keeps the furthest line consumed.       *)
EXTENDS Negotiation, NegPool, Json

Trace == ndJsonDeserialize("trace.ndjson")
ToSet(s) == {s[i] : i \in 1..Len(s)}

VARIABLES l, t0
tvars == <<vars, l, t0>>

Starts == {i \in 1..Len(Trace) : Trace[i].ev = "reset"}
EndOf(i) == Trace[i].end

IsEv(e) == l < EndOf(t0) /\ Trace[l].ev = e /\ l' = l + 1

TInit ==
  /\ t0 \in Starts /\ l = t0
  /\ cfg = {} /\ role = "init" /\ s2s = FALSE /\ bits = {} /\ phase = "idle" /\ round = 0
  /\ first = TRUE /\ list = <<>> /\ cache = {} /\ negotiated = {} /\ fresh = FALSE
  /\ failed = FALSE /\ result = "none" /\ cur = "none" /\ last = NoLast /\ inbox = <<>>
  /\ estab = [from |-> "none", to |-> "none"] /\ broken = FALSE /\ cancelled = FALSE /\ nsel = 0

TrReset ==
  /\ l = t0 /\ IsEv("reset")
  /\ LET r == Trace[l] IN
     /\ cfg' = ToSet(r.cfg) /\ role' = r.role /\ s2s' = r.s2s /\ bits' = ToSet(r.bits)
     /\ estab' = [from |-> r.estab.from, to |-> r.estab.to]
  /\ phase' = "restart"
  /\ UNCHANGED <<round, first, list, cache, negotiated, fresh, failed, result, cur, last, inbox,
                 broken, cancelled, nsel>>

Item(x) ==
  CASE x.k = "hdr" -> [k |-> "hdr", ok |-> x.ok, from |-> x.from, to |-> x.to]
    [] x.k = "features" -> [k |-> "features",
                            list |-> [i \in 1..Len(x.list) |->
                                        [f |-> IF x.list[i].f \in cfg THEN x.list[i].f ELSE Unk,
                                         req |-> x.list[i].req]]]
    [] x.k = "select" -> [k |-> "select", f |-> x.f, iq |-> x.iq]
    [] OTHER -> [k |-> "eof"]

TrPeer == IsEv("peer") /\ PeerSend(Item(Trace[l].item))
(* A fault / cancellation that strikes after the call has already decided to fail (e.g. while  *)
(* the writer of a partial advertisement is closed after a failed List step) changes nothing.  *)
TrFault == IsEv("fault") /\ (Fault \/ (result = "err" /\ UNCHANGED vars))
TrCancel == IsEv("cancel") /\ (Cancel \/ (result = "err" /\ UNCHANGED vars))
TrHdrOut == IsEv("hdr_out") /\ SendHeader
TrFeaturesOut ==
  /\ IsEv("features_out") /\ AdvertiseOK
  /\ LET L == Trace[l].list IN
     /\ {L[i].f : i \in 1..Len(L)} = cache'
     /\ \A i \in 1..Len(L) : L[i].req = Kind(L[i].f).lreq
(* List / Parse steps of the instrumented features (a successful one leaves the state as *)
(* it is; the advertisement it belongs to is judged at features_out / ReadFeatures).     *)
TrList ==
  /\ IsEv("list")
  /\ LET f == Trace[l].f IN
     IF Trace[l].ok
     THEN /\ role = "recv" /\ phase = "advertise" /\ f \in cfg /\ MasksHold(f, bits) /\ UNCHANGED vars
     ELSE ListFail(f)
TrParse ==
  /\ IsEv("parse")
  /\ LET f == Trace[l].f IN
     IF Trace[l].ok
     THEN /\ role = "init" /\ phase = "features" /\ f \in cfg /\ inbox # <<>>
          /\ (IF inbox # <<>> THEN Head(inbox).k = "features" ELSE FALSE) /\ UNCHANGED vars
     ELSE ReadFeaturesP(f)
TrNegotiate ==
  /\ IsEv("negotiate") /\ ToSet(Trace[l].bits) = bits
  /\ LET f == Trace[l].f IN
     \/ Select(f)
     \/ Force /\ f = TLSId
     \/ Await /\ cur' = f
TrNegRet == IsEv("negret") /\ NegotiateRet(Trace[l].f, Trace[l].ok)
TrReturn ==
  /\ IsEv("return") /\ result # "none"
  /\ (Trace[l].ok <=> result = "ok")
  /\ (Trace[l].ok => ToSet(Trace[l].bits) = bits)
  /\ (~Trace[l].ok => ("Ready" \in ToSet(Trace[l].bits) => "Ready" \in bits))
  /\ UNCHANGED vars

(* steps of the session that leave no event of their own *)
Silent ==
  /\ \/ ExpectHeader \/ ReadFeaturesP("none") \/ SelectNone \/ Abort
     \/ Await /\ result' = "err"
  /\ UNCHANGED l

(* every state invariant of the design check must also hold along real traces *)
Inv == /\ C01_Eligible /\ C01_ForcedOnlyTLS /\ C01_ReadyComplete /\ C01_OkMeansReady
       /\ C02_NoReadyInClear /\ C04_NoSwallow /\ C04_ErrNotReady

TNext ==
  /\ l < EndOf(t0)
  /\ \/ TrReset \/ TrPeer \/ TrFault \/ TrCancel \/ TrHdrOut \/ TrFeaturesOut
     \/ TrNegotiate \/ TrNegRet \/ TrList \/ TrParse \/ TrReturn \/ Silent
  /\ UNCHANGED t0
  /\ Inv'
  /\ (phase # "idle" => bits \subseteq bits')

TSpec == TInit /\ [][TNext]_tvars

HW == TLCSet(t0, IF TLCGet(t0) < l THEN l ELSE TLCGet(t0))
Rejected == {i \in Starts : TLCGet(i) # EndOf(i)}
Accepted ==
  \/ Rejected = {}
  \/ PrintT(<<"REJECTED", {<<Trace[i].t, TLCGet(i)>> : i \in Rejected}>>) /\ FALSE
ASSUME \A i \in Starts : TLCSet(i, 0)
=============================================================================
