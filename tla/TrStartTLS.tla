----------------------------- MODULE TrStartTLS -----------------------------
(* Trace validation of recorded STARTTLS negotiations (harness/cmd/starttls) against StartTLS. *)
(* The trace is the logical summary of one scenario: what the client wrote in clear (from the   *)
(* wire), the ClientHello seen by the peer, the post-TLS feature negotiated, the return.        *)
EXTENDS StartTLS, Json

Trace == ndJsonDeserialize("trace.ndjson")
VARIABLES l, t0
tvars == <<vars, l, t0>>
Starts == {i \in 1..Len(Trace) : Trace[i].ev = "reset"}
EndOf(i) == Trace[i].end
IsEv(e) == l < EndOf(t0) /\ Trace[l].ev = e /\ l' = l + 1
ToSet(s) == {s[i] : i \in 1..Len(s)}

TInit ==
  /\ t0 \in Starts /\ l = t0
  /\ phase = "idle" /\ layer = "clear" /\ bits = {} /\ clearOut = <<>> /\ pendClear = <<>> /\ pendTLS = <<>>
  /\ used = <<>> /\ sni = "none" /\ result = "none"
  /\ script = Full([feat |-> "empty", answer |-> "eof", inject |-> "none", hs |-> "fail", cfg |-> "explicit"], Plain(1), <<>>)

TrReset ==
  /\ l = t0 /\ IsEv("reset")
  /\ LET s == Trace[l].script IN
     /\ s.addr \in Addrs /\ \A i \in 1..Len(s.hist) : s.hist[i] \in Addrs
     /\ script' = Full(s, s.addr, s.hist)
  /\ phase' = "start"
  /\ UNCHANGED <<layer, bits, clearOut, pendClear, pendTLS, used, sni, result>>

TrClearWrite == IsEv("clear_write") /\ ClearWrite(Trace[l].what)
TrHandshake == IsEv("handshake") /\ Handshake(Trace[l].name)
TrNegotiatePost == IsEv("negotiate_post") /\ NegotiatePost /\ Trace[l].seen_by_peer_inside_tls
TrReturn ==
  /\ IsEv("return") /\ result # "none"
  /\ (Trace[l].ok <=> result = "ok")
  /\ (Trace[l].ok => ToSet(Trace[l].bits) = bits /\ Trace[l].tls_state /\ Trace[l].tls_records)
  /\ (~Trace[l].ok => "Ready" \notin ToSet(Trace[l].bits))
  /\ UNCHANGED vars
TrEnd == IsEv("end") /\ UNCHANGED vars

Silent ==
  /\ \/ PeerHeaderAndFeatures \/ ReadHeaderClear \/ ReadFeaturesClear \/ PeerAnswer \/ ReadAnswer
     \/ TLSHeaderOut \/ ReadTLS \/ Abort
  /\ UNCHANGED l

Inv == /\ C02_NoReadyInClear /\ C02_ClearWireOnly /\ C02_BufferedClearDropped /\ C02_NothingClearAfterLayer
       /\ C02_SNIOwnDomain /\ C02_ErrNotReady

TNext ==
  /\ l < EndOf(t0)
  /\ \/ TrReset \/ TrClearWrite \/ TrHandshake \/ TrNegotiatePost \/ TrReturn \/ TrEnd \/ Silent
  /\ UNCHANGED t0
  /\ Inv'

TSpec == TInit /\ [][TNext]_tvars
HW == TLCSet(t0, IF TLCGet(t0) < l THEN l ELSE TLCGet(t0))
Rejected == {i \in Starts : TLCGet(i) # EndOf(i)}
Accepted ==
  \/ Rejected = {}
  \/ PrintT(<<"REJECTED", {<<Trace[i].t, TLCGet(i)>> : i \in Rejected}>>) /\ FALSE
ASSUME \A i \in Starts : TLCSet(i, 0)
=============================================================================
