------------------------------- MODULE TrMUC -------------------------------
(* Trace validation of recorded runs of the real muc.Client / muc.Channel     *)
(* (harness/cmd/muc) against the OBSERVER layer of MUC: every event must be   *)
(* consistent with the property (viol stays empty).  The mechanism variables  *)
(* of MUC are not used here.                                                  *)
EXTENDS MUC, Json

Trace == ndJsonDeserialize("trace.ndjson")
VARIABLES l, t0
tvars == <<vars, l, t0>>
Starts == {i \in 1..Len(Trace) : Trace[i].ev = "reset"}
EndOf(i) == Trace[i].end
IsEv(e) == l < EndOf(t0) /\ Trace[l].ev = e /\ l' = l + 1
E == Trace[l]
Ids6 == <<"c1", "c2", "c3", "c4", "c5", "c6">>

(* the MUC part of C06 leaves the pure membership / callback clauses to C18 *)
Ignored == IF "C06Only" \in Dev THEN {"C18_JoinedIffIn", "C18_Me", "C18_InviteExactlyOnce", "C18_DirectInviteExactlyOnce", "C18_ForeignIgnored"} ELSE {}

TInit == t0 \in Starts /\ l = t0 /\ Init

TrReset == l = t0 /\ IsEv("reset") /\ UNCHANGED ovars
TrCall == IsEv("call") /\ E.c \in CallSet /\ OCall(E.c, E.kind, E.r) /\ UNCHANGED nenv
TrWire == IsEv("wire") /\ E.c \in CallSet /\ OWire(E.c) /\ UNCHANGED nenv
TrCancel == IsEv("cancel") /\ E.c \in CallSet /\ OCancel(E.c) /\ UNCHANGED nenv
TrSend == IsEv("send") /\ OSend(E.st, E.part) /\ UNCHANGED nenv
(* (an error reply that was handed to its requester counts as processed when the requester closes it, *)
(* which may be before the end of the stanza has arrived: the remainder then concerns nobody)         *)
TrRest == IsEv("rest") /\ ORest /\ UNCHANGED nenv
TrHandled == IsEv("handled") /\ OHandled([ty |-> E.ty, room |-> E.room, nick |-> E.nick, call |-> E.call]) /\ UNCHANGED nenv
TrRet == IsEv("ret") /\ E.c \in CallSet /\ ORet(E.c, E.o, E.cond) /\ UNCHANGED nenv
TrObs == IsEv("obs") /\ OObs(E.r, E.j, E.me, E.addr) /\ UNCHANGED nenv
TrInviteCb == IsEv("invite_cb") /\ OInviteCb([kind |-> E.kind, ns |-> E.ns, k |-> E.k, pw |-> E.pw, room |-> E.room]) /\ UNCHANGED nenv
TrUserPres == IsEv("userpres") /\ OUserPres /\ UNCHANGED nenv
TrQuiet == IsEv("quiet") /\ OQuiet /\ UNCHANGED nenv
TrServeRet == IsEv("serve_ret") /\ UNCHANGED ovars
TrNote == IsEv("note") /\ UNCHANGED ovars      \* driver remarks (a sample that could not be taken): no verdict
(* end of the run: every call returned, every stanza processed.  "stuck" and "panic" *)
(* events have no action: a run that contains one is rejected there.                  *)
TrEnd == IsEv("end") /\ Quiescent /\ UNCHANGED ovars

TNext ==
  /\ l < EndOf(t0)
  /\ \/ TrReset \/ TrCall \/ TrWire \/ TrCancel \/ TrSend \/ TrRest \/ TrHandled \/ TrRet \/ TrObs
     \/ TrInviteCb \/ TrUserPres \/ TrQuiet \/ TrServeRet \/ TrNote \/ TrEnd
  /\ UNCHANGED <<t0, mvars>>
  /\ viol' \subseteq Ignored

TSpec == TInit /\ [][TNext]_tvars
HW == TLCSet(t0, IF TLCGet(t0) < l THEN l ELSE TLCGet(t0))
Rejected == {i \in Starts : TLCGet(i) # EndOf(i)}
Accepted ==
  \/ Rejected = {}
  \/ PrintT(<<"REJECTED", {<<Trace[i].t, TLCGet(i)>> : i \in Rejected}>>) /\ FALSE
ASSUME \A i \in Starts : TLCSet(i, 0)
=============================================================================
