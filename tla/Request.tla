------------------------------ MODULE Request ------------------------------
(***************************************************************************)
(* Family "request" (growth beyond C01-C20, check XREQ): the one-shot      *)
(* request/response helpers of mellium/xmpp - exported functions that send *)
(* ONE get/set IQ on a served session, block for the correlated reply and  *)
(* turn it into a Go result:                                               *)
(*   ping.Send, version.Get, xtime.Get, disco.GetInfo, upload.GetSlot,     *)
(*   carbons.Enable / Disable, roster.Set / Delete, blocklist.Add / Remove *)
(*   / Report, bookmarks.Publish / Delete, pubsub.Publish / CreateNode /   *)
(*   GetConfig / GetDefaultConfig / SetConfig / Delete, muc.GetConfig /    *)
(*   SetConfig, bin.Get - and the ...IQ variants that take the caller's    *)
(*   stanza.IQ.                                                            *)
(*                                                                         *)
(* One requester call, one peer, the serve loop.  OBSERVER variables:      *)
(* wrote (what the library put on the wire), handled (which peer items the *)
(* session's handler was given), lost, taken (the item the call took for   *)
(* its answer), out (what the call returned).  The rules R1..R7 are state  *)
(* predicates over them.  MECHANISM: the reference algorithm, one action   *)
(* per step of the real code path (the helper writes its request and waits *)
(* in Session.SendIQ; the serve loop reads an element, looks the id up,    *)
(* hands a matching response to the waiting call and waits until the call  *)
(* closes it, otherwise calls the handler; the helper decodes and          *)
(* returns), nondeterministic wherever no document says what must happen.  *)
(* Named deviations (Dev) each break one rule.  TrRequest.tla validates    *)
(* recorded runs of the real code against the observer layer.              *)
(*                                                                         *)
(* Rules and where they come from                                          *)
(*  R1 exactly one request: an IQ of the type the protocol prescribes (get *)
(*     for XEP-0199 / 0092 / 0202 / 0030 / 0363 / 0231, pubsub#owner       *)
(*     configure / default (XEP-0060 8.2, 8.3), muc#owner (XEP-0045 10.2); *)
(*     set for XEP-0280, RFC 6121 2.3-2.5, XEP-0191, XEP-0060 7.1 / 7.2 /  *)
(*     8.1 / 8.2, XEP-0402), addressed to the `to` argument (to nobody =   *)
(*     the account for the account-addressed helpers), with a non-empty id *)
(*     (RFC 6120 8.1.3), whose one payload denotes the arguments.  The     *)
(*     ...IQ variants: "GetIQ is like Get but it allows you to customize   *)
(*     the IQ.  Changing the type of the provided IQ has no effect."       *)
(*  R2 result with the payload the XEP shows: nil error and a value that   *)
(*     denotes the payload (Session.UnmarshalIQ: "otherwise the response   *)
(*     payload is unmarshaled into v"; upload.Slot: "The only valid        *)
(*     headers are Authorization, Cookie, and Expires.  All other headers  *)
(*     will be ignored.")                                                  *)
(*  R3 error reply: a non-nil error from which the stanza.Error (type and  *)
(*     condition) is recovered with errors.As (Session.UnmarshalIQ: "error *)
(*     replies are unmarshaled into a stanza.Error and returned"; roster.  *)
(*     SetIQ: "If the server refuses the change the stanza.Error of its    *)
(*     reply is returned"); ping.Send: "If the remote JID reports that the *)
(*     ping service is unavailable, no error is returned".  An error reply *)
(*     without a recognisable condition is still never a success.          *)
(*  R4 result with a missing / foreign / partly decodable payload: an      *)
(*     error, or nil with the zero value, or nil with a value that denotes *)
(*     what the payload holds (the documents are silent) - never a value   *)
(*     the payload does not hold, never a panic, never a hang.  One        *)
(*     documented restriction: a Slot returned with a nil error "is a      *)
(*     place where a file can be uploaded" and Slot.Put "returns a put     *)
(*     request ... that can be used to upload a file to the slot" - a Slot *)
(*     without a put URL must not come with a nil error.                   *)
(*  R5 the context ends while waiting: the context's error (Session.SendIQ:*)
(*     "If the context is closed before the response is received, SendIQ   *)
(*     immediately returns the context error").                            *)
(*  R6 the serve loop is released and correlation is by id and stanza kind *)
(*     (RFC 6120 8.2.3: the response MUST preserve the id; 8.1.3; stated   *)
(*     as in Correlate.tla: C06_OwnReplyOnly, C06_AtMostOneReply,          *)
(*     C06_UnclaimedToHandler): the call takes at most one item, only an   *)
(*     IQ response with its id, and the first such one that arrives while  *)
(*     it waits; the item it took never reaches the handler; every other   *)
(*     item reaches the handler exactly once, in order - also the items    *)
(*     after the reply (SendIQ: the response "must be closed before stream *)
(*     processing will resume") and a reply that arrives after the call    *)
(*     gave up ("can still be handled by the Serve handler").  Whether a   *)
(*     response with the right id from ANOTHER sender is taken is left     *)
(*     open, as in Correlate.tla (the library matches id and kind only).   *)
(*  R7 nothing else is written to the wire.                                *)
(***************************************************************************)
EXTENDS Integers, Sequences, FiniteSets, TLC

CONSTANTS Dev,        \* named deviations; {} = the rules
          Scenarios   \* universe of the design check: set of [kind, iq, arg, script]

D(d) == d \in Dev

-----------------------------------------------------------------------------
(* helper kinds *)
GetKinds == {"ping", "version", "time", "info", "slot", "psgetcfg", "psgetdefault", "mucgetcfg", "bob"}
SetKinds == {"cenable", "cdisable", "rosterset", "rosterdel", "blockadd", "blockremove", "blockreport", "bmpublish", "bmdelete",
             "pspublish", "pscreate", "pssetcfg", "psdelete", "mucsetcfg"}
Kinds == GetKinds \cup SetKinds
ValueKinds == {"version", "time", "info", "slot", "pspublish", "psgetcfg", "psgetdefault", "mucgetcfg", "bob"}    \* helpers that return a value
IQKinds == Kinds \ {"ping", "time", "bob"}                 \* helpers with an ...IQ variant
ToKinds == {"ping", "version", "time", "info", "slot", "mucgetcfg", "mucsetcfg", "bob"}   \* the plain variant takes the addressee
EchoKinds == {"bmpublish", "bmdelete", "psdelete", "pscreate"}   \* XEP-0060: the success result MAY carry a <pubsub/> element
TypOf(kd) == IF kd \in GetKinds THEN "get" ELSE "set"

NSPing == "urn:xmpp:ping"
NSVersion == "jabber:iq:version"
NSTime == "urn:xmpp:time"
NSInfo == "http://jabber.org/protocol/disco#info"
NSUpload == "urn:xmpp:http:upload:0"
NSCarbons == "urn:xmpp:carbons:2"
NSRoster == "jabber:iq:roster"
NSBlocking == "urn:xmpp:blocking"
NSPubsub == "http://jabber.org/protocol/pubsub"
NSOwner == "http://jabber.org/protocol/pubsub#owner"
NSMucOwner == "http://jabber.org/protocol/muc#owner"
NSBob == "urn:xmpp:bob"
NSBookmarks == "urn:xmpp:bookmarks:1"

(* the payload element of the request: <<local name, namespace>> *)
ReqElem(kd) ==
  CASE kd = "ping" -> <<"ping", NSPing>> [] kd = "version" -> <<"query", NSVersion>> [] kd = "time" -> <<"time", NSTime>>
    [] kd = "info" -> <<"query", NSInfo>> [] kd = "slot" -> <<"request", NSUpload>>
    [] kd = "cenable" -> <<"enable", NSCarbons>> [] kd = "cdisable" -> <<"disable", NSCarbons>>
    [] kd \in {"rosterset", "rosterdel"} -> <<"query", NSRoster>>
    [] kd \in {"blockadd", "blockreport"} -> <<"block", NSBlocking>> [] kd = "blockremove" -> <<"unblock", NSBlocking>>
    [] kd \in {"bmpublish", "bmdelete", "pspublish", "pscreate", "psdelete"} -> <<"pubsub", NSPubsub>>
    [] kd \in {"psgetcfg", "psgetdefault", "pssetcfg"} -> <<"pubsub", NSOwner>>
    [] kd \in {"mucgetcfg", "mucsetcfg"} -> <<"query", NSMucOwner>>
    [] kd = "bob" -> <<"data", NSBob>>

RECURSIVE Flat(_)
Flat(ss) == IF ss = <<>> THEN <<>> ELSE Head(ss) \o Flat(Tail(ss))
Bool(b) == IF b THEN "true" ELSE "false"

(* the submission of form argument "f1": the form of render.go formOK with title := "New" *)
SubmitF1 == <<"x", "submit", "field", "FORM_TYPE", "urn:x:ft", "field", "title", "New">>
SubmitNil == <<"x", "submit">>
FormArg(f) == IF f = "f1" THEN SubmitF1 ELSE SubmitNil

(* what the payload of the request must DENOTE: the arguments, in the symbolic form the driver's wire tap *)
(* (harness/cmd/request/wire.go reqArgs) gives every request                                              *)
ReqArgs(s) ==
  LET a == s.arg kd == s.kind IN
  CASE kd \in {"ping", "version", "time", "cenable", "cdisable", "mucgetcfg"} -> <<>>
    [] kd = "info" -> <<a.node>>
    [] kd = "slot" -> a.s
    [] kd = "bob" -> <<a.item>>
    [] kd = "rosterset" -> <<"item", a.jids[1], a.s[1], a.s[2], "groups">> \o SubSeq(a.s, 3, Len(a.s))
    [] kd = "rosterdel" -> Flat([i \in 1..Len(a.jids) |-> <<"item", a.jids[i], "", "remove", "groups">>])     \* RFC 6121 2.5
    [] kd \in {"blockadd", "blockremove"} -> Flat([i \in 1..Len(a.jids) |-> <<"item", a.jids[i]>>])
    [] kd = "blockreport" ->
         Flat([i \in 1..Len(a.jids) |->
                 IF a.s[1] = "" THEN <<"item", a.jids[i]>>
                 ELSE <<"item", a.jids[i], "report", a.s[1], "ids">> \o (IF a.flag THEN <<"s1", "room@muc.example.org">> ELSE <<>>) \o <<"text", a.s[2]>>])
    [] kd = "bmpublish" -> <<"publish", NSBookmarks, "item", a.jids[1], "conference", NSBookmarks, a.s[1], Bool(a.flag), a.s[2], a.s[3]>>
    [] kd = "bmdelete" -> <<"retract", NSBookmarks, "true", "item", a.jids[1]>>      \* XEP-0402 4.4: notify
    [] kd = "pspublish" -> <<"publish", a.node, "item", a.item, "entry", "urn:x:entry", a.s[1]>>
    [] kd = "pscreate" -> <<"create", a.node>> \o (IF a.form = "nil" THEN <<>> ELSE <<"configure">> \o FormArg(a.form))
    [] kd = "psgetcfg" -> <<"configure", a.node>>
    [] kd = "psgetdefault" -> <<"default">>
    [] kd = "pssetcfg" -> <<"configure", a.node>> \o FormArg(a.form)
    [] kd = "psdelete" -> <<"retract", a.node, Bool(a.flag), "item", a.item>>
    [] kd = "mucsetcfg" -> FormArg(a.form)

ReqTo(s) == IF s.iq \/ s.kind \in ToKinds THEN s.arg.to ELSE ""

(* R1 for one request record q = [req, typ, to, id, pl, ns, a, npl] as seen on the wire *)
ReqOK(s, q) ==
  /\ q.req /\ q.typ = TypOf(s.kind) /\ q.to = ReqTo(s)
  /\ (IF s.iq /\ s.arg.iqid # "" THEN q.id = s.arg.iqid ELSE q.id # "")
  /\ q.npl = 1 /\ <<q.pl, q.ns>> = ReqElem(s.kind) /\ q.a = ReqArgs(s)

-----------------------------------------------------------------------------
(* reply shapes *)
ErrShapes == {"e-su", "e-forbidden", "e-inf", "e-echo"}        \* error replies as RFC 6120 8.3 shows them
BadErrShapes == {"e-nocond", "e-bare"}                         \* type="error" without a recognisable condition
MalShapes == {"empty", "foreign", "text", "wrongns", "partial", "twice"}
AllShapes == {"ok", "rich"} \cup MalShapes \cup ErrShapes \cup BadErrShapes
CondOf(sh) == CASE sh = "e-su" -> <<"service-unavailable", "cancel">> [] sh = "e-forbidden" -> <<"forbidden", "auth">>
                [] sh = "e-inf" -> <<"item-not-found", "cancel">> [] sh = "e-echo" -> <<"bad-request", "modify">>
(* the shapes that make sense for a kind: helpers without a result value have no payload to get wrong *)
ShapesOf(kd) ==
  IF kd \in ValueKinds THEN AllShapes
  ELSE {"ok", "foreign", "text"} \cup ErrShapes \cup BadErrShapes \cup (IF kd \in EchoKinds THEN {"rich"} ELSE {})
(* well-formed for the kind: what the XEP shows as the success reply.  An EMPTY result is the plain success *)
(* reply of pubsub publish (XEP-0060 7.1.2: the item id is a SHOULD)                                          *)
GoodShape(kd, sh) == sh \in {"ok", "rich"} \/ (kd = "pspublish" /\ sh = "empty")

FormOKVal == <<"title", "cfg", "field", "hidden", "FORM_TYPE", "", "urn:x:ft", "field", "text-single", "title", "Title", "T">>
FormRichVal == <<"title", "cfg", "instr", "fill in", "field", "hidden", "FORM_TYPE", "", "urn:x:ft", "field", "text-single", "title", "Title", "T",
                 "field", "list-single", "access", "", "open", "field", "text-multi", "lines", "", "a", "b", "field", "text-single", "plain", "", "p">>

(* the value a well-formed payload denotes (render.go good), in the symbolic form of helpers.go *)
ValueOf(kd, sh, a) ==
  LET rich == sh = "rich" IN
  CASE kd = "version" -> IF rich THEN <<"srv", "1.2", "">> ELSE <<"srv", "1.2", "plan9">>
    [] kd = "time" -> IF rich THEN <<"Z", "2021-03-04T05:06:07.123Z">> ELSE <<"-05:00", "2021-03-04T05:06:07Z">>
    [] kd = "info" ->
         IF rich THEN <<"node", a.node, "identity", "server", "im", "srv", "identity", "pubsub", "pep", "", "feature", "f1", "feature", "f2",
                        "feature", "urn:x:f3", "x", "field", "FORM_TYPE", "urn:x:ft", "field", "os", "plan9">>
         ELSE <<"node", a.node, "identity", "server", "im", "srv", "feature", "f1", "feature", "f2">>
    [] kd = "slot" ->
         IF rich THEN <<"put", "https://up.example.net/p/1?x=1&y=2", "get", "https://dl.example.net/g/1",
                        "header", "Authorization", "Basic abc", "header", "Cookie", "c=1", "header", "Expires", "soon">>
         ELSE <<"put", "https://up.example.net/p/1", "get", "https://dl.example.net/g/1", "header", "Authorization", "Basic abc">>
    [] kd = "pspublish" -> <<"srv-1">>
    [] kd \in {"psgetcfg", "psgetdefault", "mucgetcfg"} -> IF rich THEN FormRichVal ELSE FormOKVal
    [] kd = "bob" -> IF rich THEN <<a.item, "image/png", "hello world", "0">> ELSE <<a.item, "text/plain", "hi", "86400">>
    [] OTHER -> <<>>
Zero == <<>>        \* the zero value of every result type

(* pubsub.Publish returns an item id: the one of the reply, or - the documents are silent - the one it was given *)
PublishIds(a) == {<<"srv-1">>} \cup (IF a.item # "" THEN {<<a.item>>} ELSE {})

(* R4: the non-zero values a helper may return with a nil error for a result that is not well-formed: *)
(* only values whose content is IN the payload                                                         *)
MayVals(kd, sh, a) ==
  CASE kd = "pspublish" -> IF sh \in {"text", "wrongns", "twice"} THEN PublishIds(a) ELSE PublishIds(a) \ {<<"srv-1">>}
    [] sh \in {"text", "wrongns"} -> {ValueOf(kd, "ok", a)}
    [] sh = "twice" -> IF kd \in {"psgetcfg", "psgetdefault"} THEN {ValueOf(kd, "ok", a)}      \* the element asked for comes second
                       ELSE {ValueOf(kd, "ok", a), ValueOf(kd, "rich", a)}
    [] sh = "partial" /\ kd = "version" -> {<<"srv", "", "">>}
    [] sh = "partial" /\ kd = "info" -> {<<"node", a.node, "identity", "", "", "x", "feature", "f1">>, <<"node", a.node, "feature", "f1">>}
    [] OTHER -> {}
(* a Slot returned with a nil error must be usable (Slot.Put): it has a put URL *)
MayZero(kd, sh) == kd # "slot"
(* two payloads where one is expected: a value put together from both still holds only what the reply holds *)
SeqRange(q) == {q[i] : i \in 1..Len(q)}
Merged(kd, sh, a, v) ==
  /\ sh = "twice" /\ kd \notin {"psgetcfg", "psgetdefault", "pspublish"} /\ v # Zero
  /\ SeqRange(v) \subseteq SeqRange(ValueOf(kd, "ok", a)) \cup SeqRange(ValueOf(kd, "rich", a))
  /\ (kd = "slot" => Len(v) >= 2 /\ v[1] = "put" /\ v[2] # "")

Outcome(err, cond, etyp, val) == [err |-> err, cond |-> cond, etyp |-> etyp, val |-> val]
OkVal(v) == Outcome("none", "", "", v)
OtherErr == Outcome("other", "", "", <<>>)
CtxErr == Outcome("ctx", "", "", <<>>)

(* is o an acceptable outcome of helper s for a taken reply of shape sh?  (R2, R3, R4) *)
OutcomeOK(s, sh, o) ==
  LET kd == s.kind IN
  CASE GoodShape(kd, sh) ->
         /\ o.err = "none"
         /\ IF kd = "pspublish" /\ sh = "empty" THEN o.val \in (PublishIds(s.arg) \ {<<"srv-1">>}) \cup {Zero}
            ELSE o.val = ValueOf(kd, sh, s.arg)
    [] sh \in ErrShapes ->
         IF kd = "ping" /\ sh = "e-su" THEN o.err = "none"          \* documented: the entity answered, so it is there
         ELSE o.err = "stanza" /\ <<o.cond, o.etyp>> = CondOf(sh)
    [] sh \in BadErrShapes -> o.err \in {"stanza", "other"}
    [] OTHER ->                                                      \* malformed result: documents silent
         \/ o.err = "other"
         \/ o.err = "none" /\ (IF kd \in ValueKinds
                                THEN (o.val = Zero /\ MayZero(kd, sh)) \/ o.val \in MayVals(kd, sh, s.arg) \/ Merged(kd, sh, s.arg, o.val)
                                ELSE o.val = Zero)

-----------------------------------------------------------------------------
VARIABLES
  sc,          \* the scenario: [kind, iq, arg, script]; script = sequence of [it, shape], it \in reply / wrongid / wrongkind / wrongfrom / extra / cancel
  cpc,         \* the call: idle -> start -> wait -> held -> done
  spc,         \* the serve loop: read -> item -> (lent ->) read ... -> eos -> ended
  k,           \* script items consumed so far
  cancelled,   \* the caller's context is done
  wrote,       \* observer: what the library wrote, in order
  taken,       \* observer: the item the call took for its answer (0 = none)
  handled,     \* observer: [k, waiting]: items the handler was given, and whether the call was waiting then
  lost,        \* observer: items that reached neither the call nor the handler
  out          \* observer: <<>> or <<outcome>>

vars == <<sc, cpc, spc, k, cancelled, wrote, taken, handled, lost, out>>

Script == sc.script
Cur == Script[k]
IsResponse(it) == it.it \in {"reply", "wrongid", "wrongfrom"}          \* an <iq/> of type result / error
Done == cpc = "done"

InitWith(s) ==
  /\ sc = s /\ cpc = "idle" /\ spc = "read" /\ k = 0 /\ cancelled = FALSE
  /\ wrote = <<>> /\ taken = 0 /\ handled = <<>> /\ lost = <<>> /\ out = <<>>
Init == \E s \in Scenarios : InitWith(s)

-----------------------------------------------------------------------------
(* THE RULES *)
R1_Request == cpc \notin {"idle", "start"} => Len(wrote) >= 1 /\ ReqOK(sc, wrote[1])
R7_NothingElse == Len(wrote) <= 1
TakenShape == Script[taken].shape
R2_Result == Done /\ taken # 0 /\ GoodShape(sc.kind, TakenShape) => OutcomeOK(sc, TakenShape, out[1])
R3_ErrorReply == Done /\ taken # 0 /\ TakenShape \in ErrShapes \cup BadErrShapes => OutcomeOK(sc, TakenShape, out[1])
R4_Malformed == Done /\ taken # 0 /\ ~GoodShape(sc.kind, TakenShape) /\ TakenShape \in MalShapes => OutcomeOK(sc, TakenShape, out[1])
R5_Context ==
  /\ Done /\ taken = 0 => cancelled /\ out[1] = CtxErr /\ Len(wrote) >= 1
  /\ Done /\ taken # 0 => out[1].err # "ctx"
HandledKs == [i \in 1..Len(handled) |-> handled[i].k]
Expected(n) == SelectSeq([i \in 1..n |-> i], LAMBDA i : Script[i].it # "cancel" /\ i # taken)     \* everything but the answer goes to the handler
R6_Release ==
  /\ taken # 0 => Script[taken].it \in {"reply", "wrongfrom"}                       \* only a response with its id and kind
  /\ \A i \in 1..Len(handled) : handled[i].k # taken                                \* which never reaches the handler
  /\ \A i \in 1..Len(handled) : Script[handled[i].k].it = "reply" => ~handled[i].waiting      \* and is not withheld from a waiting call
  /\ lost = <<>>
  /\ \A i, j \in 1..Len(handled) : i < j => handled[i].k < handled[j].k             \* once each, in order
  /\ (spc = "read" => HandledKs = Expected(k))                                      \* every other item, also those after the reply
  /\ (spc \in {"eos", "ended"} => Done /\ k = Len(Script))
Safety == R1_Request /\ R2_Result /\ R3_ErrorReply /\ R4_Malformed /\ R5_Context /\ R6_Release /\ R7_NothingElse

AllRules == {"R1_Request", "R2_Result", "R3_ErrorReply", "R4_Malformed", "R5_Context", "R6_Release", "R7_NothingElse"}
SafetyOf(only) ==
  /\ ("R1_Request" \in only => R1_Request) /\ ("R2_Result" \in only => R2_Result) /\ ("R3_ErrorReply" \in only => R3_ErrorReply)
  /\ ("R4_Malformed" \in only => R4_Malformed) /\ ("R5_Context" \in only => R5_Context) /\ ("R6_Release" \in only => R6_Release)
  /\ ("R7_NothingElse" \in only => R7_NothingElse)

-----------------------------------------------------------------------------
(* MECHANISM *)
TheRequest ==
  LET e == ReqElem(sc.kind)
      q == [req |-> TRUE, typ |-> TypOf(sc.kind), to |-> ReqTo(sc), id |-> IF sc.iq /\ sc.arg.iqid # "" THEN sc.arg.iqid ELSE "generated",
            pl |-> e[1], ns |-> e[2], a |-> ReqArgs(sc), npl |-> 1]
  IN CASE D("WrongType") -> [q EXCEPT !.typ = IF @ = "get" THEN "set" ELSE "get"]
       [] D("ToDropped") -> [q EXCEPT !.to = ""]
       [] D("CallerIdLost") /\ sc.iq -> [q EXCEPT !.id = "generated"]
       [] D("ArgDropped") /\ q.a # <<>> -> [q EXCEPT !.a = SubSeq(@, 1, Len(@) - 1)]
       [] D("PayloadMissing") -> [q EXCEPT !.npl = 0, !.pl = "", !.ns = "", !.a = <<>>]
       [] OTHER -> q

Call ==
  /\ cpc = "idle" /\ cpc' = "start"
  /\ UNCHANGED <<sc, spc, k, cancelled, wrote, taken, handled, lost, out>>

(* the helper writes its request and waits.  Deviation TypeNotForced: the ...IQ variant sends the caller's *)
(* type; a "result" is no request, nothing is waited for                                                    *)
WriteReq ==
  /\ cpc = "start"
  /\ IF D("TypeNotForced") /\ sc.iq /\ sc.arg.iqtyp \in {"result", "error"}
     THEN /\ wrote' = Append(wrote, [TheRequest EXCEPT !.req = FALSE, !.typ = sc.arg.iqtyp])
          /\ cpc' = "done" /\ out' = <<OkVal(Zero)>>
     ELSE /\ wrote' = (IF D("TwoRequests") THEN wrote \o <<TheRequest, TheRequest>> ELSE Append(wrote, TheRequest))
          /\ cpc' = "wait" /\ out' = out
  /\ UNCHANGED <<sc, spc, k, cancelled, taken, handled, lost>>

(* the lazy peer: the next item arrives when the serve loop asks for input, the call is out, and a call whose *)
(* context was cancelled has returned                                                                         *)
Settled == cpc \in {"wait", "done"} /\ ~(cpc = "wait" /\ cancelled)
Peer ==
  /\ spc = "read" /\ Settled /\ k < Len(Script) /\ Script[k + 1].it # "cancel"
  /\ k' = k + 1 /\ spc' = "item"
  /\ UNCHANGED <<sc, cpc, cancelled, wrote, taken, handled, lost, out>>

CancelItem ==
  /\ spc = "read" /\ Settled /\ k < Len(Script) /\ Script[k + 1].it = "cancel"
  /\ k' = k + 1 /\ cancelled' = TRUE
  /\ UNCHANGED <<sc, cpc, spc, wrote, taken, handled, lost, out>>

(* nothing more will come: the caller gives up (what a caller can always do) *)
GiveUp ==
  /\ spc = "read" /\ cpc = "wait" /\ k = Len(Script) /\ ~cancelled
  /\ cancelled' = TRUE
  /\ UNCHANGED <<sc, cpc, spc, k, wrote, taken, handled, lost, out>>

CtxRet ==
  /\ cpc = "wait" /\ cancelled /\ spc = "read" /\ ~D("CtxIgnored")
  /\ out' = <<IF D("CtxErrorLost") THEN OkVal(Zero) ELSE CtxErr>>
  /\ cpc' = "done"
  /\ UNCHANGED <<sc, spc, k, cancelled, wrote, taken, handled, lost>>

(* the serve loop looks the element up: session.go matches the stanza kind and the id *)
Matches(it) ==
  \/ it.it \in {"reply", "wrongfrom"}
  \/ it.it = "wrongid" /\ D("WrongIdTaken")
  \/ it.it = "wrongkind" /\ D("WrongKindTaken")
Take ==
  /\ spc = "item" /\ cpc = "wait" /\ Matches(Cur) /\ ~D("ReplyToHandler")
  /\ taken' = k /\ cpc' = "held" /\ spc' = "lent"
  /\ handled' = (IF D("ReplyAlsoHandled") THEN Append(handled, [k |-> k, waiting |-> TRUE]) ELSE handled)
  /\ UNCHANGED <<sc, k, cancelled, wrote, lost, out>>
Handle ==
  /\ spc = "item"
  /\ \/ cpc # "wait" \/ ~Matches(Cur) \/ Cur.it = "wrongfrom" \/ D("ReplyToHandler")
  /\ IF D("LateReplyDropped") /\ cpc = "done" /\ Cur.it = "reply"
     THEN lost' = Append(lost, k) /\ handled' = handled
     ELSE lost' = lost /\ handled' = Append(handled, [k |-> k, waiting |-> cpc = "wait"])
  /\ spc' = "read"
  /\ UNCHANGED <<sc, cpc, k, cancelled, wrote, taken, out>>

(* what the helper may return for the reply it holds: everything the rules allow, changed by the deviations *)
Allowed(s, sh) ==
  LET kd == s.kind
      vals == IF kd \in ValueKinds THEN MayVals(kd, sh, s.arg) \cup (IF MayZero(kd, sh) THEN {Zero} ELSE {}) ELSE {Zero}
  IN CASE GoodShape(kd, sh) ->
            IF kd = "pspublish" /\ sh = "empty" THEN {OkVal(v) : v \in (PublishIds(s.arg) \ {<<"srv-1">>}) \cup {Zero}}
            ELSE {OkVal(ValueOf(kd, sh, s.arg))}
       [] sh \in ErrShapes -> IF kd = "ping" /\ sh = "e-su" THEN {OkVal(Zero)} ELSE {Outcome("stanza", CondOf(sh)[1], CondOf(sh)[2], <<>>)}
       [] sh \in BadErrShapes -> {Outcome("stanza", "", IF sh = "e-nocond" THEN "cancel" ELSE "", <<>>), OtherErr}
       [] OTHER -> {OtherErr} \cup {OkVal(v) : v \in vals}
Returns(s, sh) ==
  LET kd == s.kind IN
  CASE D("ErrorReplyTakenAsSuccess") /\ sh \in ErrShapes \cup BadErrShapes -> {OkVal(Zero)}
    [] D("ErrorConditionLost") /\ sh \in ErrShapes -> {OtherErr}
    [] D("PingUnavailableFails") /\ kd = "ping" /\ sh = "e-su" -> {Outcome("stanza", "service-unavailable", "cancel", <<>>)}
    [] D("ValueDropped") /\ GoodShape(kd, sh) /\ kd \in ValueKinds -> {OkVal(Zero)}
    [] D("HeadersNotFiltered") /\ kd = "slot" /\ sh = "rich" ->
         {OkVal(ValueOf(kd, sh, s.arg) \o <<"header", "X-Evil", "1">>)}
    [] D("FirstChildTaken") /\ kd \in {"psgetcfg", "psgetdefault"} /\ sh = "twice" -> {OkVal(FormRichVal)}
    [] D("ZeroValueOnMalformed") /\ sh \in MalShapes /\ ~GoodShape(kd, sh) -> {OkVal(Zero)}
    [] D("PanicOnMalformed") /\ sh \in MalShapes /\ ~GoodShape(kd, sh) -> {Outcome("panic", "", "", <<>>)}
    [] D("StaleValueOnMalformed") /\ sh \in {"empty", "foreign"} /\ kd \in ValueKinds \ {"pspublish"} -> {OkVal(ValueOf(kd, "ok", s.arg))}
    [] OTHER -> Allowed(s, sh)

(* the helper decodes the response, closes it - the serve loop goes on - and returns *)
Return ==
  /\ cpc = "held"
  /\ \E o \in Returns(sc, Script[taken].shape) : out' = <<o>>
  /\ cpc' = "done"
  /\ spc' = (IF D("ResponseNotClosed") THEN spc ELSE "read")
  /\ UNCHANGED <<sc, k, cancelled, wrote, taken, handled, lost>>

Eos ==
  /\ spc = "read" /\ Done /\ k = Len(Script)
  /\ spc' = "ended"
  /\ UNCHANGED <<sc, cpc, k, cancelled, wrote, taken, handled, lost, out>>

Next == Call \/ WriteReq \/ Peer \/ CancelItem \/ GiveUp \/ CtxRet \/ Take \/ Handle \/ Return \/ Eos
Spec == Init /\ [][Next]_vars

(* liveness: under fairness of the peer script, the serve loop and the call, every call returns and the *)
(* serve loop gets to the end of the stream                                                             *)
FairSpec == Spec /\ WF_vars(Call) /\ WF_vars(WriteReq) /\ WF_vars(Peer) /\ WF_vars(CancelItem) /\ WF_vars(GiveUp) /\ WF_vars(CtxRet)
                 /\ WF_vars(Take \/ Handle) /\ WF_vars(Return) /\ WF_vars(Eos)
L_Returns == <>(cpc = "done")
L_Released == <>(spc = "ended")
=============================================================================
