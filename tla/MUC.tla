-------------------------------- MODULE MUC --------------------------------
(***************************************************************************)
(* C18 - MUC membership follows the room's presence exactly (muc/muc.go,   *)
(* muc/room.go) - and the MUC part of C06 (one outcome per call, no stall).*)
(*                                                                         *)
(* The module has two layers that share the environment actions.           *)
(*                                                                         *)
(* OBSERVER (O...): what the PROPERTY says about the events visible from   *)
(* outside: client calls (join / rejoin / leave), their requests appearing *)
(* on the wire, cancellations, stanzas the room sends, the serve loop      *)
(* finishing a stanza, call returns, samples of Channel.Joined(), callback *)
(* invocations.  It keeps, per call, which outcomes the room's stanzas have*)
(* made possible (cand), whether an answer is owed (owed: a decisive stanza *)
(* sent after the request was seen has been processed: the call must not   *)
(* be found still waiting once nothing else can move), and the             *)
(* SPECIFICATION's notion of membership mem[r].  A disagreement of an event with the property puts   *)
(* the name of the broken clause into viol.  Where the property is silent  *)
(* (contradictory room behaviour, ties between reply and cancellation,     *)
(* membership after a failed leave) every outcome is accepted.             *)
(*                                                                         *)
(* MECHANISM (M...): the rendezvous protocol of the package, one action    *)
(* per step of the code: table of managed rooms, join buffer (capacity 1,  *)
(* may hold a stale entry), depart signal, per-call program counter.  The  *)
(* design check (pipeline A) runs mechanism x observer exhaustively and    *)
(* shows viol = {} for every order of calls, cancellations and stanzas;    *)
(* each named deviation in Dev re-introduces one defect of the pinned code *)
(* and must make TLC find the corresponding violation (non-vacuity).       *)
(* Trace validation (TrMUC) uses the observer alone: a real run is checked *)
(* against the property, not against this mechanism.                       *)
(***************************************************************************)
EXTENDS Integers, Sequences, FiniteSets, TLC

CONSTANTS Rooms,     \* rooms the client calls on
          Foreign,   \* a room that is never joined
          CallIds,   \* sequence of call ids in the order they are used
          MaxEnv,    \* bound on environment steps (MC only)
          MaxFlight, \* bound on unprocessed stanzas (MC only)
          Alphabet,  \* stanzas the room may send (MC only)
          Splits,    \* whether the room may deliver a stanza in two pieces (MC only)
          Aux,       \* the fire-and-forget calls the application may make on a channel (MC only): subset of AuxKinds
          Dev        \* named deviations (re-introduced defects), {} = the property

Me == "me"
None == "-"
CallSet == {CallIds[i] : i \in 1..Len(CallIds)}
Idx(c) == CHOOSE i \in 1..Len(CallIds) : CallIds[i] = c
JoinKinds == {"join", "rejoin", "renick"}
(* Channel.Subject / Channel.Invite: they send one message and wait for nothing; the application may *)
(* make them at any time on a channel it holds, also while a Leave of that channel is pending        *)
AuxKinds == {"subject", "invite"}
(* A member r of Rooms names a CHANNEL = the occupant address its first join asked for.  "r1b" is a  *)
(* second channel in room r1 under another nickname (Client.Join for r1/me2 while the channel for     *)
(* r1/me exists): to each of them the presences of the other one are those of another occupant.      *)
RoomOf(r) == IF r = "r1b" THEN "r1" ELSE r
NickOf(r) == IF r = "r1b" THEN "me2" ELSE Me
(* the stanza error condition the scripted room uses when it refuses call c *)
CondOf == [c \in {"c1", "c2", "c3", "c4", "c5", "c6"} |->
             CASE c = "c1" -> "conflict" [] c = "c2" -> "forbidden" [] c = "c3" -> "not-allowed"
               [] c = "c4" -> "item-not-found" [] c = "c5" -> "not-acceptable" [] OTHER -> "gone"]

VARIABLES
  \* observer
  kind, room, st, res,     \* per call: kind, room, idle|pending|done, outcome
  cancelled, wire,         \* calls whose context was cancelled / whose request was seen on the wire
  cand,                    \* per call: outcomes made possible by stanzas in flight while it was pending
  owed,                    \* calls whose decisive stanza has been processed: they must return
  dirty,                   \* join calls during which the room also sent the unavailable self-presence
  memAt,                   \* membership of the room when the call started
  mem, has,                \* the specification's membership per room; rooms with a Channel object
  inflight,                \* stanzas sent by the room and not yet processed by the serve loop
  cbs, ups,                \* invitations handed to the callbacks (a sequence) / user-presence callbacks since the last processed stanza
  viol, nenv,
  nk,                      \* nicknames: which occupant address of its room a channel holds / has asked for (see NICKNAMES below)
  \* mechanism
  managed, jbuf, depart, jflag, pc, sent,
  hold,                    \* the call whose sender goroutine has been handed the error reply and has not closed it yet
  mk                       \* per channel: the nicknames registered for it in the table (reg) and the address it holds (caddr)

ovars == <<kind, room, st, res, cancelled, wire, cand, owed, dirty, memAt, mem, has, inflight, cbs, ups, viol, nenv, nk>>
mvars == <<managed, jbuf, depart, jflag, pc, sent, hold, mk>>
vars == <<ovars, mvars>>

OInit ==
  /\ kind = [c \in CallSet |-> None] /\ room = [c \in CallSet |-> None]
  /\ st = [c \in CallSet |-> "idle"] /\ res = [c \in CallSet |-> None]
  /\ cancelled = {} /\ wire = {} /\ cand = [c \in CallSet |-> {}] /\ owed = {} /\ dirty = {}
  /\ memAt = [c \in CallSet |-> None]
  /\ mem = [r \in Rooms |-> "out"] /\ has = {}
  /\ inflight = <<>> /\ cbs = <<>> /\ ups = 0 /\ viol = {} /\ nenv = 0
  /\ nk = [cur |-> [r \in Rooms |-> NickOf(r)], ghost |-> [r \in Rooms |-> None], amb |-> {}, ren |-> {},
           want |-> [c \in CallSet |-> None], seen |-> [c \in CallSet |-> {}]]
MInit ==
  /\ managed = {} /\ jbuf = [r \in Rooms |-> <<>>] /\ depart = [r \in Rooms |-> 0]
  /\ jflag = [r \in Rooms |-> FALSE] /\ pc = [c \in CallSet |-> "idle"] /\ sent = {} /\ hold = None
  /\ mk = [reg |-> [r \in Rooms |-> {NickOf(r)}], caddr |-> [r \in Rooms |-> NickOf(r)]]
Init == OInit /\ MInit

(* SHAPES of an error reply (s.shape; "-" for every other stanza).  The room answers a request with  *)
(* <presence type="error" id=...>; what stands inside is the peer's choice:                          *)
(*   well-formed (the reply carries ONE decodable stanza error, the call returns exactly that):      *)
(*     "wf" the muc payload echoed, then the error; "nox" the error alone; "ux" a muc#user payload    *)
(*     before the error; "pre" character data and foreign elements before the error; "post" further   *)
(*     children after the error;                                                                      *)
(*   malformed (no stanza error the property could name: the call still returns, with SOME error):   *)
(*     "bare" no children at all; "noerr" children but no <error/>; "wrongns" an <error/> of a        *)
(*     foreign namespace; "empty" <error/> without type and condition; "badby" an attribute that      *)
(*     cannot be decoded; "unktype" an unknown type attribute; "text" a text and no condition.        *)
(* Whatever the shape: the reply answers that request (Decisive), the call returns, the reply is     *)
(* released (the serve loop goes on with the next stanza), and membership follows the property.      *)
WellFormedShapes == {"wf", "nox", "ux", "pre", "post"}
MalformedShapes == {"bare", "noerr", "wrongns", "empty", "badby", "unktype", "text"}
Malformed(s) == s.ty = "er" /\ s.shape \notin WellFormedShapes
AnyErr == "any-error"      \* member of cand[c]: a malformed error reply to c is on its way, every error outcome is acceptable

(* NICKNAMES.  A "renick" call = Channel.Join with the Nick option on a channel that has an occupant     *)
(* address: it asks the room for the OTHER nickname (Other).  The room may grant it (self-presence of   *)
(* the new address, preceded or not by the unavailable presence of the old one), refuse it (error) or   *)
(* say nothing; until the room has granted it the occupant HOLDS THE OLD ADDRESS, whose presences are   *)
(* the ones membership follows; the presences of the address asked for and not granted are another     *)
(* occupant's (whoever has that nickname).  nk.cur[r]: the nickname of the address channel r holds (or *)
(* will ask for); nk.want[c]: the nickname a renick call c asks for; nk.seen[c]: which of the two       *)
(* addresses the room has sent a self-presence for while c was pending; nk.ghost[r]: an address the     *)
(* room has never vacated although it granted another one (its unavailable presence leaves membership  *)
(* undetermined); nk.amb: channels for which the room confirmed BOTH addresses during one call (nothing *)
(* is required of them any more); nk.ren: channels that ever had a renick call (Me() is not judged).    *)
Other(n) == IF n = Me THEN "me2" ELSE Me
FromCur(s, r) == s.room = RoomOf(r) /\ s.nick = nk.cur[r]
FromWant(s, c) == nk.want[c] # None /\ s.room = RoomOf(room[c]) /\ s.nick = nk.want[c]
(* the channel whose (held) occupant address stanza s comes from (None: nobody's) *)
Ch(s) == IF \E r \in Rooms : FromCur(s, r) THEN CHOOSE r \in Rooms : FromCur(s, r) ELSE None
Pending(c) == st[c] = "pending"
PendingOn(r) == {c \in CallSet : Pending(c) /\ room[c] = r /\ kind[c] \notin AuxKinds}

(* a renick call may return success after the self-presence of either address (the one it holds: the room  *)
(* ignored the change; the one it asked for: granted); it is OWED a return only by the one it asked for   *)
PositiveK(s, k, r) ==
  \/ k \in JoinKinds /\ s.ty = "av" /\ FromCur(s, r)
  \/ k = "renick" /\ s.ty = "av" /\ s.room = RoomOf(r) /\ s.nick = Other(nk.cur[r])
  \/ k = "leave" /\ s.ty = "un" /\ FromCur(s, r)
Positive(s, c) == PositiveK(s, kind[c], room[c])
ErrFor(s, c) == s.ty = "er" /\ s.call = c
Decisive(s, c) == (IF kind[c] = "renick" THEN s.ty = "av" /\ FromWant(s, c) ELSE Positive(s, c)) \/ ErrFor(s, c)
SelfUn(s, r) == s.ty = "un" /\ FromCur(s, r)

-----------------------------------------------------------------------------
(* OBSERVER *)

OCall(c, k, r) ==
  /\ st[c] = "idle" /\ \A d \in CallSet : Idx(d) < Idx(c) => st[d] # "idle"
  /\ r \in Rooms
  /\ (IF k \in AuxKinds THEN r \in has                   \* the application holds the Channel
      ELSE PendingOn(r) = {} /\ (k = "join") = (r \notin has))
  /\ nk' = IF k = "renick"
           THEN [nk EXCEPT !.want[c] = Other(nk.cur[r]), !.ren = @ \cup {r},
                           \* (self-presences the room sent before the call and that are not processed yet)
                           !.seen[c] = (IF \E i \in 1..Len(inflight) : inflight[i].ty = "av" /\ FromCur(inflight[i], r) THEN {"cur"} ELSE {})
                                       \cup (IF \E i \in 1..Len(inflight) : inflight[i].ty = "av" /\ inflight[i].room = RoomOf(r)
                                                                              /\ inflight[i].nick = Other(nk.cur[r]) THEN {"want"} ELSE {})]
           ELSE nk
  /\ st' = [st EXCEPT ![c] = "pending"] /\ kind' = [kind EXCEPT ![c] = k] /\ room' = [room EXCEPT ![c] = r]
  /\ has' = has \cup {r}
  /\ memAt' = [memAt EXCEPT ![c] = mem[r]]
  /\ mem' = [mem EXCEPT ![r] = CASE k \in JoinKinds /\ @ = "out" -> "joining"
                                 [] k = "leave" /\ @ = "in" -> "leaving"
                                 [] OTHER -> @]
  /\ cand' = [cand EXCEPT ![c] = IF \E i \in 1..Len(inflight) : PositiveK(inflight[i], k, r) THEN {"ok"} ELSE {}]
  /\ dirty' = IF (k \in JoinKinds /\ (\E i \in 1..Len(inflight) : SelfUn(inflight[i], r)))
                \/ (k = "renick" /\ (\E i \in 1..Len(inflight) : inflight[i].ty = "un" /\ inflight[i].room = RoomOf(r) /\ inflight[i].nick = Other(nk.cur[r])))
             THEN dirty \cup {c} ELSE dirty
  /\ UNCHANGED <<res, cancelled, wire, owed, inflight, cbs, ups, viol>>

OWire(c) ==
  /\ st[c] # "idle" /\ wire' = wire \cup {c}
  /\ UNCHANGED <<kind, room, st, res, cancelled, cand, owed, dirty, memAt, mem, has, inflight, cbs, ups, viol, nk>>

OCancel(c) ==
  /\ st[c] # "idle" /\ cancelled' = cancelled \cup {c}
  /\ UNCHANGED <<kind, room, st, res, wire, cand, owed, dirty, memAt, mem, has, inflight, cbs, ups, viol, nk>>

(* the room begins to send stanza s = [ty, room, nick, call, n, lay, pw, shape, codes, item]; part:   *)
(* only a first piece of its bytes is delivered for now (the remainder follows with ORest).          *)
(* PAYLOAD CONTENT of a presence (s.codes, s.item): the muc#user element of an (un)available presence *)
(* carries status codes - s.codes, in document order: 110 self, 100 / 170 room configuration, 201     *)
(* created, 210 nick modified, 301 banned, 303 new nickname, 307 kicked, 321 / 322 / 332 / 333        *)
(* removed - and an item whose attributes and children vary (s.item: affiliation / role, nick, real   *)
(* jid, actor and reason, a sibling <destroy/>, no item at all, item before or after the codes).      *)
(* The property speaks of "the occupant's unavailable presence" and "the self-presence for the        *)
(* occupant address": WHICH presence it is follows from its type and its sender address alone, so no  *)
(* clause of the observer reads codes or item - they are carried along for the deviations of the      *)
(* mechanism (code that does look at them) and for the reports.                                       *)
OSend(s, part) ==
  /\ inflight' = Append(inflight, [ty |-> s.ty, room |-> s.room, nick |-> s.nick, call |-> s.call, n |-> s.n,
                                   lay |-> s.lay, pw |-> s.pw, shape |-> s.shape, codes |-> s.codes, item |-> s.item, part |-> part,
                                   after |-> {c \in wire : Pending(c) /\ c \notin cancelled}])
  /\ cand' = [c \in CallSet |-> IF Pending(c)
                                THEN cand[c] \cup (IF Positive(s, c) THEN {"ok"} ELSE {})
                                             \cup (IF ErrFor(s, c) THEN {IF Malformed(s) THEN AnyErr ELSE CondOf[c]} ELSE {})
                                ELSE cand[c]]
  /\ dirty' = dirty \cup {c \in CallSet : Pending(c) /\ kind[c] \in JoinKinds /\ SelfUn(s, room[c])}
                   \cup {c \in CallSet : Pending(c) /\ s.ty = "un" /\ FromWant(s, c)}     \* (granted and vacated again during the call)
  /\ nk' = [nk EXCEPT !.seen = [c \in CallSet |-> IF Pending(c) /\ kind[c] = "renick" /\ s.ty = "av"
                                                 THEN @[c] \cup (IF FromCur(s, room[c]) THEN {"cur"} ELSE {}) \cup (IF FromWant(s, c) THEN {"want"} ELSE {})
                                                 ELSE @[c]]]
  /\ UNCHANGED <<kind, room, st, res, cancelled, wire, owed, memAt, mem, has, cbs, ups, viol>>

(* the remainder of the partly delivered stanza arrives *)
Partial == \E i \in 1..Len(inflight) : inflight[i].part
ORest ==
  /\ inflight' = [i \in 1..Len(inflight) |-> [inflight[i] EXCEPT !.part = FALSE]]
  /\ UNCHANGED <<kind, room, st, res, cancelled, wire, cand, owed, dirty, memAt, mem, has, cbs, ups, viol, nk>>

(* INVITATIONS.  An invitation message (ty = "inv") has the children lay (document order):   *)
(* "b" body, "t" thread, "u" the muc#user payload with n <invite/> elements (each with its   *)
(* own reason, numbered 0..n-1) and, if pw, the password; "c" a jabber:x:conference element  *)
(* = one direct invitation to h.room (reason number 9, the password if pw).  The order of    *)
(* the children of a stanza carries no meaning.  The property: every mediated invitation     *)
(* reaches the client's callback, every direct one the function registered for direct        *)
(* invitations, each exactly once, with its fields; nothing else reaches them.               *)
HasChild(h, k) == \E i \in 1..Len(h.lay) : h.lay[i] = k
PwOf(h) == IF h.pw THEN "ok" ELSE "none"
Mediated(h) == IF h.ty = "inv" /\ HasChild(h, "u")
               THEN [i \in 1..h.n |-> [kind |-> "med", ns |-> "user", k |-> i - 1, pw |-> PwOf(h), room |-> "-"]]
               ELSE <<>>
Direct(h) == IF h.ty = "inv" /\ HasChild(h, "c")
             THEN <<[kind |-> "dir", ns |-> "conf", k |-> 9, pw |-> PwOf(h), room |-> h.room]>>
             ELSE <<>>
Invitations(h) == Mediated(h) \o Direct(h)
OfKind(sq, kd) == SelectSeq(sq, LAMBDA x : x.kind = kd)
(* (an Invitation without a name IS a mediated one: "the default is mediated", muc/invites.go) *)
MedNorm(sq) == [i \in 1..Len(sq) |-> [sq[i] EXCEPT !.ns = IF @ = "none" THEN "user" ELSE @]]
CountIn(x, sq) == Cardinality({i \in 1..Len(sq) : sq[i] = x})
SameBag(a, b) == /\ Len(a) = Len(b)
                 /\ \A i \in 1..Len(a) : CountIn(a[i], a) = CountIn(a[i], b)

(* the serve loop has finished with the oldest unprocessed stanza; d = what the handler saw *)
HandledMatches(h, d) ==
  /\ d.ty = h.ty
  /\ (h.ty = "er" => d.call = h.call)
  /\ (h.ty \in {"av", "un"} => d.room = h.room /\ d.nick = h.nick)
  /\ (h.ty = "inv" => d.room = h.room)

OHandled(d) ==
  /\ inflight # <<>>
  /\ LET h == Head(inflight) IN
     /\ HandledMatches(h, d)
     /\ inflight' = Tail(inflight)
     \* the unavailable presence of the address the channel holds: out (while a join of the channel is pending: not in
     \* until that call has returned); of an address the room never vacated while granting another: undetermined
     /\ mem' = [r \in Rooms |->
                 CASE h.ty = "un" /\ FromCur(h, r) /\ mem[r] \in {"in", "leaving", "unk"} ->
                        IF \E c \in PendingOn(r) : kind[c] \in JoinKinds THEN "joining" ELSE "out"
                   [] h.ty = "un" /\ h.room = RoomOf(r) /\ h.nick = nk.ghost[r] /\ mem[r] \in {"in", "leaving"} -> "unk"
                   [] h.ty = "un" /\ mem[r] \in {"in", "leaving"} /\ (\E c \in PendingOn(r) : FromWant(h, c) /\ "want" \in nk.seen[c]) -> "unk"
                   [] OTHER -> mem[r]]
     /\ nk' = [nk EXCEPT !.ghost = [r \in Rooms |-> IF h.ty = "un" /\ h.room = RoomOf(r) /\ h.nick = @[r] THEN None ELSE @[r]]]
     /\ owed' = owed \cup {c \in h.after : /\ Pending(c) /\ c \notin dirty
                                             /\ Decisive(h, c)
                                             /\ (kind[c] = "leave" => memAt[c] = "in")}
     /\ viol' = viol \cup (IF SameBag(MedNorm(OfKind(cbs, "med")), Mediated(h)) THEN {} ELSE {"C18_InviteExactlyOnce"})
                     \cup (IF SameBag(OfKind(cbs, "dir"), Direct(h)) /\ Len(OfKind(cbs, "med")) + Len(OfKind(cbs, "dir")) = Len(cbs)
                           THEN {} ELSE {"C18_DirectInviteExactlyOnce"})
                     \cup (IF h.room \notin {RoomOf(r) : r \in has} /\ h.ty \in {"av", "un"} /\ ups > 0 THEN {"C18_ForeignIgnored"} ELSE {})
  /\ cbs' = <<>> /\ ups' = 0
  /\ UNCHANGED <<kind, room, st, res, cancelled, wire, cand, dirty, memAt, has>>

RetGood(c, o, cond) ==
  CASE kind[c] \in AuxKinds -> o \in {"ok", "err", "other"} \/ (o = "ctx" /\ c \in cancelled)   \* (whether the message could be sent is the session's business)
    [] o = "ok" -> "ok" \in cand[c]
    [] o = "err" -> cond \in cand[c] \/ AnyErr \in cand[c]
    [] o = "other" -> AnyErr \in cand[c]          \* an error that is no stanza error: only for a malformed error reply
    [] o = "ctx" -> c \in cancelled
    [] OTHER -> FALSE
RetClause(c, o) ==
  CASE kind[c] \in AuxKinds -> "C18_CtxErr"
    [] o = "ok" /\ kind[c] \in JoinKinds -> "C18_JoinOK"
    [] o = "ok" -> "C18_LeaveOK"
    [] o \in {"err", "other"} -> "C18_JoinErr"
    [] o = "ctx" -> "C18_CtxErr"
    [] OTHER -> "C18_Outcome"

ORet(c, o, cond) ==
  /\ Pending(c)
  /\ st' = [st EXCEPT ![c] = "done"] /\ res' = [res EXCEPT ![c] = o]
  /\ viol' = viol \cup (IF RetGood(c, o, cond) THEN {} ELSE {RetClause(c, o)})
  /\ mem' = [mem EXCEPT ![room[c]] =
               CASE kind[c] \in JoinKinds /\ o = "ok" -> IF c \in dirty THEN "unk" ELSE "in"
                 [] kind[c] \in JoinKinds /\ @ = "joining" -> "out"
                 [] kind[c] = "leave" /\ @ = "leaving" /\ o = "ctx" -> "in"
                 [] kind[c] = "leave" /\ @ = "leaving" -> "unk"
                 [] OTHER -> @]
  /\ nk' = IF kind[c] # "renick" THEN nk
           ELSE LET r == room[c] sc == "cur" \in nk.seen[c] sw == "want" \in nk.seen[c] IN
                CASE o = "ok" /\ sw /\ ~sc -> [nk EXCEPT !.cur[r] = nk.want[c], !.ghost[r] = IF c \in dirty THEN None ELSE nk.cur[r]]
                  [] o = "ok" /\ sw /\ sc -> [nk EXCEPT !.amb = @ \cup {r}]
                  [] o # "ok" /\ sw -> [nk EXCEPT !.amb = @ \cup {r}]       \* granted although the call had given up
                  [] OTHER -> nk
  /\ UNCHANGED <<kind, room, cancelled, wire, cand, owed, dirty, memAt, has, inflight, cbs, ups>>

(* Channel.Joined() sampled between steps *)
JoinedMay(r) ==
  CASE r \in nk.amb -> BOOLEAN
    [] mem[r] \in {"in", "leaving"} -> {TRUE}
    [] mem[r] = "out" -> {FALSE}
    [] mem[r] = "joining" -> IF \E c \in PendingOn(r) : "ok" \in cand[c] THEN BOOLEAN ELSE {FALSE}
    [] OTHER -> BOOLEAN
OObs(r, j, me, addr) ==
  /\ r \in has
  /\ viol' = viol \cup (IF j \in JoinedMay(r) THEN {} ELSE {"C18_JoinedIffIn"})
                  \cup (IF (me = NickOf(r) \/ r \in nk.ren) /\ addr = RoomOf(r) THEN {} ELSE {"C18_Me"})
  /\ UNCHANGED <<kind, room, st, res, cancelled, wire, cand, owed, dirty, memAt, mem, has, inflight, cbs, ups, nk>>

OInviteCb(cb) ==
  /\ cbs' = Append(cbs, cb)
  /\ UNCHANGED <<kind, room, st, res, cancelled, wire, cand, owed, dirty, memAt, mem, has, inflight, ups, viol, nk>>
OUserPres ==
  /\ ups' = ups + 1
  /\ UNCHANGED <<kind, room, st, res, cancelled, wire, cand, owed, dirty, memAt, mem, has, inflight, cbs, viol, nk>>

(* Nothing can move any more without the environment (every goroutine is blocked): a call *)
(* must not be found waiting when its context has ended or its answer has been processed, *)
(* nor with a live context and its request never sent (the room can then never answer);  *)
(* and no stanza is left unprocessed: the serve loop is not waiting for a reply that a    *)
(* caller / helper was handed and never released                                          *)
StallClauses ==
  {"C06_CallReturns" : c \in {c \in CallSet : Pending(c) /\ c \in cancelled}}
  \cup {"C18_JoinCompletes" : c \in {c \in CallSet : Pending(c) /\ c \in owed /\ kind[c] \in JoinKinds}}
  \cup {"C18_LeaveReturns" : c \in {c \in CallSet : Pending(c) /\ c \in owed /\ kind[c] = "leave"}}
  \cup {"C18_RequestSent" : c \in {c \in CallSet : Pending(c) /\ c \notin cancelled /\ c \notin wire /\ kind[c] \notin AuxKinds}}
  \* Subject / Invite wait for nothing the room could send: they are never found blocked
  \cup {"C18_AuxReturns" : c \in {c \in CallSet : Pending(c) /\ kind[c] \in AuxKinds}}
  \* the serve loop: a stanza the room has sent completely is processed (whoever was handed a reply has released it)
  \cup {"C06_NoStall" : i \in 1..Len(inflight)}
(* (while the room is in the middle of sending a stanza the environment still owes its    *)
(* remainder: not a point at which a stall can be judged)                                   *)
OQuiet ==
  /\ viol' = viol \cup (IF Partial THEN {} ELSE StallClauses)
  /\ UNCHANGED <<kind, room, st, res, cancelled, wire, cand, owed, dirty, memAt, mem, has, inflight, cbs, ups, nk>>

(* a run may end only when every call has returned and every stanza has been processed *)
Quiescent == (\A c \in CallSet : ~Pending(c)) /\ inflight = <<>>

-----------------------------------------------------------------------------
(* MECHANISM (the repaired algorithm; Dev re-introduces the defects of the pinned code) *)

MCall(c, k, r) ==
  /\ CASE k \in AuxKinds ->
            \* one message is written; deviation AuxWaitsForLeave: the call needs something a pending Leave holds
            /\ pc' = [pc EXCEPT ![c] = IF "AuxWaitsForLeave" \in Dev THEN "aux" ELSE "ok"]
            /\ UNCHANGED <<managed, jflag, jbuf, depart>>
       [] k = "join" ->
            /\ managed' = managed \cup {r} /\ jflag' = [jflag EXCEPT ![r] = FALSE]
            /\ jbuf' = [jbuf EXCEPT ![r] = <<>>] /\ depart' = [depart EXCEPT ![r] = 0]
            /\ pc' = [pc EXCEPT ![c] = "enq"]
       [] k \in {"rejoin", "renick"} ->
            /\ managed' = IF "NoReRegister" \in Dev THEN managed ELSE managed \cup {r}
            /\ pc' = [pc EXCEPT ![c] = "enq"] /\ UNCHANGED <<jflag, jbuf, depart>>
       [] OTHER ->
            /\ depart' = IF "DepartLost" \in Dev THEN depart ELSE [depart EXCEPT ![r] = 0]
            /\ pc' = [pc EXCEPT ![c] = "pre"] /\ UNCHANGED <<managed, jflag, jbuf>>
  \* the Nick option: the address asked for is registered NEXT TO the one the channel holds (which stays the held one
  \* until the room grants the other).  Deviation RenickForgetsOld: the old address is forgotten when the request is made.
  /\ mk' = IF k # "renick" THEN mk
           ELSE IF "RenickForgetsOld" \in Dev
                THEN [mk EXCEPT !.reg[r] = {Other(mk.caddr[r])}, !.caddr[r] = Other(mk.caddr[r])]
                ELSE [mk EXCEPT !.reg[r] = @ \cup {Other(mk.caddr[r])}]
  /\ UNCHANGED <<sent, hold>>

Call(c, k, r) == OCall(c, k, r) /\ MCall(c, k, r) /\ nenv' = nenv + 1
Cancel(c) == OCancel(c) /\ Pending(c) /\ c \notin cancelled /\ nenv' = nenv + 1 /\ UNCHANGED mvars
(* the room sends s in one piece, or (Splits) a first piece only and the remainder later; *)
(* its byte stream is sequential: nothing else is sent before the remainder               *)
Send(s, part) ==
  /\ (s.ty = "er" => st[s.call] # "idle" /\ kind[s.call] \notin AuxKinds /\ \A i \in 1..Len(inflight) : ~ErrFor(inflight[i], s.call))
  /\ Len(inflight) < MaxFlight /\ ~Partial
  /\ OSend(s, part) /\ nenv' = nenv + 1 /\ UNCHANGED mvars
Rest == Partial /\ ORest /\ nenv' = nenv + 1 /\ UNCHANGED mvars
(* the serve loop has the whole of the oldest unprocessed stanza *)
HeadWhole == inflight # <<>> /\ ~Head(inflight).part

(* Channel.JoinPresence: put the hand-off entry into the join buffer (a stale entry of an   *)
(* earlier, cancelled join is dropped; the pinned code blocked on it)                        *)
Enq(c) ==
  /\ pc[c] = "enq"
  /\ LET r == room[c] IN
     \/ /\ ("StaleBlocks" \in Dev => jbuf[r] = <<>>)
        /\ jbuf' = [jbuf EXCEPT ![r] = <<c>>] /\ pc' = [pc EXCEPT ![c] = "wait"]
     \/ /\ c \in cancelled /\ pc' = [pc EXCEPT ![c] = "ctx"] /\ UNCHANGED jbuf
  /\ UNCHANGED <<ovars, managed, depart, jflag, sent, hold, mk>>

(* the sender goroutine of Join/Leave writes the request *)
SendReq(c) ==
  /\ pc[c] \notin {"idle", "enq"} /\ c \notin sent
  /\ sent' = sent \cup {c} /\ OWire(c) /\ UNCHANGED <<nenv, managed, jbuf, depart, jflag, pc, hold, mk>>

AuxGo(c) ==
  /\ pc[c] = "aux" /\ ~\E d \in PendingOn(room[c]) : kind[d] = "leave"
  /\ pc' = [pc EXCEPT ![c] = "ok"]
  /\ UNCHANGED <<ovars, managed, jbuf, depart, jflag, sent, hold, mk>>

LeaveSelect(c) ==
  /\ pc[c] = "pre" /\ pc' = [pc EXCEPT ![c] = "wait"]
  /\ UNCHANGED <<ovars, managed, jbuf, depart, jflag, sent, hold, mk>>

CtxWake(c) ==
  /\ pc[c] = "wait" /\ c \in cancelled /\ pc' = [pc EXCEPT ![c] = "ctx"]
  /\ UNCHANGED <<ovars, managed, jbuf, depart, jflag, sent, hold, mk>>

DepartWake(c) ==
  /\ pc[c] = "wait" /\ kind[c] = "leave" /\ depart[room[c]] = 1
  /\ pc' = [pc EXCEPT ![c] = "ok"] /\ depart' = [depart EXCEPT ![room[c]] = 0]
  /\ UNCHANGED <<ovars, managed, jbuf, jflag, sent, hold, mk>>

Ret(c) ==
  /\ pc[c] \in {"ok", "err", "ctx", "other"}
  /\ ORet(c, pc[c], IF pc[c] = "err" THEN CondOf[c] ELSE None)
  /\ pc' = [pc EXCEPT ![c] = "done"]
  /\ IF kind[c] = "leave" /\ pc[c] = "err"       \* the room refused the leave: not an occupant (pinned by TestPartError)
     THEN managed' = managed \ {room[c]} /\ jflag' = [jflag EXCEPT ![room[c]] = FALSE]
     ELSE UNCHANGED <<managed, jflag>>
  \* a renick call that did not succeed: the address asked for is not the channel's (deviation RenickStale: it stays registered)
  /\ mk' = IF kind[c] = "renick" /\ pc[c] # "ok" /\ "RenickStale" \notin Dev /\ "RenickForgetsOld" \notin Dev
           THEN [mk EXCEPT !.reg[room[c]] = {mk.caddr[room[c]]}] ELSE mk
  /\ UNCHANGED <<nenv, jbuf, depart, sent, hold>>

Desc(h) == [ty |-> h.ty, room |-> h.room, nick |-> h.nick, call |-> h.call]

(* the channel the presence handler finds for presence h.  Deviations: BareLookup (the table is keyed by the *)
(* room, any occupant's presence is the channel's), OwnNickAny (a presence of ANY of the user's own          *)
(* nicknames in the room is taken for the channel's)                                                         *)
(* (the table: every nickname registered for a channel leads to it) *)
RegCh(h) == IF \E r \in Rooms : h.room = RoomOf(r) /\ h.nick \in mk.reg[r]
            THEN CHOOSE r \in Rooms : h.room = RoomOf(r) /\ h.nick \in mk.reg[r] ELSE None
MCh(h) == CASE "BareLookup" \in Dev -> h.room
            [] "OwnNickAny" \in Dev /\ h.nick \in {Me, "me2"} -> h.room
            [] OTHER -> RegCh(h)
Matched(h) == MCh(h) \in managed
(* the muc#user payload of presence h carries status code k *)
HasCode(h, k) == \E i \in 1..Len(h.codes) : h.codes[i] = k

(* item variants (s.item) of an unavailable presence whose item does not say role none (some servers *)
(* omit the item or repeat the last role)                                                            *)
RoleKept == {"noitem", "rolekept"}
(* HandlePresence, available: hand the address to a pending join, skipping stale entries *)
HandleAv ==
  /\ HeadWhole /\ Head(inflight).ty = "av"
  /\ LET h == Head(inflight) r == MCh(h) IN
     IF r \in Rooms /\ Matched(h) /\ jbuf[r] # <<>> /\ ("SelfNeeds110" \in Dev => HasCode(h, 110))
     THEN LET e == Head(jbuf[r]) IN
          \/ /\ pc[e] = "wait"                          \* rendezvous with the join's select
             /\ pc' = [pc EXCEPT ![e] = "ok"] /\ jflag' = [jflag EXCEPT ![r] = TRUE]
             /\ jbuf' = [jbuf EXCEPT ![r] = <<>>]
             \* the address of this presence is the one the channel holds from now on, and the only one registered
             /\ mk' = IF h.nick \in {Me, "me2"} /\ "BareLookup" \notin Dev /\ "OwnNickAny" \notin Dev
                      THEN [mk EXCEPT !.caddr[r] = h.nick, !.reg[r] = IF "RenickStale" \in Dev THEN @ ELSE {h.nick}] ELSE mk
          \/ /\ pc[e] # "wait" \/ e \in cancelled      \* its context is done: skip the entry
             /\ jbuf' = [jbuf EXCEPT ![r] = <<>>] /\ UNCHANGED <<pc, jflag, mk>>
     ELSE UNCHANGED <<pc, jflag, jbuf, mk>>
  /\ OHandled(Desc(Head(inflight)))
  /\ UNCHANGED <<nenv, managed, depart, sent, hold>>

(* HandlePresence, unavailable: forget the room and signal a pending leave - whatever the payload   *)
(* says about WHY the occupant address is vacated.  Deviations that read the payload: NewNickStays  *)
(* (status 303 "new nickname": the presence is passed to the application and not treated as the     *)
(* departure - the channel is not re-keyed either, so it claims membership of a vacated address for *)
(* good), UnNeedsRoleNone (only an item with role none counts as a departure).                      *)
HandleUn ==
  /\ HeadWhole /\ Head(inflight).ty = "un"
  /\ LET h == Head(inflight) r == MCh(h) IN
     IF r \in Rooms /\ Matched(h) /\ ~("NewNickStays" \in Dev /\ HasCode(h, 303))
                    /\ (h.nick = mk.caddr[r] \/ "RenickStale" \in Dev \/ "BareLookup" \in Dev \/ "OwnNickAny" \in Dev)   \* the address the channel HOLDS
                    /\ ~("UnNeedsRoleNone" \in Dev /\ h.item \in RoleKept)
     THEN /\ managed' = managed \ {r} /\ jflag' = [jflag EXCEPT ![r] = FALSE]
          /\ depart' = IF "DepartLost" \in Dev /\ ~\E c \in PendingOn(r) : kind[c] = "leave" /\ pc[c] = "wait"
                       THEN depart ELSE [depart EXCEPT ![r] = 1]
     ELSE UNCHANGED <<managed, jflag, depart>>
  /\ OHandled(Desc(Head(inflight)))
  /\ UNCHANGED <<nenv, jbuf, pc, sent, hold, mk>>

(* An error presence.  The session looks up its id as soon as it has read the start tag: if  *)
(* the sender goroutine of that call is still waiting for a reply, the reply is handed to it  *)
(* (ErHandOff) and the serve loop waits until it is closed.  The sender goroutine decodes the *)
(* error - it needs the whole stanza for that - and offers it to the call, which takes it in  *)
(* its select (ErDeliver); if the call's context has ended - the call was cancelled, or has    *)
(* returned already - the goroutine gives up and closes the reply (ErDrop).  The deviation      *)
(* ErrHandoverBlocks offers the error without watching the context (a plain channel send).    *)
(* Otherwise the stanza goes to the multiplexer, where nobody claims it (ErToMux).            *)
(* The decoding of the reply may fail (no <error/> child, an undecodable one): the goroutine then   *)
(* offers that error instead - and closes the reply all the same.  The deviation ErrReplyLeaked     *)
(* returns from the decoding helper on its error path without closing the reply.                    *)
Leaked == "leaked"
SenderWaits(c) == c \in sent /\ pc[c] \in {"pre", "wait"}
ErHandOff ==
  /\ inflight # <<>> /\ Head(inflight).ty = "er" /\ hold = None
  /\ SenderWaits(Head(inflight).call)
  /\ hold' = Head(inflight).call
  /\ UNCHANGED <<ovars, managed, jbuf, depart, jflag, pc, sent, mk>>
ErDeliver ==
  /\ HeadWhole /\ hold \in CallSet /\ pc[hold] = "wait"
  /\ IF Malformed(Head(inflight)) /\ "ErrReplyLeaked" \in Dev
     THEN \* the goroutine reports the decoding error and forgets to close the reply
          /\ pc' = [pc EXCEPT ![hold] = "other"] /\ hold' = Leaked /\ UNCHANGED ovars
     ELSE \* a malformed reply gives the decoder's error, or whatever stanza error the decoder made of it
          /\ \E o \in (IF Malformed(Head(inflight)) THEN {"err", "other"} ELSE {"err"}) : pc' = [pc EXCEPT ![hold] = o]
          /\ hold' = None
          /\ OHandled(Desc(Head(inflight))) /\ UNCHANGED nenv
  /\ UNCHANGED <<managed, jbuf, depart, jflag, sent, mk>>
ErDrop ==
  /\ HeadWhole /\ hold \in CallSet /\ (hold \in cancelled \/ pc[hold] \notin {"pre", "wait"})
  /\ "ErrHandoverBlocks" \notin Dev
  /\ hold' = None
  /\ OHandled(Desc(Head(inflight)))
  /\ UNCHANGED <<nenv, managed, jbuf, depart, jflag, pc, sent, mk>>
ErToMux ==
  /\ HeadWhole /\ Head(inflight).ty = "er" /\ hold = None
  /\ ~SenderWaits(Head(inflight).call) \/ Head(inflight).call \in cancelled
  /\ OHandled(Desc(Head(inflight)))
  /\ UNCHANGED <<nenv, mvars>>
HandleEr == ErHandOff \/ ErDeliver \/ ErDrop \/ ErToMux

(* Invitations: the multiplexer calls the client's message handler for the muc#user child and  *)
(* the direct-invitation handler for the jabber:x:conference child, wherever they stand among  *)
(* the children; each decodes its own payload and calls the application once per invitation.  *)
(* Deviations: InvitePerMessage (one callback per message with a muc#user payload, holding its *)
(* last <invite/> if any), InviteFirstChild / DirectFirstChild (the handler decodes whatever   *)
(* element comes first in the message and fails unless that is its payload).                   *)
FirstChild(h) == IF Len(h.lay) > 0 THEN h.lay[1] ELSE "-"
MInvitations(h) ==
  (CASE "InvitePerMessage" \in Dev ->
          IF HasChild(h, "u")
          THEN <<[kind |-> "med", ns |-> "user", k |-> h.n - 1, pw |-> PwOf(h), room |-> "-"]>> ELSE <<>>
     [] "InviteFirstChild" \in Dev /\ FirstChild(h) # "u" -> <<>>
     [] OTHER -> Mediated(h))
  \o (IF "DirectFirstChild" \in Dev /\ FirstChild(h) # "c" THEN <<>> ELSE Direct(h))
InviteCb ==
  /\ HeadWhole /\ Head(inflight).ty = "inv" /\ Len(cbs) < Len(MInvitations(Head(inflight)))
  /\ OInviteCb(MInvitations(Head(inflight))[Len(cbs) + 1]) /\ UNCHANGED <<nenv, mvars>>
HandleOther ==
  /\ HeadWhole /\ Head(inflight).ty \in {"inv", "oth"}
  /\ (Head(inflight).ty = "inv" => Len(cbs) = Len(MInvitations(Head(inflight))))
  /\ OHandled(Desc(Head(inflight))) /\ UNCHANGED <<nenv, mvars>>

MObs(r) ==
  /\ OObs(r, IF "JoinedBare" \in Dev THEN FALSE ELSE jflag[r], NickOf(r), RoomOf(r))
  /\ UNCHANGED <<nenv, mvars>>

LibNext ==
  \/ \E c \in CallSet : Enq(c) \/ SendReq(c) \/ LeaveSelect(c) \/ CtxWake(c) \/ DepartWake(c) \/ AuxGo(c) \/ Ret(c)
  \/ HandleAv \/ HandleUn \/ HandleEr \/ InviteCb \/ HandleOther

Next ==
  \/ /\ nenv < MaxEnv
     /\ \/ \E c \in CallSet, k \in {"join", "rejoin", "leave"} \cup Aux, r \in Rooms : Call(c, k, r)
        \/ \E c \in CallSet : Cancel(c)
        \/ \E s \in Alphabet : Send(s, FALSE) \/ (Splits /\ Send(s, TRUE))
        \/ Rest
  \/ LibNext
  \/ \E r \in Rooms : MObs(r)

Spec == Init /\ [][Next]_vars

-----------------------------------------------------------------------------
(* Properties: one name per clause of C18 *)
C18_JoinOK == "C18_JoinOK" \notin viol                  \* success only after the self-presence for the occupant address
C18_JoinErr == "C18_JoinErr" \notin viol                \* a stanza error returned is the room's answer to that request
C18_CtxErr == "C18_CtxErr" \notin viol                  \* the context's error only if the context ended
C18_LeaveReturns == "C18_LeaveOK" \notin viol            \* leave succeeds only after the unavailable self-presence
(* stalls: when no step of the library is enabled no call is left waiting although its   *)
(* context ended (C06) or its answer has been processed (C18 join completes / leave returns) *)
C18_NoStall == ~ENABLED LibNext /\ ~Partial => StallClauses = {}
C18_JoinedIffIn == {"C18_JoinedIffIn", "C18_Me"} \cap viol = {}
C18_ForeignIgnored == "C18_ForeignIgnored" \notin viol
C18_InviteExactlyOnce == "C18_InviteExactlyOnce" \notin viol          \* mediated invitations -> Client.HandleInvite
C18_DirectInviteExactlyOnce == "C18_DirectInviteExactlyOnce" \notin viol  \* direct invitations -> the function given to muc.HandleInvite
C18_All == viol = {}
(* C06 (MUC part): one outcome per call is structural (st: pending -> done exactly once);  *)
(* the serve loop is never wedged: while a stanza is unprocessed some step of the serve     *)
(* loop, or of the call it is waiting for, is enabled                                       *)
(* (a stanza whose remainder the room still owes is waited for legitimately)                *)
C06_ServeNotWedged ==
  HeadWhole => ENABLED (HandleAv \/ HandleUn \/ HandleEr \/ InviteCb \/ HandleOther
                         \/ \E c \in CallSet : LeaveSelect(c))
=============================================================================
