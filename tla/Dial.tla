-------------------------------- MODULE Dial --------------------------------
(***************************************************************************)
(* How the library finds and connects to a server (growth beyond C01-C20;  *)
(* family "dial"): dial.Dialer.Dial / DialServer (dial/dial.go, which uses  *)
(* internal/discover.LookupServiceByDomain + FallbackRecords) and           *)
(* websocket.Dialer.Dial (websocket/ws.go, which uses                       *)
(* internal/discover.LookupWebSocket = Web Host Metadata).                  *)
(*                                                                         *)
(* The rules, and where they are stated:                                    *)
(*  R1 lookups   package dial doc "Service Discovery", Dialer.NoLookup,     *)
(*               Dialer.NoTLS, Dialer.S2S, DialServer doc; RFC 6120 3.2.1;  *)
(*               XEP-0368: SRV _xmpps-(client|server)._tcp and              *)
(*               _xmpp-(client|server)._tcp of the domain (DialServer: of   *)
(*               the given server); none with NoLookup; no xmpps lookup     *)
(*               with NoTLS.  The name is an ASCII DNS name: an             *)
(*               internationalized domainpart is looked up in its A-label   *)
(*               form (RFC 7622 3.2 / RFC 5891 5.4: IDNA lookup).           *)
(*  R2 "."       RFC 6120 3.2.1 (3), RFC 2782, discover.LookupService doc:  *)
(*               a single record with target "." = the service is decidedly *)
(*               not available: nothing is tried for it, no fallback.       *)
(*  R3 fallback  package dial doc: no SRV records (NXDOMAIN or an empty     *)
(*               answer) or NoLookup => the domain itself on the default    *)
(*               port: 5223 direct TLS, 5222 STARTTLS; RFC 6120 3.2.2: 5269 *)
(*               for server-to-server (the direct TLS port for s2s is fixed *)
(*               by no document: 5270, the library's table, and 5223 are    *)
(*               both accepted).  RFC 6120 3.2.1 (8): when records were     *)
(*               received the fallback is NOT used.  A lookup ERROR (not    *)
(*               "not found") is documented nowhere: the spec allows both   *)
(*               treating the service as absent and using the fallback.     *)
(*  R4 order     package dial doc "Implicit TLS": endpoints with implicit   *)
(*               TLS are tried first; RFC 2782: lower priority value first, *)
(*               any order among equal priorities (weights are a random     *)
(*               choice); "one per SRV record returned until a connection   *)
(*               is made": each candidate at most once, stop at the first   *)
(*               success, the connection returned is that one; all failed   *)
(*               => an error (which one is not documented); every socket    *)
(*               that is not returned is closed.                            *)
(*  R5 TLS       Dialer.TLSConfig doc, DialServer doc, XEP-0368 (SNI, ALPN  *)
(*               xmpp-client / xmpp-server): direct-TLS candidates get a    *)
(*               handshake expecting the JID's domainpart (never the SRV    *)
(*               target or the DialServer host) with the XEP's ALPN id; a   *)
(*               caller's own tls.Config is used as it is; STARTTLS         *)
(*               candidates get no handshake.                               *)
(*  R6 context   Dial doc: "If the context expires before the connection is *)
(*               complete, an error is returned."                           *)
(*  R7 host-meta websocket.Dialer doc + RFC 7395 4 / XEP-0156: the document *)
(*               https://<domainpart>/.well-known/host-meta; candidates are *)
(*               exactly its Link elements with rel                         *)
(*               urn:xmpp:alt-connections:websocket; "wss" before "ws"; ws: *)
(*               only with InsecureNoTLS ("If endpoint discovery is used and*)
(*               a secure WebSocket endpoint is available it will still be  *)
(*               prioritized"); an ill-formed / missing document or no      *)
(*               usable endpoint is an error (never a nil connection with a *)
(*               nil error); the default tls.Config expects the host of the *)
(*               URL; the subprotocol offered is "xmpp".                    *)
(*                                                                         *)
(* Candidates are small integers: 10*s + i is record i of service s         *)
(* (1 = xmpps, direct TLS; 2 = xmpp, STARTTLS), 10*s is the fallback        *)
(* endpoint of service s, 30 + i is Link i of the host-meta document.       *)
(* What an endpoint does is part of the scenario (kind): "refuse" (closed   *)
(* port), "nohost" (the name has no address), "plain" (accepts; no TLS),    *)
(* "tls" (direct TLS, certificate for the XMPP domain), "tlsbad" (direct    *)
(* TLS, certificate for another name), "ws" (WebSocket endpoint), "nows"    *)
(* (HTTP server that refuses the upgrade).                                  *)
(***************************************************************************)
EXTENDS Integers, Sequences, FiniteSets, TLC

CONSTANTS Dev,        \* named deviations (non-vacuity of the properties; {} = the rules)
          Scenarios   \* scenario universe (MCDial.tla gives the design check its own Init over parts)

VARIABLES
  scen,                 \* the scenario, fixed during a behaviour
  pc,                   \* "lookup" | "fetch" | "dial" | "done" | "returned"
  lk, asked, names,     \* per service: what the lookup gave; services asked; lookups as seen by the DNS server
  fetched,              \* host-meta requests as seen by the web server (is it the right URL?)
  cands,                \* the endpoints to try, fixed when dialing starts
  att, ports,           \* attempt history (candidates in order), sockets created <<c, port>>
  cur, ph,              \* attempt in progress and its phase
  open,                 \* candidates whose connection is established and not closed
  hs, wsr,              \* TLS ClientHellos seen [c, sni, alpn]; WebSocket upgrade requests seen [c, proto]
  cancelled, cidx, cphase,   \* the caller's context; first attempt it may have spoiled; phase it was cancelled in
  res                   \* [st, c]: "none" | "ok" (connection to c) | "err" | "nilnil"

vars == <<scen, pc, lk, asked, names, fetched, cands, att, ports, cur, ph, open, hs, wsr, cancelled, cidx, cphase, res>>

Svcs == {1, 2}
Range(s) == {s[i] : i \in DOMAIN s}
Last(s) == s[Len(s)]

-----------------------------------------------------------------------------
(* Reading the scenario *)
Srv == scen.via = "srv"
Ans(s) == IF s = 1 THEN scen.dns.xmpps ELSE scen.dns.xmpp
SvcOf(c) == c \div 10
IsFallback(c) == c \in {10, 20}
IsRec(c) == c > 10 /\ c < 30 /\ c % 10 # 0
RecIds(s) == {10 * s + i : i \in 1..Len(Ans(s).recs)}
Rec(c) == Ans(SvcOf(c)).recs[c % 10]
LinkIds == {30 + i : i \in 1..Len(scen.links)}
Lnk(c) == scen.links[c - 30]
KindOf(c) ==
  CASE c = 10 -> scen.fb.xmpps
    [] c = 20 -> scen.fb.xmpp
    [] c > 30 -> Lnk(c).kind
    [] OTHER -> Rec(c).kind
Mode(c) ==                 \* what the rules say the client does on this endpoint
  IF c > 30 THEN (IF Lnk(c).scheme = "wss" THEN "tls" ELSE "plain")
  ELSE IF SvcOf(c) = 1 THEN "tls" ELSE "plain"
AllIds == IF Srv THEN {10, 20} \cup RecIds(1) \cup RecIds(2) ELSE LinkIds

(* R1: the services to look up *)
Used == IF scen.notls THEN {2} ELSE {1, 2}
Wanted == IF ~Srv \/ scen.nolookup THEN {} ELSE Used
GoodRole == IF scen.s2s THEN "server" ELSE "client"
GoodDom == IF scen.entry = "dialserver" THEN "server" ELSE "jid"

(* R3: default ports *)
FallbackPorts(c) ==
  IF "ClientPortsForS2S" \in Dev THEN (IF c = 10 THEN {5223} ELSE {5222})
  ELSE IF scen.s2s THEN (IF c = 10 THEN {5270, 5223} ELSE {5269})
  ELSE (IF c = 10 THEN {5223} ELSE {5222})
PortsOf(c) == IF IsFallback(c) THEN FallbackPorts(c) ELSE {7000 + c}

(* R2, R3: the endpoints of one service, given what its lookup gave *)
Options(s) ==
  IF scen.nolookup THEN {{10 * s}}
  ELSE CASE lk[s] = "recs" -> IF "FallbackWithRecords" \in Dev THEN {RecIds(s) \cup {10 * s}} ELSE {RecIds(s)}
         [] lk[s] = "dot" -> IF "DotFallback" \in Dev THEN {{10 * s}} ELSE {{}}
         [] lk[s] \in {"nf", "nodata"} -> IF "NoFallback" \in Dev THEN {{}} ELSE {{10 * s}}
         [] OTHER -> {{}, {10 * s}}                      \* lookup error: undocumented
(* R7: the endpoints a host-meta document names *)
Dialable(c) == Lnk(c).scheme \in {"wss", "ws"}
WsCands ==
  {c \in LinkIds : /\ (Lnk(c).rel = "ws" \/ ("AnyRel" \in Dev /\ Lnk(c).rel = "bosh"))
                   /\ Dialable(c)
                   /\ (Lnk(c).scheme = "wss" \/ scen.insecure \/ "InsecureAlways" \in Dev)}

(* R4: d has to be tried before c *)
Before(d, c) ==
  IF Srv
  THEN \/ ("PlainFirst" \notin Dev /\ SvcOf(d) = 1 /\ SvcOf(c) = 2)
       \/ ("PlainFirst" \in Dev /\ SvcOf(d) = 2 /\ SvcOf(c) = 1)
       \/ ("IgnorePriority" \notin Dev /\ SvcOf(d) = SvcOf(c) /\ IsRec(d) /\ IsRec(c) /\ Rec(d).prio < Rec(c).prio)
  ELSE \/ ("WsFirst" \notin Dev /\ Lnk(d).scheme = "wss" /\ Lnk(c).scheme = "ws")
       \/ ("WsFirst" \in Dev /\ Lnk(d).scheme = "ws" /\ Lnk(c).scheme = "wss")
RuleBefore(d, c) ==        \* the same without deviations (for the properties)
  IF Srv
  THEN \/ (SvcOf(d) = 1 /\ SvcOf(c) = 2)
       \/ (SvcOf(d) = SvcOf(c) /\ IsRec(d) /\ IsRec(c) /\ Rec(d).prio < Rec(c).prio)
  ELSE Lnk(d).scheme = "wss" /\ Lnk(c).scheme = "ws"

(* R5: what a ClientHello has to carry *)
GoodSNI == IF scen.tlscfg = "custom" THEN "custom" ELSE IF Srv THEN "jid" ELSE "host"
GoodALPN == IF scen.tlscfg = "custom" THEN "custom" ELSE IF Srv THEN (IF scen.s2s THEN "xmpp-server" ELSE "xmpp-client") ELSE "none"

(* Would an attempt on c give a connection (the context not being cancelled)? *)
Listens(c) == KindOf(c) \notin {"refuse", "nohost"}
TLSWorks(c) == KindOf(c) \in {"tls", "ws", "nows"}
WouldSucceed(c) ==
  /\ Listens(c)
  /\ (Mode(c) = "tls" => TLSWorks(c))
  /\ (~Srv => KindOf(c) = "ws")

-----------------------------------------------------------------------------
InitWith(sc) ==
  /\ scen = sc
  /\ pc = (IF sc.via = "srv" THEN "lookup" ELSE "fetch")
  /\ lk = [s \in Svcs |-> "no"] /\ asked = {} /\ names = <<>> /\ fetched = <<>>
  /\ cands = {} /\ att = <<>> /\ ports = <<>> /\ cur = 0 /\ ph = "idle" /\ open = {}
  /\ hs = <<>> /\ wsr = <<>>
  /\ cancelled = FALSE /\ cidx = 0 /\ cphase = "none"
  /\ res = [st |-> "none", c |-> 0]

Init == \E sc \in Scenarios : InitWith(sc)

-----------------------------------------------------------------------------
(* Environment: the caller's context.  The scenario says where it is cancelled: while an   *)
(* SRV question is being answered, while the address of an endpoint is being resolved,     *)
(* when the endpoint sees the ClientHello (and then stays silent).                         *)
Cancel ==
  /\ ~cancelled /\ pc \in {"lookup", "dial"}
  /\ CASE scen.cancel.at = "srv" -> pc = "lookup" /\ \E s \in Svcs : lk[s] = "asked"
       [] scen.cancel.at = "host" -> ph = "resolve" /\ (cur = scen.cancel.c \/ (IsFallback(cur) /\ scen.cancel.c = 0))
       [] scen.cancel.at = "hello" -> ph = "hello" /\ cur = scen.cancel.c
       [] OTHER -> FALSE
  /\ cancelled' = TRUE /\ cidx' = (IF cur = 0 THEN Len(att) + 1 ELSE Len(att)) /\ cphase' = pc
  /\ UNCHANGED <<scen, pc, lk, asked, names, fetched, cands, att, ports, cur, ph, open, hs, wsr, res>>

-----------------------------------------------------------------------------
(* Discovery through DNS (dial.go: the two lookups run side by side) *)
Ask(s, role, dom) ==            \* the DNS server sees the SRV question
  /\ pc = "lookup" /\ lk[s] = "no"
  /\ (s \in Wanted \/ "LookupUnwanted" \in Dev)
  /\ lk' = [lk EXCEPT ![s] = "asked"] /\ asked' = asked \cup {s}
  /\ names' = Append(names, [s |-> s, role |-> role, dom |-> dom])
  /\ UNCHANGED <<scen, pc, fetched, cands, att, ports, cur, ph, open, hs, wsr, cancelled, cidx, cphase, res>>

Answer(s) ==                    \* the lookup returns (a cancelled context may turn any answer into an error)
  /\ pc = "lookup" /\ lk[s] = "asked"
  /\ \E r \in (IF cancelled THEN {"err", Ans(s).t} ELSE {Ans(s).t}) : lk' = [lk EXCEPT ![s] = r]
  /\ UNCHANGED <<scen, pc, asked, names, fetched, cands, att, ports, cur, ph, open, hs, wsr, cancelled, cidx, cphase, res>>

SkipLookup(s) ==                \* no question is sent once the context is done
  /\ pc = "lookup" /\ lk[s] = "no" /\ s \in Wanted
  /\ \/ cancelled /\ lk' = [lk EXCEPT ![s] = "err"]
     \/ "UnicodeLookup" \in Dev /\ scen.idn /\ lk' = [lk EXCEPT ![s] = "nf"]     \* the name never reaches the wire
  /\ UNCHANGED <<scen, pc, asked, names, fetched, cands, att, ports, cur, ph, open, hs, wsr, cancelled, cidx, cphase, res>>

StartDial ==
  /\ pc = "lookup" /\ \A s \in Wanted : lk[s] \notin {"no", "asked"}
  /\ pc' = "dial"
  /\ \E a \in (IF 1 \in Used THEN Options(1) ELSE {{}}), b \in Options(2) : cands' = a \cup b
  /\ UNCHANGED <<scen, lk, asked, names, fetched, att, ports, cur, ph, open, hs, wsr, cancelled, cidx, cphase, res>>

(* Discovery through Web Host Metadata *)
Fetch(ok) ==                    \* the web server sees the request; ok = it is the document of the domain
  /\ pc = "fetch" /\ fetched = <<>>
  /\ fetched' = <<ok>>
  /\ IF scen.doc \in {"ok", "empty"} /\ ok
     THEN pc' = "dial" /\ cands' = (IF scen.doc = "ok" THEN WsCands ELSE {}) /\ UNCHANGED res
     ELSE pc' = "done" /\ res' = [st |-> "err", c |-> 0] /\ UNCHANGED cands
  /\ UNCHANGED <<scen, lk, asked, names, att, ports, cur, ph, open, hs, wsr, cancelled, cidx, cphase>>

-----------------------------------------------------------------------------
(* The attempt loop.  An attempt: resolve the endpoint's name, create a socket, connect,   *)
(* for direct TLS shake hands, for WebSocket upgrade.                                       *)
Tried == Range(att)
Attempt(c) ==                   \* observed as the address lookup of the endpoint's name
  /\ pc = "dial" /\ cur = 0 /\ c \in cands
  /\ (c \notin Tried \/ "RetryCandidate" \in Dev)
  /\ \A d \in cands \ (Tried \cup {c}) : ~Before(d, c)
  /\ att' = Append(att, c) /\ cur' = c /\ ph' = "resolve"
  /\ UNCHANGED <<scen, pc, lk, asked, names, fetched, cands, ports, open, hs, wsr, cancelled, cidx, cphase, res>>

EndAttempt == cur' = 0 /\ ph' = "idle"

Resolved ==
  /\ ph = "resolve"
  /\ \/ KindOf(cur) # "nohost" /\ ph' = "connect" /\ UNCHANGED cur
     \/ (KindOf(cur) = "nohost" \/ cancelled) /\ EndAttempt
  /\ UNCHANGED <<scen, pc, lk, asked, names, fetched, cands, att, ports, open, hs, wsr, cancelled, cidx, cphase, res>>

Connect(c, port) ==             \* observed: the net.Dialer's Control hook (a socket exists)
  /\ ph = "connect" /\ c = cur
  /\ ports' = Append(ports, <<c, port>>) /\ ph' = "sock"
  /\ UNCHANGED <<scen, pc, lk, asked, names, fetched, cands, att, cur, open, hs, wsr, cancelled, cidx, cphase, res>>

Connected ==
  /\ ph = "sock"
  /\ \/ Listens(cur) /\ open' = open \cup {cur} /\ ph' = "tcp" /\ UNCHANGED cur
     \/ (~Listens(cur) \/ cancelled) /\ EndAttempt /\ UNCHANGED open
  /\ UNCHANGED <<scen, pc, lk, asked, names, fetched, cands, att, ports, hs, wsr, cancelled, cidx, cphase, res>>

Hello(c, sni, alpn) ==          \* observed: the endpoint sees a ClientHello
  /\ ph = "tcp" /\ c = cur
  /\ (Mode(c) = "tls" \/ "TLSOnPlain" \in Dev)
  /\ hs' = Append(hs, [c |-> c, sni |-> sni, alpn |-> alpn]) /\ ph' = "hello"
  /\ UNCHANGED <<scen, pc, lk, asked, names, fetched, cands, att, ports, cur, open, wsr, cancelled, cidx, cphase, res>>

CloseCur == open' = (IF "LeakFailed" \in Dev THEN open ELSE open \ {cur})

Shaken ==
  /\ ph = "hello"
  /\ \/ TLSWorks(cur) /\ ~cancelled /\ ph' = "secure" /\ UNCHANGED <<cur, open>>
     \/ (~TLSWorks(cur) \/ cancelled) /\ EndAttempt /\ CloseCur
  /\ UNCHANGED <<scen, pc, lk, asked, names, fetched, cands, att, ports, hs, wsr, cancelled, cidx, cphase, res>>

Ready == \/ ph = "secure"
         \/ ph = "tcp" /\ (Mode(cur) = "plain" \/ "PlainOnTLS" \in Dev)

WsReq(c, proto) ==              \* observed: the endpoint sees the upgrade request
  /\ ~Srv /\ Ready /\ c = cur
  /\ wsr' = Append(wsr, [c |-> c, proto |-> proto]) /\ ph' = "wsreq"
  /\ UNCHANGED <<scen, pc, lk, asked, names, fetched, cands, att, ports, cur, open, hs, cancelled, cidx, cphase, res>>

Upgraded ==                     \* the upgrade is refused (or the endpoint does not speak HTTP at all)
  /\ \/ ph = "wsreq" /\ KindOf(cur) # "ws"
     \/ ~Srv /\ Ready /\ KindOf(cur) \notin {"ws", "nows"}
  /\ EndAttempt /\ CloseCur
  /\ UNCHANGED <<scen, pc, lk, asked, names, fetched, cands, att, ports, hs, wsr, cancelled, cidx, cphase, res>>

Succeed ==
  /\ pc = "dial" /\ cur # 0
  /\ IF Srv THEN Ready ELSE ph = "wsreq" /\ KindOf(cur) = "ws"
  /\ (~cancelled \/ "IgnoreCancel" \in Dev)
  /\ \/ res' = [st |-> "ok", c |-> cur] /\ pc' = "done" /\ UNCHANGED <<cur, ph, open>>
     \/ "ContinueAfterSuccess" \in Dev /\ EndAttempt /\ UNCHANGED <<res, pc, open>>
  /\ UNCHANGED <<scen, lk, asked, names, fetched, cands, att, ports, hs, wsr, cancelled, cidx, cphase>>

Abandon ==                      \* the context is done while a connection that is not complete is open
  /\ pc = "dial" /\ cur # 0 /\ cancelled /\ ph \in {"tcp", "secure", "wsreq"}
  /\ EndAttempt /\ CloseCur
  /\ UNCHANGED <<scen, pc, lk, asked, names, fetched, cands, att, ports, hs, wsr, cancelled, cidx, cphase, res>>

GiveUp ==
  /\ pc = "dial" /\ cur = 0
  /\ (cands \subseteq Tried \/ cancelled \/ "GiveUpEarly" \in Dev)
  /\ pc' = "done"
  /\ res' = (IF "NilNil" \in Dev /\ att = <<>> THEN [st |-> "nilnil", c |-> 0] ELSE [st |-> "err", c |-> 0])
  /\ UNCHANGED <<scen, lk, asked, names, fetched, cands, att, ports, cur, ph, open, hs, wsr, cancelled, cidx, cphase>>

Return ==                       \* the call returns to the caller
  /\ pc = "done" /\ pc' = "returned"
  /\ UNCHANGED <<scen, lk, asked, names, fetched, cands, att, ports, cur, ph, open, hs, wsr, cancelled, cidx, cphase, res>>

-----------------------------------------------------------------------------
Roles == {"client", "server"}
Doms == {"jid", "server"}
AskAny(s) ==
  \E role \in (IF "WrongRole" \in Dev THEN Roles ELSE {GoodRole}), dom \in (IF "WrongDomain" \in Dev THEN Doms ELSE {GoodDom}) :
    Ask(s, role, dom)
ConnectAny == \E p \in PortsOf(cur) : Connect(cur, p)
HelloAny ==
  \E sni \in (IF "SNITarget" \in Dev THEN {"target", "server", GoodSNI} ELSE {GoodSNI}),
     alpn \in (IF "WrongALPN" \in Dev THEN {"xmpp-client", "xmpp-server", "none"} ELSE {GoodALPN}) : Hello(cur, sni, alpn)

Next ==
  \/ Cancel
  \/ \E s \in Svcs : AskAny(s) \/ Answer(s) \/ SkipLookup(s)
  \/ StartDial
  \/ Fetch(TRUE) \/ ("WrongURL" \in Dev /\ Fetch(FALSE))
  \/ \E c \in AllIds : Attempt(c)
  \/ Resolved \/ (ph = "connect" /\ ConnectAny) \/ Connected
  \/ (ph = "tcp" /\ HelloAny) \/ Shaken
  \/ (cur # 0 /\ WsReq(cur, "WrongProto" \notin Dev)) \/ Upgraded
  \/ Succeed \/ Abandon \/ GiveUp \/ Return

Spec == Init /\ [][Next]_vars

-----------------------------------------------------------------------------
(* The rules as properties over the history *)
Finished == pc \in {"done", "returned"}

D_LookupRule ==           \* R1: which services are asked for, and that they are asked before anything is tried
  /\ asked \subseteq Wanted
  /\ (pc # "lookup" /\ cphase # "lookup") => Wanted \subseteq asked

D_LookupName ==           \* R1: the service name matches the connection type, the domain is the right one
  /\ \A i \in DOMAIN names : names[i].role = GoodRole /\ names[i].dom = GoodDom
  /\ \A i \in DOMAIN fetched : fetched[i]

D_DotMeansNo ==           \* R2
  \A i \in DOMAIN att : att[i] < 30 => lk[SvcOf(att[i])] # "dot"

D_Fallback ==             \* R3: the fallback endpoint only without records; never beside records
  \A i \in DOMAIN att : IsFallback(att[i]) => (scen.nolookup \/ lk[SvcOf(att[i])] \in {"nf", "nodata", "err"})

(* the endpoints that have to be tried before giving up *)
Mandatory ==
  IF Srv
  THEN UNION {IF scen.nolookup \/ lk[s] \in {"nf", "nodata"} THEN {10 * s} ELSE IF lk[s] = "recs" THEN RecIds(s) ELSE {} : s \in Used}
  ELSE IF scen.doc = "ok" /\ fetched = <<TRUE>>
       THEN {c \in LinkIds : Lnk(c).rel = "ws" /\ Dialable(c) /\ (Lnk(c).scheme = "wss" \/ scen.insecure)} ELSE {}
D_AllTried ==             \* R3, R4: an error only after every endpoint was tried (unless the context is done)
  (Finished /\ res.st # "ok" /\ ~cancelled) => Mandatory \subseteq Tried

D_OnlyCandidates ==       \* R7 (and R1 with NoTLS): nothing outside the discovered endpoints is tried
  \A i \in DOMAIN att :
    IF Srv THEN SvcOf(att[i]) \in Used
    ELSE Lnk(att[i]).rel = "ws" /\ (Lnk(att[i]).scheme = "wss" \/ scen.insecure)

D_Order ==                \* R4: implicit TLS first, priorities in order
  \A i, j \in DOMAIN att : i < j => ~RuleBefore(att[j], att[i])

D_AtMostOnce == \A i, j \in DOMAIN att : i # j => att[i] # att[j]

D_FirstSuccess ==         \* R4: no endpoint that gives a connection is passed over
  \A i \in DOMAIN att :
    (/\ (i < Len(att) \/ (Finished /\ res.st # "ok"))
     /\ (~cancelled \/ i < cidx))
    => ~WouldSucceed(att[i])

D_Result ==               \* R4: the connection returned is the one just made; R7: never "no connection, no error"
  /\ res.st \in {"none", "ok", "err"}
  /\ res.st = "ok" => (att # <<>> /\ res.c = Last(att) /\ WouldSucceed(res.c))

D_NoLeak ==               \* R4: every socket that is not returned is closed
  Finished => open = (IF res.st = "ok" THEN {res.c} ELSE {})

D_TLSMode ==              \* R5
  /\ \A i \in DOMAIN hs : Mode(hs[i].c) = "tls" /\ hs[i].sni = GoodSNI /\ hs[i].alpn = GoodALPN
  /\ (res.st = "ok" /\ Mode(res.c) = "tls") => \E i \in DOMAIN hs : hs[i].c = res.c
  /\ \A i \in DOMAIN wsr : wsr[i].proto

D_Cancel ==               \* R6
  (Finished /\ cancelled) => res.st # "ok"

D_FallbackPort ==         \* R3
  \A i \in DOMAIN ports :
    LET c == ports[i][1] p == ports[i][2] IN
    IF IsFallback(c)
    THEN p \in (IF scen.s2s THEN (IF c = 10 THEN {5270, 5223} ELSE {5269}) ELSE (IF c = 10 THEN {5223} ELSE {5222}))
    ELSE p = 7000 + c

Safety ==
  /\ D_LookupRule /\ D_LookupName /\ D_DotMeansNo /\ D_Fallback /\ D_AllTried /\ D_OnlyCandidates /\ D_Order
  /\ D_AtMostOnce /\ D_FirstSuccess /\ D_Result /\ D_NoLeak /\ D_TLSMode /\ D_Cancel /\ D_FallbackPort

(* action property: once the call has its result nothing further is looked up, tried or left open *)
D_Final == [][Finished => UNCHANGED <<lk, asked, att, ports, open, hs, wsr, res>>]_vars
=============================================================================
