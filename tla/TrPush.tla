------------------------------- MODULE TrPush -------------------------------
(* Trace validation of recorded runs of the real handlers (harness/cmd/push) against the OBSERVER *)
(* layer of Push.tla.  One trace per scenario; the reset line carries the configuration and the    *)
(* script.  Events, in program order of the serve goroutine:                                        *)
(*   in k          stanza k was delivered to the session (everything before is handled completely) *)
(*   cb ...        an application callback ran, with the fields it was given                       *)
(*   reply ...     a stanza the library wrote (type, id, to, condition, payload summary)           *)
(*   call k / req ... / answer / ret ...   a client-side helper, its request on the wire, its result*)
(*   eos, streamerr, serve_ret err, end                                                            *)
(* Every event only extends the observer variables; the verdict is Safety' (the properties P_* of  *)
(* Push.tla).  The end of the handling of a stanza (Finish) is a silent step that TLC places.      *)
EXTENDS Push, Json

CONSTANT Only    \* the properties that decide (AllProps; a single one when a rejected trace is diagnosed)

Trace == ndJsonDeserialize("trace.ndjson")
VARIABLES l, t0
tvars == <<vars, l, t0>>
Starts == {i \in 1..Len(Trace) : Trace[i].ev = "reset"}
EndOf(i) == Trace[i].end
IsEv(e) == l < EndOf(t0) /\ Trace[l].ev = e /\ l' = l + 1
E == Trace[l]

TInit == /\ t0 \in Starts /\ l = t0 /\ InitWith(Trace[t0].cfg, Trace[t0].script)

TrReset == l = t0 /\ IsEv("reset") /\ UNCHANGED vars

Fresh == cbs' = <<>> /\ reps' = <<>> /\ reqs' = <<>> /\ ret' = <<>> /\ UNCHANGED <<cfg, script, eos, queue>>
TrIn ==
  /\ IsEv("in") /\ pc = "idle" /\ ~eos /\ k < Len(script) /\ E.k = k + 1 /\ ~IsCall(script[k + 1])
  /\ k' = k + 1 /\ pc' = "route" /\ Fresh
TrCall ==
  /\ IsEv("call") /\ pc = "idle" /\ ~eos /\ k < Len(script) /\ E.k = k + 1 /\ IsCall(script[k + 1])
  /\ k' = k + 1 /\ pc' = "creq" /\ Fresh

CbRec(e) ==
  CASE e.cb = "roster" -> [cb |-> "roster", ver |-> e.ver, jid |-> e.jid, name |-> e.name, sub |-> e.sub, groups |-> e.groups]
    [] e.cb = "carbon" -> [cb |-> "carbon", sent |-> e.sent, id |-> e.id, from |-> e.from, to |-> e.to, typ |-> e.typ,
                           body |-> e.body, msgs |-> e.msgs]
    [] OTHER -> [cb |-> e.cb, jid |-> e.jid, rep |-> e.rep]      \* block / unblock / unblockall: the report the callback was handed
TrCb == IsEv("cb") /\ Busy /\ cbs' = Append(cbs, CbRec(E)) /\ UNCHANGED <<cfg, script, k, pc, eos, queue, reps, reqs, ret>>

RepRec(e) == [st |-> e.st, typ |-> e.typ, id |-> e.id, to |-> e.to, cond |-> e.cond, pl |-> e.pl, ns |-> e.ns, node |-> e.node,
              a |-> e.a, b |-> e.b]
TrReply == IsEv("reply") /\ Busy /\ reps' = Append(reps, RepRec(E)) /\ UNCHANGED <<cfg, script, k, pc, eos, queue, cbs, reqs, ret>>
TrReq == IsEv("req") /\ Busy /\ reqs' = Append(reqs, RepRec(E)) /\ UNCHANGED <<cfg, script, k, pc, eos, queue, cbs, reps, ret>>
TrAnswer == IsEv("answer") /\ pc = "creq" /\ reqs # <<>> /\ pc' = "cret" /\ UNCHANGED <<cfg, script, k, eos, queue, cbs, reps, reqs, ret>>
TrRet ==
  /\ IsEv("ret") /\ pc \in {"creq", "cret"}
  /\ ret' = Append(ret, [err |-> E.err, cond |-> E.cond, a |-> E.a, b |-> E.b, node |-> E.node])
  /\ pc' = "finish"
  /\ UNCHANGED <<cfg, script, k, eos, queue, cbs, reps, reqs>>

(* the handling of element k is complete (placed by TLC; Safety' then demands the completion properties) *)
TrFinish == Busy /\ pc' = "idle" /\ UNCHANGED <<cfg, script, k, eos, queue, cbs, reps, reqs, ret, l>>

TrEos == IsEv("eos") /\ pc = "idle" /\ k = Len(script) /\ ~eos /\ eos' = TRUE /\ UNCHANGED <<cfg, script, k, pc, queue, cbs, reps, reqs, ret>>
TrStreamErr == IsEv("streamerr") /\ UNCHANGED vars
(* Serve returns: nil after the peer ended the stream, an error when a handler failed *)
TrServeRet ==
  /\ IsEv("serve_ret")
  /\ \/ pc = "idle" /\ eos /\ E.err = "none"
     \/ Busy /\ E.err \in {"other", "stream"}
  /\ pc' = "ended"
  /\ UNCHANGED <<cfg, script, k, eos, queue, cbs, reps, reqs, ret>>
TrEnd == IsEv("end") /\ pc = "ended" /\ UNCHANGED vars

TNext ==
  /\ l < EndOf(t0)
  /\ \/ TrReset \/ TrIn \/ TrCall \/ TrCb \/ TrReply \/ TrReq \/ TrAnswer \/ TrRet \/ TrFinish
     \/ TrEos \/ TrStreamErr \/ TrServeRet \/ TrEnd
  /\ UNCHANGED t0
  /\ SafetyOf(Only)'

TSpec == TInit /\ [][TNext]_tvars
HW == TLCSet(t0, IF TLCGet(t0) < l THEN l ELSE TLCGet(t0))
Rejected == {i \in Starts : TLCGet(i) # EndOf(i)}
Accepted ==
  \/ Rejected = {}
  \/ PrintT(<<"REJECTED", {<<Trace[i].t, TLCGet(i)>> : i \in Rejected}>>) /\ FALSE
ASSUME \A i \in Starts : TLCSet(i, 0)
=============================================================================
