------------------------------- MODULE MCBind -------------------------------
EXTENDS Bind
SpecInit == Spec(InitScenarios(MaxStr))
SpecRecv == Spec(RecvScenarios(MaxStr))
SpecShared == SharedSpec(NSess)
=============================================================================
