---------------------------- MODULE EmitNegPool ----------------------------
EXTENDS NegPool, Json, TLC, Sequences, SequencesExt
ASSUME JsonSerialize("pool_quick.json", SetToSeq(PoolQuick))
ASSUME JsonSerialize("pool_thorough.json", SetToSeq(PoolThorough))
VARIABLE x
Init == x = 0
Next == UNCHANGED x
=============================================================================
