------------------------------ MODULE MCMux ------------------------------
(* Bounds of the design check of Mux.tla (pipeline A of C14). *)
EXTENDS Mux

WS == {"", "A", "B"}
WL == {"", "x", "y"}
Nine(k, t) == {Pat(k, t, sp, lo) : sp \in WS, lo \in WL}
InNames == {Nm(sp, lo) : sp \in {"A", "B"}, lo \in {"x", "y"}} \cup {Nm("C", "z")}

St(k, t, kids) == El(k, "NS", k, t, "i1", "f", kids)
TopEl(n) == El("top", n.sp, n.lo, "", "", "", <<>>)

(* kid sequences without two adjacent text children (they would be one token) *)
KidSeqs(K, n) == {s \in UNION {[1..m -> K] : m \in 0..n} :
                    \A i \in 1..(Len(s) - 1) : ~(IsTxt(s[i]) /\ IsTxt(s[i + 1]))}

U_top == Nine("top", "") \cup {Pat("iq", "get", "", ""), Pat("msg", "normal", "A", "x"), Pat("top", "", "NS", "")}
E_top == {TopEl(n) : n \in InNames}
         \cup {St("iq", "get", <<Nm("A", "x")>>), St("msg", "", <<Nm("A", "x")>>)}

U_iq == Nine("iq", "get") \cup {Pat("iq", "set", "", ""), Pat("top", "", "A", "")}
E_iq == {St("iq", "get", <<n>>) : n \in InNames}
        \cup {St("iq", "set", <<Nm("A", "x")>>), St("iq", "set", <<Nm("B", "y")>>),
              St("iq", "result", <<>>), St("iq", "result", <<Nm("A", "x")>>),
              St("iq", "error", <<Nm("A", "x")>>), St("iq", "get", <<Nm("A", "x"), Nm("B", "y")>>)}

U_iqr == Nine("iq", "result") \cup {Pat("iq", "get", "", "")}
E_iqr == {St("iq", "result", <<n>>) : n \in InNames} \cup {St("iq", "result", <<>>), St("iq", "error", <<>>)}

U_msg == Nine("msg", "normal") \cup {Pat("msg", "chat", "", ""), Pat("pres", "", "", "")}
E_msg == {St("msg", "", ks) : ks \in KidSeqs({Nm("A", "x"), Nm("B", "y"), Txt}, 2)}
         \cup {St("msg", "chat", <<Nm("A", "x")>>), St("msg", "bogus", <<Nm("A", "x")>>),
               St("msg", "normal", <<Nm("C", "z")>>), St("pres", "", <<Nm("A", "x")>>), St("pres", "", <<>>)}

U_pres == Nine("pres", "") \cup {Pat("pres", "unavailable", "", ""), Pat("msg", "normal", "", "")}
E_pres == {St("pres", "", ks) : ks \in KidSeqs({Nm("A", "y"), Nm("B", "x")}, 1)}
          \cup {St("pres", "", <<Nm("A", "y"), Nm("B", "x")>>)}
          \cup {St("pres", "unavailable", <<Nm("A", "y")>>), St("pres", "unavailable", <<>>)}

(* replay buffer: few tables, every consumption program, two handler identities *)
U_replay == {Pat("msg", "normal", "", ""), Pat("msg", "normal", "A", "x"), Pat("msg", "normal", "", "y")}
E_replay == {St("msg", "normal", ks) : ks \in KidSeqs({Nm("A", "x"), Nm("B", "y"), Txt}, 3)}
E_replay2 == {St("msg", "normal", ks) : ks \in KidSeqs({Nm("A", "x"), Nm("B", "y"), Txt}, 2)}

(* nested routing: a handler of the outer stanza routes another stanza through the same multiplexer *)
St2(k, t, kids) == El(k, "NS", k, t, "i2", "f", kids)
U_nest == {Pat("msg", "normal", "", ""), Pat("msg", "normal", "A", "x"), Pat("msg", "normal", "", "y"), Pat("pres", "", "", "")}
E_nest == {St("msg", "normal", ks) : ks \in KidSeqs({Nm("A", "x"), Nm("B", "y"), Txt}, 2) \ {<<>>, <<Txt>>}}
          \cup {St("msg", "normal", <<Nm("A", "x"), Nm("B", "y"), Nm("A", "x")>>)}
I_nest == {St2("msg", "normal", <<Nm("B", "y")>>), St2("msg", "normal", <<Nm("C", "z"), Nm("A", "x")>>), St2("msg", "normal", <<>>),
           St2("pres", "", <<Nm("A", "x"), Txt>>), St2("iq", "get", <<Nm("A", "x")>>)}
(* construction: every way of making the multiplexer, registration after first use *)
U_ctor == {Pat("msg", "normal", "", ""), Pat("msg", "normal", "A", "x"), Pat("iq", "get", "A", ""), Pat("iq", "get", "", "x"), Pat("top", "", "B", "y")}
E_ctor == {St("msg", "normal", <<Nm("A", "x"), Nm("B", "y")>>), St("msg", "normal", <<>>), St("iq", "get", <<Nm("A", "x")>>), St("iq", "set", <<Nm("A", "x")>>),
           St("pres", "", <<Nm("A", "x")>>), TopEl(Nm("B", "y")), TopEl(Nm("C", "z"))}
AllCtors == {"new", "zero", "late", "afteruse"}
E_nestT == E_replay \ {St("msg", "normal", <<>>), St("msg", "normal", <<Txt>>)}
=============================================================================
