---------------------------- MODULE EmitRequest ----------------------------
(* Pipeline B of XREQ: the scenario universe of MCRequest.tla (helper kind x variant x argument class x   *)
(* peer script), one record per line, for the driver harness/cmd/request.                                *)
EXTENDS MCRequest, Json, SequencesExt

(* the emitter explores nothing: its behaviour specification starts from one scenario only *)
One == {CHOOSE s \in Universe : TRUE}
ASSUME PrintT(<<"SCENARIOS", Cardinality(Universe)>>)
ASSUME ndJsonSerialize("request-scenarios.ndjson", SetToSeq(Universe))
=============================================================================
