------------------------------ MODULE EmitSASL ------------------------------
(* Emits what the driver enumerates over (so that it has no copy of its own): the   *)
(* peer alphabets of SASL.tla, the mechanism scripts and the preference lists.      *)
EXTENDS SASL, Json, SequencesExt

(* One scripted step of a mechanism: more / err as returned to sasl.go; perm: whether *)
(* the step consults the permission callback and with which verdict (a refused       *)
(* verdict makes the step return the authentication error, as PLAIN does).           *)
O(more, err, perm) == [more |-> more, err |-> err, perm |-> perm]
M  == O(TRUE, FALSE, "none")    \* wants more
MY == O(TRUE, FALSE, "yes")     \* consults the callback (accepted), wants more
D  == O(FALSE, FALSE, "none")   \* done
DY == O(FALSE, FALSE, "yes")    \* consults the callback (accepted), done
PN == O(FALSE, TRUE, "no")      \* consults the callback (refused): authentication error
E  == O(FALSE, TRUE, "none")    \* any other error

Proper(s, cont) == \A i \in 1..(Len(s) - 1) : s[i] \in cont
SeqsUpTo(S, n) == UNION {[1..k -> S] : k \in 1..n}

(* a script shorter than the exchange answers further steps with an error *)
ClientScripts(n) == {s \in SeqsUpTo({M, D, E}, n) : Proper(s, {M})}
(* Server mechanisms complete only after consulting the callback (assumption of the  *)
(* check: a mechanism that never asks cannot be held against sasl.go).               *)
ServerScriptsQuick(n) == {s \in SeqsUpTo({M, DY, PN, E}, n) : Proper(s, {M})}
ServerScripts(n) ==
  {s \in SeqsUpTo({M, MY, D, DY, PN, E}, n) :
     /\ Proper(s, {M, MY})
     /\ (s[Len(s)] = D => \E i \in 1..(Len(s) - 1) : s[i] = MY)}

Lists == OrderedSublists({"M1", "M2", "M3"})

ASSUME JsonSerialize("sasl_pool.json", [
  calpha   |-> SetToSeq(ClientAlphabet),
  cshaped  |-> SetToSeq(ShapedClient),
  sshaped  |-> SetToSeq(ShapedServer),
  shapes   |-> SetToSeq({[p |-> q, c |-> PClass(q)] : q \in Shapes}),
  kindplans |-> SetToSeq(KindPlans(0) \cup KindPlans(2)),
  salpha   |-> SetToSeq(ServerAlphabetFor({"M1", "M2", "M3", Unk, ""})),
  cscripts |-> SetToSeq(ClientScripts(3)),
  sscripts_quick |-> SetToSeq(ServerScriptsQuick(3)),
  sscripts |-> SetToSeq(ServerScripts(3)),
  \* the payload-shape trees: mechanisms that complete (after 0, 1, 2 further rounds)
  cscripts_shape |-> SetToSeq({s \in ClientScripts(3) : s[Len(s)] = D}),
  sscripts_shape |-> SetToSeq({s \in ServerScriptsQuick(3) : s[Len(s)] = DY}),
  local    |-> SetToSeq(Lists \ {<<>>}),
  adv      |-> SetToSeq(OrderedSublists({"M1", "M2", "M3", Unk})) ])

VARIABLE x
EInit == /\ x = 0 /\ role = "client" /\ local = <<>> /\ adv = <<>> /\ pc = "idle" /\ selected = None
         /\ stepIdx = 0 /\ mechDone = FALSE /\ mechErr = FALSE /\ successSeen = FALSE /\ earlySuccess = FALSE
         /\ permitted = "none" /\ authn = FALSE /\ npeer = 0 /\ sess = 1
ENext == UNCHANGED <<x, vars>>
=============================================================================
