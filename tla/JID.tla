-------------------------------- MODULE JID --------------------------------
(* C11 - JIDs are canonical.                                                          *)
(*                                                                                    *)
(* Addresses are strings over an abstract alphabet of representatives (one symbol per *)
(* case the address rules distinguish).  The module gives                             *)
(*   - the reference functions Split / class and normal form of each part / Parse /   *)
(*     String.  A normal form is only claimed ("ok") where RFC 7622 with PRECIS        *)
(*     (RFC 8265 UsernameCaseMapped, OpaqueString) and IDNA (RFC 5895 mapping) mandate  *)
(*     it for the representative, rejection ("bad") only for what property C11 itself  *)
(*     rules out; everything else is "free": only the laws apply;                     *)
(*   - the laws C11_* as operators over any result (also evaluated by TrJID on the     *)
(*     observations recorded from the real package, there over code points);          *)
(*   - a small state machine over the exported API (Parse, New, With*, Bare, Domain)  *)
(*     whose invariants are the laws (design check, MCJID).                           *)
EXTENDS Integers, Sequences, FiniteSets, TLC, SequencesExt

(* ------------------------------------------------------------------ alphabet *)
a == 1    UA == 2   AT == 3   SL == 4   DOT == 5  QUOT == 6  COLON == 7  SP == 8
LB == 9   RB == 10
FW == 11      \* U+FF21 FULLWIDTH LATIN CAPITAL LETTER A (width-mapped and case-folded where mandated)
CS == 12      \* "e" followed by U+0301 (combining sequence, NFC -> U+00E9)
IDS == 13     \* U+3002 IDEOGRAPHIC FULL STOP (a label separator for IDNA)
UU == 14      \* U+00FC, a non-ASCII letter stable under all mappings
XN == 15      \* the A-label "xn--tda" (= U+00FC)
V4 == 16      \* "192.0.2.1"
V6 == 17      \* "[2001:db8::1]"
BAD == 18     \* the byte 0xFF (invalid UTF-8)
EA == 19      \* U+00E9 (what CS normalises to)
L1022 == 20  L1023 == 21  L1024 == 22      \* runs of n letters "a"
V6B == 23     \* "fe80::1": the text of an IPv6 address without its brackets
PCT == 24     \* "%" (introduces a zone in textual IPv6 addresses; no zone is part of an IP literal of RFC 7622 3.2 / RFC 3986)
(* A-label family.  RFC 5890 2.3.2.1: an A-label begins with the ACE prefix "xn--" (case independent); RFC 7622  *)
(* 3.2.1: "each A-label MUST be converted to a U-label"; RFC 5895 maps upper case to lower case first.  So every *)
(* case variant of the A-label of U+00FC denotes the U-label U+00FC.  The other tokens are labels that carry the  *)
(* prefix without being the A-label of a valid U-label: nothing is claimed for them ("free": only the laws).      *)
XNU == 25     \* "XN--tda"  the prefix in upper case
XNM == 26     \* "Xn--tda"  the prefix in mixed case
XNm == 27     \* "xN--tda"
XNT == 28     \* "xn--TDA"  lower-case prefix, the Punycode digits in upper case (RFC 3492: digits are case-insensitive)
XNBAD == 29   \* "xn--a"    Punycode that decodes to U+0080 (no valid label)
XNMAP == 30   \* "xn--7ba"  valid Punycode of U+00C4, which IDNA maps further (to U+00E4): not the A-label of a U-label
XNASC == 31   \* "xn--a-"   Punycode of the all-ASCII label "a" (a "fake A-label")
XNE == 32     \* "xn--"     the bare prefix

Core  == 1..19                  \* symbols of the exhaustive enumeration
Longs == {L1022, L1023, L1024}
IPSyms == {V6B, PCT}            \* symbols of the IP-literal family (EmitJID.IPStrs)
ACECase == {XNU, XNM, XNm, XNT}                \* case variants of the A-label XN
ACEFree == {XNBAD, XNMAP, XNASC, XNE}          \* labels with the prefix for which no canonical form is claimed
ACESyms == {XN} \cup ACECase \cup ACEFree       \* symbols of the A-label family (EmitJID.ACEStrs)
Sigma == Core \cup Longs \cup IPSyms \cup ACESyms
NSyms == 32

(* concrete text of each symbol for the Go driver: code points, or raw bytes, or a run *)
Text == [s \in Sigma |->
  CASE s = a -> <<97>> [] s = UA -> <<65>> [] s = AT -> <<64>> [] s = SL -> <<47>> [] s = DOT -> <<46>>
    [] s = QUOT -> <<34>> [] s = COLON -> <<58>> [] s = SP -> <<32>> [] s = LB -> <<91>> [] s = RB -> <<93>>
    [] s = FW -> <<65313>> [] s = CS -> <<101, 769>> [] s = IDS -> <<12290>> [] s = UU -> <<252>>
    [] s = XN -> <<120, 110, 45, 45, 116, 100, 97>>
    [] s = V4 -> <<49, 57, 50, 46, 48, 46, 50, 46, 49>>
    [] s = V6 -> <<91, 50, 48, 48, 49, 58, 100, 98, 56, 58, 58, 49, 93>>
    [] s = BAD -> <<-255>>                      \* negative: a raw byte
    [] s = EA -> <<233>>
    [] s = V6B -> <<102, 101, 56, 48, 58, 58, 49>> [] s = PCT -> <<37>>
    [] s = XNU -> <<88, 78, 45, 45, 116, 100, 97>> [] s = XNM -> <<88, 110, 45, 45, 116, 100, 97>>
    [] s = XNm -> <<120, 78, 45, 45, 116, 100, 97>> [] s = XNT -> <<120, 110, 45, 45, 84, 68, 65>>
    [] s = XNBAD -> <<120, 110, 45, 45, 97>> [] s = XNMAP -> <<120, 110, 45, 45, 55, 98, 97>>
    [] s = XNASC -> <<120, 110, 45, 45, 97, 45>> [] s = XNE -> <<120, 110, 45, 45>>
    [] s = L1022 -> <<-100000 - 1022>> [] s = L1023 -> <<-100000 - 1023>> [] s = L1024 -> <<-100000 - 1024>>]

(* UTF-8 length of the symbol's text *)
BLen == [s \in Sigma |->
  CASE s \in {FW, IDS} -> 3 [] s = CS -> 3 [] s \in {UU, EA} -> 2 [] s = XN -> 7 [] s = V4 -> 9 [] s = V6 -> 13 [] s = V6B -> 7
    [] s \in ACECase \cup {XNMAP} -> 7 [] s = XNBAD -> 5 [] s = XNASC -> 6 [] s = XNE -> 4
    [] s = L1022 -> 1022 [] s = L1023 -> 1023 [] s = L1024 -> 1024 [] OTHER -> 1]

RECURSIVE SumLen(_)
SumLen(p) == IF p = <<>> THEN 0 ELSE BLen[Head(p)] + SumLen(Tail(p))

Has(p, S) == \E i \in 1..Len(p) : p[i] \in S
MapSeq(p, f(_)) == [i \in 1..Len(p) |-> f(p[i])]

(* -------------------------------------------------------------------- split *)
(* generic in the separators so that TrJID can apply it to code points *)
FirstIdx(s, x) == IF \E i \in 1..Len(s) : s[i] = x
                  THEN CHOOSE i \in 1..Len(s) : s[i] = x /\ \A j \in 1..(i-1) : s[j] # x
                  ELSE 0

(* first "/" ends the bare part, then the first "@" of the bare part ends the localpart;  *)
(* a separator that introduces an empty resourcepart / localpart is an error              *)
SplitWith(s, slash, at) ==
  LET i == FirstIdx(s, slash)
      bare == IF i = 0 THEN s ELSE SubSeq(s, 1, i - 1)
      r == IF i = 0 THEN <<>> ELSE SubSeq(s, i + 1, Len(s))
      k == FirstIdx(bare, at)
  IN IF i # 0 /\ i = Len(s) THEN [err |-> "nores", l |-> <<>>, d |-> <<>>, r |-> <<>>]
     ELSE IF k = 1 THEN [err |-> "nolocal", l |-> <<>>, d |-> <<>>, r |-> <<>>]
     ELSE [err |-> "none",
           l |-> IF k = 0 THEN <<>> ELSE SubSeq(bare, 1, k - 1),
           d |-> IF k = 0 THEN bare ELSE SubSeq(bare, k + 1, Len(bare)),
           r |-> r]

Split(s) == SplitWith(s, SL, AT)

AssembleWith(l, d, r, slash, at) ==
  (IF l # <<>> THEN l \o <<at>> ELSE <<>>) \o d \o (IF r # <<>> THEN <<slash>> \o r ELSE <<>>)
Assemble(l, d, r) == AssembleWith(l, d, r, SL, AT)

(* ----------------------------------------------------- parts: class and normal form *)
CONSTANT Dev      \* named deviations (always {} in design checks and validation)

(* localpart: UsernameCaseMapped (width mapping, lower case, NFC) + RFC 7622 3.3.1 *)
NormLSym(s) == CASE s \in {UA, FW} -> a [] s = CS -> EA [] s \in ACECase -> XN      \* (in a localpart the token is just ASCII text: lower-cased)
                   [] OTHER -> s
NormL(p) == MapSeq(p, NormLSym)
ForbiddenLocal == {AT, SL, QUOT, COLON, V6, V6B}       \* (& ' < > have no representative; V6 contains ":")
ClsL(p) ==
  IF p = <<>> THEN "ok"                                        \* no localpart
  ELSE IF Has(p, {BAD}) \/ Has(p, ForbiddenLocal) THEN "bad"
  ELSE IF Has(p, {SP, IDS}) THEN "free"                        \* outside IdentifierClass: not modelled
  ELSE IF SumLen(NormL(p)) > 1023 THEN "bad" ELSE "ok"

(* resourcepart: OpaqueString (NFC, case and width preserved) *)
NormRSym(s) == IF s = CS THEN EA ELSE s
NormR(p) == MapSeq(p, NormRSym)
ClsR(p) ==
  IF p = <<>> THEN "ok"
  ELSE IF Has(p, {BAD}) THEN "bad"
  ELSE IF SumLen(NormR(p)) > 1023 THEN "bad" ELSE "ok"

(* domainpart: IP literal, or labels; one final label separator is stripped; IDNA mapping *)
NormDSym(s) == CASE s \in {UA, FW} -> a [] s = CS -> EA [] s = IDS -> DOT [] s \in ACECase -> XN [] OTHER -> s
RECURSIVE Labels(_)      \* split at DOT
Labels(p) == LET i == FirstIdx(p, DOT) IN
             IF i = 0 THEN <<p>> ELSE <<SubSeq(p, 1, i - 1)>> \o Labels(SubSeq(p, i + 1, Len(p)))
RECURSIVE Join(_)
Join(ls) == IF Len(ls) = 1 THEN ls[1] ELSE ls[1] \o <<DOT>> \o Join(Tail(ls))
DLabels(p) == LET ls == Labels(MapSeq(p, NormDSym)) IN
              IF Len(ls) >= 2 /\ ls[Len(ls)] = <<>> THEN SubSeq(ls, 1, Len(ls) - 1) ELSE ls
NormLabel(lb) == IF lb = <<XN>> THEN <<UU>> ELSE lb
IPLit(p) == p = <<V6>> \/ p = <<LB, V6B, RB>>          \* a bracketed IPv6 address and nothing else
NormDStrict(p) == IF IPLit(p) THEN p ELSE Join(MapSeq(DLabels(p), NormLabel))
DomainLetters == {a, UA, DOT, FW, CS, IDS, UU, XN, EA} \cup Longs \cup ACECase
ClsD(p) ==
  IF p = <<>> \/ Has(p, {BAD}) THEN "bad"
  ELSE IF IPLit(p) \/ p \in {<<V4>>, <<V4, DOT>>, <<V4, IDS>>} THEN "ok"
  ELSE IF ~(\A i \in 1..Len(p) : p[i] \in DomainLetters) THEN "free"       \* non-LDH ASCII, IP tokens inside
  ELSE LET ls == DLabels(p) IN
       IF \E i \in 1..Len(ls) : ls[i] = <<>> THEN "free"                   \* empty label
       ELSE IF SumLen(NormDStrict(p)) > 1023 THEN "bad"
       ELSE IF \E i \in 1..Len(ls) : (Has(ls[i], {XN}) /\ ls[i] # <<XN>>) \/ SumLen(ls[i]) > 63 THEN "free"   \* (ls is mapped: XN stands for every case variant)
       ELSE "ok"

(* What an implementation does with a "free" part is not fixed by the property.  The model   *)
(* either rejects it (lenient = FALSE) or accepts it unchanged (lenient = TRUE) unless that   *)
(* would put a separator into a localpart or domainpart.  The deviation TrailingDotOnce is    *)
(* the pinned code: one final "." is stripped BEFORE the mapping only.                        *)
(* The deviation AcePrefixCaseSensitive is an ASCII fast path that looks for the text "xn--" BEFORE it lower-cases   *)
(* the name: a host name of ASCII letters, dots and A-labels whose prefix is not in lower case is lower-cased and   *)
(* returned with its A-labels unconverted (which does not survive being parsed again).                              *)
StripDot(p) == IF p # <<>> /\ p[Len(p)] = DOT THEN SubSeq(p, 1, Len(p) - 1) ELSE p
AsciiFastPath(p) == ~IPLit(p) /\ \A i \in 1..Len(p) : p[i] \in {a, UA, DOT, XNU, XNM, XNm}
NormD(p) ==
  IF ClsD(p) = "ok" THEN (IF "AcePrefixCaseSensitive" \in Dev /\ AsciiFastPath(p) THEN Join(DLabels(p)) ELSE NormDStrict(p))
  ELSE IF "TrailingDotOnce" \in Dev THEN MapSeq(StripDot(p), NormDSym)
  ELSE p
AcceptFreeL(p) == ~Has(p, {AT, SL})
AcceptFreeD(p) == ~Has(p, {AT, SL}) /\ (("TrailingDotOnce" \in Dev) => NormD(p) # <<>>)

(* -------------------------------------------------------------- addresses *)
NoJID == [ok |-> FALSE, l |-> <<>>, d |-> <<>>, r |-> <<>>]
JIDOf(l, d, r) == [ok |-> TRUE, l |-> l, d |-> d, r |-> r]

(* spec-level verdict on building an address from three raw parts *)
ClsNew(l, d, r) ==
  IF "bad" \in {ClsL(l), ClsD(d), ClsR(r)} THEN "bad"
  ELSE IF {ClsL(l), ClsD(d), ClsR(r)} = {"ok"} THEN "ok" ELSE "free"
CanonNew(l, d, r) == Assemble(NormL(l), NormDStrict(d), NormR(r))

ClsParse(s) == LET sp == Split(s) IN IF sp.err # "none" THEN "bad" ELSE ClsNew(sp.l, sp.d, sp.r)
CanonParse(s) == LET sp == Split(s) IN CanonNew(sp.l, sp.d, sp.r)

(* the model implementation (len = how it treats free parts) *)
AccL(p, len) == ClsL(p) = "ok" \/ (ClsL(p) = "free" /\ len /\ AcceptFreeL(p))
AccD(p, len) == ClsD(p) = "ok" \/ (ClsD(p) = "free" /\ len /\ AcceptFreeD(p))
AccR(p, len) == ClsR(p) = "ok"
ModL(p) == IF ClsL(p) = "ok" THEN NormL(p) ELSE p
ModNew(l, d, r, len) ==
  IF AccL(l, len) /\ AccD(d, len) /\ AccR(r, len) THEN JIDOf(ModL(l), NormD(d), NormR(r)) ELSE NoJID
ModParse(s, len) == LET sp == Split(s) IN IF sp.err # "none" THEN NoJID ELSE ModNew(sp.l, sp.d, sp.r, len)
String(j) == Assemble(j.l, j.d, j.r)

(* --------------------------------------------------------------------- laws *)
(* over any result j = [ok, l, d, r]; reparse / built / ... are further results *)
C11_PartsValidOf(j) ==
  j.ok => /\ j.d # <<>> /\ ~Has(j.l \o j.d \o j.r, {BAD})
          /\ SumLen(j.l) <= 1023 /\ SumLen(j.d) <= 1023 /\ SumLen(j.r) <= 1023
          /\ ~Has(j.l, ForbiddenLocal)
C11_IdempotentOf(j, reparse) == j.ok => reparse = j
C11_SplitRuleOf(j) == j.ok => LET sp == Split(String(j)) IN sp.err = "none" /\ sp.l = j.l /\ sp.d = j.d /\ sp.r = j.r
Bare(j) == [j EXCEPT !.r = <<>>]
DomainOf(j) == [j EXCEPT !.l = <<>>, !.r = <<>>]

(* ------------------------------------------------------------ state machine *)
CONSTANTS ParseStrs,     \* strings given to Parse
          Parts          \* raw parts given to New / WithLocal / WithDomain / WithResource

VARIABLES j,        \* the current address (NoJID before the first successful call)
          lenient,  \* how this implementation treats free parts
          agree     \* did the last call agree with the other ways of building the same address
vars == <<j, lenient, agree>>

Init == j = NoJID /\ lenient \in BOOLEAN /\ agree = TRUE

(* building from parts, replacing one part, and parsing the assembled string agree:          *)
(* a call that produced res from the (raw) parts l, d, r is compared with New(l, d, r) and,   *)
(* where the assembled string splits back into l, d, r, with Parse of that string             *)
AgreeLaw(name, res, l, d, r) ==
  /\ (name \in {"withlocal", "withdomain", "withresource"}) => ModNew(l, d, r, lenient) = res
  /\ (name = "new" /\ Split(Assemble(l, d, r)) = [err |-> "none", l |-> l, d |-> d, r |-> r]) =>
        ModParse(Assemble(l, d, r), lenient) = res

Made(name, res, l, d, r) ==
  /\ agree' = AgreeLaw(name, res, l, d, r)
  /\ j' = IF res.ok THEN res ELSE j
  /\ UNCHANGED lenient

DoParse == \E s \in ParseStrs : ~j.ok /\ Made("parse", ModParse(s, lenient), <<>>, <<>>, <<>>)
DoNew == \E l \in Parts, d \in Parts, r \in Parts : ~j.ok /\ Made("new", ModNew(l, d, r, lenient), l, d, r)
(* the replacements validate and normalise only the new part, like the code *)
DoWithLocal == \E p \in Parts : j.ok /\
  Made("withlocal", IF AccL(p, lenient) THEN [j EXCEPT !.l = ModL(p)] ELSE NoJID, p, j.d, j.r)
DoWithDomain == \E p \in Parts : j.ok /\
  Made("withdomain", IF AccD(p, lenient) THEN [j EXCEPT !.d = NormD(p)] ELSE NoJID, j.l, p, j.r)
DoWithResource == \E p \in Parts : j.ok /\
  Made("withresource", IF AccR(p, lenient) THEN [j EXCEPT !.r = NormR(p)] ELSE NoJID, j.l, j.d, p)
DoBare == j.ok /\ Made("bare", Bare(j), j.l, j.d, <<>>)
DoDomain == j.ok /\ Made("domain", DomainOf(j), <<>>, j.d, <<>>)

Next == DoParse \/ DoNew \/ DoWithLocal \/ DoWithDomain \/ DoWithResource \/ DoBare \/ DoDomain
Spec == Init /\ [][Next]_vars

(* invariants: every address returned without error is canonical *)
C11_PartsValid == C11_PartsValidOf(j)
C11_Idempotent == C11_IdempotentOf(j, ModParse(String(j), lenient))
C11_SplitRule  == C11_SplitRuleOf(j)
(* String, the accessors, Bare, Domain and Equal agree (in the model an address IS its parts) *)
C11_AccessorsAgree ==
  j.ok => /\ String(Bare(j)) = Assemble(j.l, j.d, <<>>) /\ String(DomainOf(j)) = j.d
          /\ C11_PartsValidOf(Bare(j)) /\ C11_PartsValidOf(DomainOf(j))
          /\ ModParse(String(Bare(j)), lenient) = Bare(j) /\ ModParse(String(DomainOf(j)), lenient) = DomainOf(j)
C11_BuildReplaceParseAgree == agree
(* the XML attribute and element encodings carry String(j) and decode with Parse *)
C11_XMLRoundTrip == j.ok => ModParse(String(j), lenient) = j

Inv == /\ C11_PartsValid /\ C11_Idempotent /\ C11_SplitRule /\ C11_AccessorsAgree
       /\ C11_BuildReplaceParseAgree /\ C11_XMLRoundTrip

(* ---------------------------------- laws of the reference functions over string sets *)
StrsOf(A, n) == UNION {[1..k -> A] : k \in 0..n}

(* where a canonical form is claimed it is itself claimed canonical (fixed point) *)
CanonFixedOn(S) == \A s \in S : ClsParse(s) = "ok" =>
                      LET c == CanonParse(s) IN ClsParse(c) = "ok" /\ CanonParse(c) = c
SplitAssembleOn(S) == \A s \in S : LET sp == Split(s) IN sp.err = "none" => Assemble(sp.l, sp.d, sp.r) = s
=============================================================================
