---------------------------- MODULE TrIBBListen ----------------------------
(* Trace validation of recorded schedules of the real ibb.Listener (Accept, Expect, Close) against *)
(* the serve loop handling real open requests (harness/cmd/ibb, mode "listen") against IBBListen.  *)
(* Batch scheme of TrIBB / TrCorrelate.  Registration, wake-up, lookup outcome and hand-over are    *)
(* silent; a `stuck` event (every goroutine blocked) is judged here: TrStuck.                      *)
EXTENDS IBBListen, Json

Trace == ndJsonDeserialize("trace.ndjson")
VARIABLES l, t0
tvars == <<vars, nenv, l, t0>>
Starts == {i \in 1..Len(Trace) : Trace[i].ev = "reset"}
EndOf(i) == Trace[i].end
IsEv(e) == l < EndOf(t0) /\ Trace[l].ev = e /\ l' = l + 1
Ev == Trace[l]
NoKey == [c \in {} |-> None]

TInit == t0 \in Starts /\ l = t0 /\ Init /\ nenv = 0

TrReset == l = t0 /\ IsEv("reset") /\ lst = (IF Ev.listen THEN "open" ELSE "none") /\ UNCHANGED vars

TrExpectCall == IsEv("expect_call") /\ Ev.c \in XCalls /\ ExpectCall(Ev.c, Ev.key)
(* the session returned is one of the key asked for: the one this call was handed *)
TrExpectRet ==
  /\ IsEv("expect_ret") /\ Ev.c \in XCalls
  /\ (Ev.out = "stream" => (Ev.key = key[Ev.c] /\ gotS[Ev.c] # None /\ Ev.key = key[gotS[Ev.c]]))
  /\ ExpectRet(Ev.c, Ev.out)
TrAcceptCall == IsEv("accept_call") /\ AcceptCall(Ev.c)
TrAcceptRet ==
  /\ IsEv("accept_ret") /\ Ev.c \in ACalls
  /\ (Ev.out = "stream" => (gotS[Ev.c] # None /\ Ev.key = key[gotS[Ev.c]]))
  /\ AcceptRet(Ev.c, Ev.out)
TrCancel == IsEv("cancel") /\ Ev.c \in XCalls \cup Reqs /\ Cancel(Ev.c)
TrCloseCall == IsEv("lclose_call") /\ CloseCall
TrCloseRet == IsEv("lclose_ret") /\ CloseRet
TrReqCall == IsEv("req_call") /\ Ev.c \in Reqs /\ ReqCall(Ev.c, Ev.key)
TrWire == IsEv("wire") /\ Ev.c \in Reqs /\ Ev.to = "b" /\ ReqWire(Ev.c)
TrDeliver == IsEv("deliver") /\ Ev.e = "b" /\ Ev.c \in Reqs /\ Deliver(Ev.c)
TrReply == IsEv("reply") /\ Ev.to = "a" /\ Ev.c \in Reqs /\ Reply(Ev.c, IF Ev.res = "result" THEN "result" ELSE "error")
TrReqRet == IsEv("req_ret") /\ Ev.c \in Reqs /\ ReqRet(Ev.c, Ev.out)
TrNoReq == IsEv("hook") /\ UNCHANGED vars

Pending == {c \in Calls : pc[c] \notin {"idle", "done"}} \cup {r \in Reqs : cst[r] = "called"}

(* Every goroutine is blocked.  The serve loop may only be waiting for an acceptor; a call may only wait *)
(* for something the application or the peer has not supplied yet.  (An Expect call whose context is     *)
(* done may still be held up while the serve loop waits for an acceptor: the serve loop holds the lock   *)
(* of the expectation table during that wait.  Tolerated - the wait ends with the next Accept.)          *)
TrStuck ==
  /\ IsEv("stuck")
  /\ ~CanRefuse /\ ~CanDrop /\ ~CanReply /\ lst # "closing"
  /\ \A x \in XCalls : ~CanHandX(x)
  /\ \A a \in ACalls : ~CanHandA(a)
  /\ (IF hand = None THEN q = <<>> /\ ~Ev.serving ELSE WaitingForAcceptor /\ Ev.serving)
  /\ \A i \in 1..Len(Ev.blocked) : LET b == Ev.blocked[i] IN
       CASE b.in = "expect" -> b.c \in XCalls /\ pc[b.c] \in {"called", "reg"} /\ (b.c \in ctxc \cup sup => WaitingForAcceptor)
         [] b.in = "accept" -> b.c \in ACalls /\ pc[b.c] = "called" /\ hand = None /\ lst = "open"
         [] b.in \in {"open", "ping"} -> b.c \in Reqs /\ cst[b.c] = "called" /\ rep[b.c] = None /\ b.c \notin ctxc /\ WaitingForAcceptor
         [] OTHER -> FALSE
  /\ Pending \subseteq {Ev.blocked[i].c : i \in 1..Len(Ev.blocked)}
  /\ UNCHANGED vars

TrEnd == IsEv("end") /\ Pending = {} /\ hand = None /\ q = <<>> /\ lst # "closing" /\ UNCHANGED vars

Silent ==
  /\ \/ \E x \in XCalls : Register(x) \/ Wake(x) \/ HandToExpect(x)
     \/ \E a \in ACalls : HandToAccept(a)
     \/ Refuse \/ ToAcc \/ DropClosed
  /\ UNCHANGED l

Inv == C06_TakeOver /\ C06_NoStaleEntry /\ C06_SessionOnce /\ C06_Outcome /\ C06_ExpectGetsItsSession /\ C15_OpenIffAccepted

TNext ==
  /\ l < EndOf(t0)
  /\ \/ TrReset \/ TrExpectCall \/ TrExpectRet \/ TrAcceptCall \/ TrAcceptRet \/ TrCancel \/ TrCloseCall \/ TrCloseRet
     \/ TrReqCall \/ TrWire \/ TrDeliver \/ TrReply \/ TrReqRet \/ TrNoReq \/ TrStuck \/ TrEnd \/ Silent
  /\ UNCHANGED <<t0, nenv>>
  /\ Inv'

TSpec == TInit /\ [][TNext]_tvars
HW == TLCSet(t0, IF TLCGet(t0) < l THEN l ELSE TLCGet(t0))
Rejected == {i \in Starts : TLCGet(i) # EndOf(i)}
Accepted ==
  \/ Rejected = {}
  \/ PrintT(<<"REJECTED", {<<Trace[i].t, TLCGet(i)>> : i \in Rejected}>>) /\ FALSE
ASSUME \A i \in Starts : TLCSet(i, 0)
=============================================================================
