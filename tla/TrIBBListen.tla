---------------------------- MODULE TrIBBListen ----------------------------
(* Trace validation of recorded schedules of the real ibb.Listener (Handler.Listen, Accept, Expect, *)
(* Close) against the serve loops handling real open requests (harness/cmd/ibb, mode "listen")      *)
(* against IBBListen.  Batch scheme of TrIBB / TrCorrelate.  Registration, wake-up, lookup outcome, *)
(* hand-over and the moment at which a Close / Listen takes effect are silent; a `stuck` event      *)
(* (every goroutine blocked) is judged here: TrStuck.                                               *)
EXTENDS IBBListen, Json

Trace == ndJsonDeserialize("trace.ndjson")
VARIABLES l, t0
tvars == <<vars, nenv, l, t0>>
Starts == {i \in 1..Len(Trace) : Trace[i].ev = "reset"}
EndOf(i) == Trace[i].end
IsEv(e) == l < EndOf(t0) /\ Trace[l].ev = e /\ l' = l + 1
Ev == Trace[l]
NoKey == [c \in {} |-> None]

(* the reset line says which sessions have a listener at the start *)
TInit == t0 \in Starts /\ l = t0 /\ lst = [s \in Lsn |-> Trace[t0].lst[s]] /\ InitRest /\ nenv = 0

TrReset == l = t0 /\ IsEv("reset") /\ UNCHANGED vars

TrExpectCall == IsEv("expect_call") /\ Ev.c \in XCalls /\ Ev.l \in Lsn /\ ExpectCall(Ev.c, Ev.l, Ev.key)
(* the session returned is one of the key asked for: the one this call was handed *)
TrExpectRet ==
  /\ IsEv("expect_ret") /\ Ev.c \in XCalls
  /\ (Ev.out = "stream" => (Ev.key = key[Ev.c] /\ gotS[Ev.c] # None /\ Ev.key = key[gotS[Ev.c]]))
  /\ ExpectRet(Ev.c, Ev.out)
TrAcceptCall == IsEv("accept_call") /\ Ev.l \in Lsn /\ AcceptCall(Ev.c, Ev.l)
TrAcceptRet ==
  /\ IsEv("accept_ret") /\ Ev.c \in ACalls
  /\ (Ev.out = "stream" => (gotS[Ev.c] # None /\ Ev.key = key[gotS[Ev.c]]))
  /\ AcceptRet(Ev.c, Ev.out)
TrCancel == IsEv("cancel") /\ Ev.c \in XCalls \cup Reqs /\ Cancel(Ev.c)
TrCloseCall == IsEv("lclose_call") /\ Ev.c \in KCalls /\ Ev.l \in Lsn /\ TableCall(Ev.c, Ev.l)
TrCloseRet == IsEv("lclose_ret") /\ Ev.c \in KCalls /\ TableRet(Ev.c)
TrListenCall == IsEv("listen_call") /\ Ev.c \in LCalls /\ Ev.l \in Lsn /\ TableCall(Ev.c, Ev.l)
(* Listen returns a listener; `same`: it is the one an earlier Listen of that session returned *)
TrListenRet == IsEv("listen_ret") /\ Ev.c \in LCalls /\ Ev.ok /\ TableRet(Ev.c)
TrReqCall == IsEv("req_call") /\ Ev.c \in Reqs /\ Ev.l \in Lsn /\ ReqCall(Ev.c, Ev.l, Ev.key)
TrWire == IsEv("wire") /\ Ev.c \in Reqs /\ Ev.to = lof[Ev.c] /\ ReqWire(Ev.c)
TrDeliver == IsEv("deliver") /\ Ev.c \in Reqs /\ Ev.e = lof[Ev.c] /\ Deliver(Ev.c)
TrReply == IsEv("reply") /\ Ev.c \in Reqs /\ Ev.from = lof[Ev.c] /\ Reply(Ev.c, IF Ev.res = "result" THEN "result" ELSE "error")
TrReqRet == IsEv("req_ret") /\ Ev.c \in Reqs /\ ReqRet(Ev.c, Ev.out)
TrNoReq == IsEv("hook") /\ UNCHANGED vars

Pending == {c \in Calls : pc[c] \notin {"idle", "done"}} \cup {r \in Reqs : cst[r] = "called"} \cup TablePending

(* Every goroutine is blocked.  A serve loop may only be waiting for an acceptor; a call may only wait   *)
(* for something the application or the peer has not supplied yet; a Close or Listen call may not wait  *)
(* at all.  (An Expect call whose context is done may still be held up while the serve loop waits for   *)
(* an acceptor, in implementations that keep the expectation table locked during that wait.  Tolerated  *)
(* - the wait ends with the next Accept.)                                                               *)
TrStuck ==
  /\ IsEv("stuck")
  /\ TablePending = {}
  /\ \A s \in Lsn :
       /\ ~CanRefuse(s) /\ ~CanDrop(s) /\ ~CanReply(s)
       /\ \A x \in XCalls : ~CanHandX(s, x)
       /\ \A a \in ACalls : ~CanHandA(s, a)
       /\ (IF hand[s] = None THEN q[s] = <<>> /\ ~Ev.serving[s] ELSE WaitingForAcceptor(s) /\ Ev.serving[s])
  /\ \A i \in 1..Len(Ev.blocked) : LET b == Ev.blocked[i] IN
       CASE b.in = "expect" -> b.c \in XCalls /\ pc[b.c] \in {"called", "reg"} /\ (b.c \in ctxc \cup sup => WaitingForAcceptor(lof[b.c]))
         [] b.in = "accept" -> b.c \in ACalls /\ pc[b.c] = "called" /\ hand[lof[b.c]] = None /\ lst[lof[b.c]] = "open"
         [] b.in \in {"open", "ping"} -> b.c \in Reqs /\ cst[b.c] = "called" /\ rep[b.c] = None /\ b.c \notin ctxc /\ WaitingForAcceptor(lof[b.c])
         [] OTHER -> FALSE
  /\ Pending \subseteq {Ev.blocked[i].c : i \in 1..Len(Ev.blocked)}
  /\ UNCHANGED vars

TrEnd == IsEv("end") /\ Pending = {} /\ (\A s \in Lsn : hand[s] = None /\ q[s] = <<>>) /\ UNCHANGED vars

Silent ==
  /\ \/ \E x \in XCalls : Register(x) \/ Wake(x) \/ \E s \in Lsn : HandToExpect(s, x)
     \/ \E a \in ACalls : \E s \in Lsn : HandToAccept(s, a)
     \/ \E s \in Lsn : Refuse(s) \/ ToAcc(s) \/ DropClosed(s)
     \/ \E c \in TCalls : TableEffect(c)
  /\ UNCHANGED l

Inv == C06_TakeOver /\ C06_NoStaleEntry /\ C06_SessionOnce /\ C06_Outcome /\ C06_ExpectGetsItsSession /\ C15_OpenIffAccepted

TNext ==
  /\ l < EndOf(t0)
  /\ \/ TrReset \/ TrExpectCall \/ TrExpectRet \/ TrAcceptCall \/ TrAcceptRet \/ TrCancel \/ TrCloseCall \/ TrCloseRet
     \/ TrListenCall \/ TrListenRet
     \/ TrReqCall \/ TrWire \/ TrDeliver \/ TrReply \/ TrReqRet \/ TrNoReq \/ TrStuck \/ TrEnd \/ Silent
  /\ UNCHANGED <<t0, nenv>>
  /\ Inv'

TSpec == TInit /\ [][TNext]_tvars
HW == TLCSet(t0, IF TLCGet(t0) < l THEN l ELSE TLCGet(t0))
Rejected == {i \in Starts : TLCGet(i) # EndOf(i)}
Accepted ==
  \/ Rejected = {}
  \/ PrintT(<<"REJECTED", {<<Trace[i].t, TLCGet(i)>> : i \in Rejected}>>) /\ FALSE
ASSUME \A i \in Starts : TLCSet(i, 0)
=============================================================================
