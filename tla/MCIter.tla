------------------------------- MODULE MCIter -------------------------------
(* Scenario universes for the design check of Iter.tla: every script of <= 3 pages of   *)
(* <= 2 items, every kind of last page (every exit path), all three modes.               *)
EXTENDS Iter

Pages(N, m) ==
  {[kind |-> "ok", n |-> n, more |-> FALSE] : n \in 0..N}
  \cup {[kind |-> "ok", n |-> n, more |-> TRUE] : n \in 1..N}
  \cup {[kind |-> k, n |-> 0, more |-> FALSE] : k \in {"error", "silence", "eos"}}
  \cup {[kind |-> "bad", n |-> n, more |-> FALSE] : n \in 0..N}
  \cup (IF m = "push"
        THEN {[kind |-> k, n |-> n, more |-> FALSE] : k \in {"error", "silence", "eos"}, n \in 1..N}
        ELSE {[kind |-> "broken", n |-> n, more |-> FALSE] : n \in 0..N})
Cont(N) == {[kind |-> "ok", n |-> n, more |-> TRUE] : n \in 1..N}

ScriptsOf(N, m, maxp) ==
  {<<l>> : l \in Pages(N, m)}
  \cup (IF maxp >= 2 THEN {<<c, l>> : c \in Cont(N), l \in Pages(N, m)} ELSE {})
  \cup (IF maxp >= 3 THEN {<<c, d, l>> : c \in Cont(N), d \in Cont(N), l \in Pages(N, m)} ELSE {})

Universe(N, maxp, ms) == UNION {{[mode |-> m, script |-> s] : s \in ScriptsOf(N, m, maxp)} : m \in ms}

ScriptsQuick == Universe(2, 2, Modes) \cup Universe(1, 3, Modes)
ScriptsFull == Universe(2, 3, Modes)
ScriptsLive == Universe(1, 2, Modes)
ScriptsTiny == Universe(1, 1, Modes) \cup Universe(1, 2, {"auto"})
=============================================================================
