------------------------------ MODULE Commands ------------------------------
(***************************************************************************)
(* Ad-hoc command sessions (XEP-0050) as package commands drives them      *)
(* (growth beyond C01-C20; family "iter", part "commands").                *)
(*   chain    the caller runs the stages itself: Command.Execute, closes   *)
(*            the payload it got, builds the next command with             *)
(*            Response.Next/Prev/Complete/Cancel and executes that;        *)
(*   foreach  Command.ForEach runs the loop and calls back per stage.      *)
(* What the package states/enforces - and therefore what is specified:     *)
(*   * the command built from a response carries THAT response's session   *)
(*     id and node and the chosen action (the first command carries none); *)
(*   * Execute returns status / session id / node of the reply as sent; a  *)
(*     reply with another session id or node is accepted as it is (the     *)
(*     package does not compare them) and is what the next stage carries;  *)
(*   * the actions a responder advertises are NOT parsed by Response, so   *)
(*     nothing restricts the action the caller continues with (recorded    *)
(*     here, not required);                                                *)
(*   * ForEach goes on exactly while the status is "executing" (a reply    *)
(*     without node may end it too) and returns nil then; any failing      *)
(*     stage or callback ends it with that error;                          *)
(*   * a payload handed out must be closed before stream processing goes   *)
(*     on; on every error return the library itself has released the       *)
(*     response; no reply shape panics or wedges the serve loop.           *)
(* A script is the responder's reply per stage [shape, status, sid, node]; *)
(* shapes: "cmd" proper <command/>, "error" error reply, "empty" result    *)
(* without payload, "text" character data payload, "other" another element *)
(* or a command in a foreign namespace, "broken" stream breaks inside the  *)
(* reply, "silence" no reply (context cancelled), "eos" peer ends stream.  *)
(***************************************************************************)
EXTENDS Integers, Sequences, FiniteSets, TLC

CONSTANTS Dev, Scripts

None == "none"
BadShapes == {"empty", "text", "other"}

VARIABLES
  cmode, script, plan,          \* scenario: mode, replies per stage, caller's decision per stage [act, cberr]
  cop, nres,                    \* caller: operation in progress, result ready
  cst, held, err, resp,         \* session: state, response borrowed, error of the failed stage, newest response
  spc, inbox, answered, cancelled,
  reqs, cbs,                    \* history: requests on the wire [sid, node, action]; callbacks made
  opened, released, resumed, handled

vars == <<cmode, script, plan, cop, nres, cst, held, err, resp, spc, inbox, answered, cancelled, reqs, cbs,
          opened, released, resumed, handled>>
scen == <<cmode, script, plan>>
P == Len(reqs)
Rp(k) == IF k >= 1 /\ k <= Len(script) THEN script[k] ELSE [shape |-> "silence", status |-> "", sid |-> "", node |-> ""]
Pl(k) == IF k >= 1 /\ k <= Len(plan) THEN plan[k] ELSE [act |-> "next", cberr |-> FALSE]
NoResp == [status |-> "", sid |-> "", node |-> ""]
FirstReq == [sid |-> "", node |-> "n0", action |-> None]

InitWith(m, s, p) ==
  /\ cmode = m /\ script = s /\ plan = p
  /\ cop = None /\ nres = None /\ cst = "idle" /\ held = FALSE /\ err = None /\ resp = NoResp
  /\ spc = "read" /\ inbox = <<>> /\ answered = 0 /\ cancelled = FALSE
  /\ reqs = <<>> /\ cbs = 0 /\ opened = 0 /\ released = 0 /\ resumed = 0 /\ handled = 0
Init == \E sc \in Scripts : InitWith(sc.mode, sc.script, sc.plan)

Release == held' = FALSE /\ released' = released + 1

-----------------------------------------------------------------------------
(* Environment: inbox holds the stage number of a reply, 0 for the end of the stream *)
PeerReply ==
  /\ answered < Len(reqs) /\ answered' = answered + 1
  /\ inbox' = inbox \o (CASE Rp(answered + 1).shape \in {"silence"} -> <<>>
                          [] Rp(answered + 1).shape = "eos" -> <<0>>
                          [] Rp(answered + 1).shape = "broken" -> <<answered + 1, 0>>
                          [] OTHER -> <<answered + 1>>)
  /\ UNCHANGED <<scen, cop, nres, cst, held, err, resp, spc, cancelled, reqs, cbs, opened, released, resumed, handled>>
Cancel ==
  /\ ~cancelled /\ cancelled' = TRUE
  /\ UNCHANGED <<scen, cop, nres, cst, held, err, resp, spc, inbox, answered, reqs, cbs, opened, released, resumed, handled>>
EndStream ==
  /\ inbox' = Append(inbox, 0)
  /\ UNCHANGED <<scen, cop, nres, cst, held, err, resp, spc, answered, cancelled, reqs, cbs, opened, released, resumed, handled>>

-----------------------------------------------------------------------------
(* Caller *)
Call(op) ==
  /\ cop = None /\ cop' = op /\ nres' = None
  /\ CASE op = "exec" -> /\ cmode = "chain" /\ P <= Len(plan) /\ ((P = 0 /\ cst = "idle") \/ cst = "ready")
                         /\ cst' = "created" /\ err' = None
       [] op = "foreach" -> cmode = "foreach" /\ cst = "idle" /\ P = 0 /\ cst' = "created" /\ err' = None
       [] OTHER -> cmode = "chain" /\ cst \in {"open", "ready", "dead"} /\ UNCHANGED <<cst, err>>     \* "closep"
  /\ UNCHANGED <<scen, held, resp, spc, inbox, answered, cancelled, reqs, cbs, opened, released, resumed, handled>>

(* Execute returns: the payload (state open) or an error *)
RetExec ==
  /\ cop = "exec" /\ cst \in {"open", "failed"} /\ cop' = None
  /\ cst' = IF cst = "failed" THEN "dead" ELSE cst
  /\ UNCHANGED <<scen, nres, held, err, resp, spc, inbox, answered, cancelled, reqs, cbs, opened, released, resumed, handled>>

ClosePayload ==
  /\ cop = "closep" /\ nres = None /\ nres' = "done"
  /\ (IF held /\ cst = "open" THEN Release
      ELSE IF "ReleaseTwice" \in Dev /\ cst = "ready" THEN released' = released + 1 /\ UNCHANGED held
      ELSE UNCHANGED <<held, released>>)
  /\ cst' = IF cst = "open" THEN "ready" ELSE cst
  /\ UNCHANGED <<scen, cop, err, resp, spc, inbox, answered, cancelled, reqs, cbs, opened, resumed, handled>>
RetClosep ==
  /\ cop = "closep" /\ nres = "done" /\ cop' = None /\ nres' = None
  /\ UNCHANGED <<scen, cst, held, err, resp, spc, inbox, answered, cancelled, reqs, cbs, opened, released, resumed, handled>>

RetForEach ==
  /\ cop = "foreach" /\ cst \in {"done", "failed"} /\ cop' = None
  /\ UNCHANGED <<scen, nres, cst, held, err, resp, spc, inbox, answered, cancelled, reqs, cbs, opened, released, resumed, handled>>

-----------------------------------------------------------------------------
(* Library *)
GoodReq == IF P = 0 THEN FirstReq ELSE [sid |-> resp.sid, node |-> resp.node, action |-> Pl(P).act]
LibReq ==
  CASE P >= 2 /\ "StaleSid" \in Dev -> [GoodReq EXCEPT !.sid = Rp(P - 1).sid]
    [] P >= 1 /\ "WrongNode" \in Dev -> [GoodReq EXCEPT !.node = "n0"]
    [] P >= 1 /\ "ActionDropped" \in Dev -> [GoodReq EXCEPT !.action = None]
    [] OTHER -> GoodReq

SendCmd(r) ==
  /\ cop \in {"exec", "foreach"} /\ cst = "created" /\ reqs' = Append(reqs, r) /\ cst' = "waiting"
  /\ UNCHANGED <<scen, cop, nres, held, err, resp, spc, inbox, answered, cancelled, cbs, opened, released, resumed, handled>>
SendFail ==
  /\ cop \in {"exec", "foreach"} /\ cst = "created" /\ cancelled /\ cst' = "failed" /\ err' = "ctx"
  /\ UNCHANGED <<scen, cop, nres, held, resp, spc, inbox, answered, cancelled, reqs, cbs, opened, released, resumed, handled>>
CtxDone ==
  /\ cst = "waiting" /\ cancelled /\ cst' = "failed" /\ err' = "ctx"
  /\ UNCHANGED <<scen, cop, nres, held, resp, spc, inbox, answered, cancelled, reqs, cbs, opened, released, resumed, handled>>

Examine ==
  /\ cst = "got"
  /\ LET r == Rp(P) IN
     IF r.shape = "cmd"
     THEN /\ resp' = [status |-> r.status, sid |-> r.sid, node |-> r.node]
          /\ cst' = IF cop = "foreach" THEN "cb" ELSE "open"
          /\ UNCHANGED <<err, held, released>>
     ELSE /\ cst' = "failed" /\ err' = (IF r.shape = "error" THEN "stanza" ELSE "other")
          /\ (IF "NoReleaseOnBadReply" \in Dev /\ r.shape # "broken" THEN UNCHANGED <<held, released>> ELSE Release)
          /\ UNCHANGED resp
  /\ cbs' = (IF "CallbackOnBadReply" \in Dev /\ cop = "foreach" /\ Rp(P).shape # "cmd" THEN cbs + 1 ELSE cbs)
  /\ UNCHANGED <<scen, cop, nres, spc, inbox, answered, cancelled, reqs, opened, resumed, handled>>

(* ForEach: the callback has looked at stage P; the library closes the payload in every case *)
Callback ==
  /\ cop = "foreach" /\ cst = "cb" /\ cbs' = cbs + 1
  /\ IF Pl(P).cberr
     THEN /\ (IF "SwallowCallbackError" \in Dev THEN cst' = "done" /\ UNCHANGED err ELSE cst' = "failed" /\ err' = "cb")
          /\ (IF "NoReleaseOnCallbackError" \in Dev THEN UNCHANGED <<held, released>> ELSE Release)
     ELSE /\ Release /\ UNCHANGED err
          /\ \/ resp.status = "executing" /\ resp.node # "" /\ cst' = "created"
             \/ resp.status = "executing" /\ resp.node = "" /\ cst' \in {"created", "done"}
             \/ resp.status # "executing" /\ cst' = (IF "ContinueAfterCompleted" \in Dev THEN "created" ELSE "done")
  /\ UNCHANGED <<scen, cop, nres, resp, spc, inbox, answered, cancelled, reqs, opened, resumed, handled>>

-----------------------------------------------------------------------------
(* Serve loop *)
ReadEos ==
  /\ spc = "read" /\ inbox # <<>> /\ Head(inbox) = 0 /\ spc' = "ended" /\ inbox' = Tail(inbox)
  /\ UNCHANGED <<scen, cop, nres, cst, held, err, resp, answered, cancelled, reqs, cbs, opened, released, resumed, handled>>
Handoff ==
  /\ spc = "read" /\ inbox # <<>> /\ Head(inbox) = P /\ cst = "waiting"
  /\ spc' = "handed" /\ inbox' = Tail(inbox) /\ opened' = opened + 1 /\ held' = TRUE /\ cst' = "got"
  /\ UNCHANGED <<scen, cop, nres, err, resp, answered, cancelled, reqs, cbs, released, resumed, handled>>
ReplyToHandler ==
  /\ spc = "read" /\ inbox # <<>> /\ Head(inbox) # 0 /\ (~(Head(inbox) = P /\ cst = "waiting") \/ cancelled)
  /\ inbox' = Tail(inbox) /\ handled' = handled + 1
  /\ UNCHANGED <<scen, cop, nres, cst, held, err, resp, spc, answered, cancelled, reqs, cbs, opened, released, resumed>>
Resume ==
  /\ spc = "handed" /\ ~held /\ spc' = "read" /\ resumed' = resumed + 1
  /\ UNCHANGED <<scen, cop, nres, cst, held, err, resp, inbox, answered, cancelled, reqs, cbs, opened, released, handled>>

-----------------------------------------------------------------------------
Lib == SendCmd(LibReq) \/ SendFail \/ CtxDone \/ Examine \/ Callback \/ ClosePayload
Serve == ReadEos \/ Handoff \/ ReplyToHandler \/ Resume
Caller == (\E op \in {"exec", "foreach", "closep"} : Call(op)) \/ RetExec \/ RetClosep \/ RetForEach
Next == Lib \/ Serve \/ Caller \/ PeerReply \/ Cancel
Spec == Init /\ [][Next]_vars
Fair == /\ WF_vars(Lib) /\ WF_vars(Serve) /\ WF_vars(PeerReply) /\ WF_vars(Cancel)
        /\ WF_vars(RetExec \/ RetClosep \/ RetForEach) /\ SF_vars(Call("closep"))
FairSpec == Spec /\ Fair

-----------------------------------------------------------------------------
(* Properties *)
CM_ReleasedOnce ==
  /\ released <= opened /\ resumed <= released
  /\ (held <=> opened = released + 1) /\ (~held => opened = released)
(* every exit path: a failed stage, a failing callback and the end of ForEach leave nothing borrowed; *)
(* only a payload that was handed to the caller is still open                                           *)
CM_ReleasedOnExit ==
  /\ (cop = None /\ held) => (cmode = "chain" /\ cst = "open")
  /\ cst \in {"failed", "dead", "done", "idle", "ready", "created", "waiting"} => ~held
(* the session id, node and chosen action are carried through: request k+1 is built from response k *)
CM_SidCarried ==
  \A i \in 1..Len(reqs) :
     reqs[i] = IF i = 1 THEN FirstReq
               ELSE [sid |-> Rp(i - 1).sid, node |-> Rp(i - 1).node, action |-> Pl(i - 1).act]
(* completed / canceled end the session: ForEach sends nothing after such a reply *)
CM_EndsOnCompletion == cmode = "foreach" => \A i \in 2..Len(reqs) : Rp(i - 1).shape = "cmd" /\ Rp(i - 1).status = "executing"
(* ForEach ends with nil exactly when the last stage was a proper reply that ended the chain *)
CM_Outcome ==
  /\ cst = "done" => (err = None /\ Rp(P).shape = "cmd" /\ ~Pl(P).cberr /\ (Rp(P).status # "executing" \/ Rp(P).node = ""))
  /\ cst \in {"failed", "dead"} => err # None
(* one callback per proper reply *)
CM_Callbacks == cbs <= P /\ \A i \in 1..cbs : Rp(i).shape = "cmd"
CM_ServeResumes == []<>(spc \in {"read", "ended"})

Safety == CM_ReleasedOnce /\ CM_ReleasedOnExit /\ CM_SidCarried /\ CM_EndsOnCompletion /\ CM_Outcome /\ CM_Callbacks
=============================================================================
