----------------------------- MODULE EmitEscape -----------------------------
(* Pipeline B of C16: TLC writes the vectors (input, Esc(input), Unesc(input)) computed by    *)
(* the reference functions of Escape.tla, the sweep kernels and fillers, and the plan         *)
(* (symbol -> byte table, capacities, number of chunks) the Go driver enumerates.             *)
EXTENDS Escape, Json

CONSTANTS FullLen,     \* all strings over the full alphabet up to this length
          SubLen,      \* all strings over SubAlphabet up to this length
          MaxChunks,   \* the driver feeds every split of the input into <= MaxChunks chunks
          SweepMax     \* sweeps place kernels after 0..SweepMax filler units

Vec(s) == [in |-> s, esc |-> Esc(s), unesc |-> Unesc(s)]

(* prefix . \ h1 h2 . suffix  for every pair of hex symbols *)
KPrefixes == {Rep(Pg, n) : n \in 0..3} \cup {<<Bs>>, <<Pg, Bs>>, <<D2>>, <<Bs, D2>>}
KSuffixes == {<<>>, <<Pg>>, <<D0>>, <<Bs>>}
HexAll == {p \o <<Bs, h[1], h[2]>> \o x : p \in KPrefixes, h \in Hex \X Hex, x \in KSuffixes}

Domain == StrsOf(Alphabet, FullLen) \cup StrsOf(SubAlphabet, SubLen) \cup HexAll

(* kernels of the position sweeps: every escapable alone, escapes in both cases, near misses, *)
(* dangling backslashes, a run of escapables                                                 *)
Kernels == {<<c>> : c \in Escapable}
           \cup {<<Bs, D2, D0>>, <<Bs, D5, UC>>, <<Bs, D3, Le>>, <<Bs, D2, Pg>>, <<Bs, D2, D1>>, <<Bs, Pg>>,
                 <<Bs, D2>>, <<Bs, Bs, D4, D0>>, <<Sp, At, Bs>>, <<Bs, D2, D0, Bs, D4, D0>>, <<Bs, D1, D1>>,
                 <<Sp, Sp, Sp, Sp>>, <<>>}
(* filler units: the first symbol is never a hex digit, each is closed under both transforms *)
Fillers == {<<Pg>>, <<Hi1, Hi2>>, <<Sp>>, <<Bs, D2, D0>>}

(* buffer sizes of golang.org/x/text/transform the kernels are swept across in addition to offsets 0..SweepMax: *)
(* transform.Reader / transform.Writer work through 4096-byte source and destination buffers                   *)
BufBounds == {4096}

RepSeq(F, n) == FlattenSeq([i \in 1..n |-> F])
FillerLaw ==
  \A s \in Kernels : \A F \in Fillers : \A n \in 0..2, m \in 0..2 : \A d \in {"esc", "unesc"} :
     Ref(d, RepSeq(F, n) \o s \o RepSeq(F, m)) = RepSeq(Ref(d, F), n) \o Ref(d, s) \o RepSeq(Ref(d, F), m)
ASSUME TablesConsistent
ASSUME FillerLaw

VecSeq == SetToSeq({Vec(s) : s \in Domain})
ASSUME ndJsonSerialize("vectors.ndjson", VecSeq)
ASSUME ndJsonSerialize("sweeps.ndjson", SetToSeq({Vec(s) : s \in Kernels}))
ASSUME JsonSerialize("plan.json",
         [bytes |-> ByteOf, other |-> Other, caps |-> SetToSeq(Caps), maxchunks |-> MaxChunks,
          sweepmax |-> SweepMax, fillers |-> SetToSeq({Vec(F) : F \in Fillers}), bounds |-> SetToSeq(BufBounds)])
ASSUME PrintT(<<"EMITTED", Len(VecSeq), Cardinality(Kernels), Cardinality(Fillers)>>)
=============================================================================
