------------------------------- MODULE Stanza -------------------------------
(* C13 - abstract values of the core stanzas and errors of mellium.im/xmpp and the   *)
(* specification-level meaning of the helpers that build replies.                     *)
(*                                                                                    *)
(* The leaves of abstract values are SYMBOLS ("S_xml", "J_full" ...).  What a symbol  *)
(* denotes is defined here (code points), emitted by TLC as symbols.json and read by  *)
(* the Go driver: the driver has no table of its own.  The laws only ever compare     *)
(* symbols, so the specification never depends on a wire format.                      *)
EXTENDS Integers, Sequences, FiniteSets, TLC

CONSTANT Tier        \* "quick" | "thorough": size of the symbol sets that are quantified over

(* ------------------------------------------------------------------ symbols *)
StrSym == [
  S_empty |-> <<>>,
  S_a     |-> <<97>>,
  S_xml   |-> <<60, 38, 39, 34, 62>>,                                  \* <&'">
  S_uni   |-> <<233, 8364, 128512>>,                                   \* e-acute, euro sign, U+1F600
  S_ml    |-> <<32, 97, 10, 9, 98, 32>>,                               \* " a\n\tb "  leading/trailing blanks, newline, tab
  S_cdata |-> <<93, 93, 62, 38, 97, 109, 112, 59, 60, 33, 45, 45>>,    \* ]]>&amp;<!--
  S_nl    |-> <<97, 10, 98, 10>>,                                      \* "a\nb\n"  ends in a newline
  S_crlf  |-> <<97, 13, 10, 98>>,                                      \* "a\r\nb"
  S_sp    |-> <<32>>,                                                  \* one blank
  S_en    |-> <<101, 110>>,
  S_de    |-> <<100, 101>>,
  \* results of the data form normalisations of S_ml / S_nl / S_crlf (title, instructions)
  S_ml_t  |-> <<32, 97, 32, 9, 98, 32>>,                               \* " a \tb "
  S_ab_sp |-> <<97, 32, 98, 32>>,                                      \* "a b "
  S_a_b   |-> <<97, 32, 98>>,                                          \* "a b"
  S_anb   |-> <<97, 10, 98>>,                                          \* "a\nb"
  S_annb  |-> <<97, 10, 10, 98>>,                                      \* "a\n\nb" (the lines a, "", b of S_crlf joined)
  S_b     |-> <<98>>,
  \* typed form values, urls, report reasons, header names
  S_true  |-> <<116, 114, 117, 101>>, S_false |-> <<102, 97, 108, 115, 101>>,
  S_0     |-> <<48>>, S_1 |-> <<49>>,
  S_jbare |-> <<97, 64, 98, 46, 101, 120, 97, 109, 112, 108, 101>>,    \* a@b.example as a string
  S_jfull |-> <<97, 64, 98, 46, 101, 120, 97, 109, 112, 108, 101, 47, 114>>,
  S_jfullx |-> <<99, 64, 100, 46, 101, 120, 97, 109, 112, 108, 101, 47, 60, 38, 39, 34, 62, 233, 32, 120>>,
  S_url   |-> <<104, 116, 116, 112, 115, 58, 47, 47, 117, 46, 101, 120, 97, 109, 112, 108, 101, 47, 112, 63, 97, 61, 49, 38, 98, 61, 37, 50, 48>>,
                                                                       \* https://u.example/p?a=1&b=%20
  S_url2  |-> <<104, 116, 116, 112, 58, 47, 47, 91, 58, 58, 49, 93, 58, 56, 48, 47>>,  \* http://[::1]:80/
  S_spam  |-> <<117, 114, 110, 58, 120, 109, 112, 112, 58, 114, 101, 112, 111, 114, 116, 105, 110, 103, 58, 115, 112, 97, 109>>,
  S_abuse |-> <<117, 114, 110, 58, 120, 109, 112, 112, 58, 114, 101, 112, 111, 114, 116, 105, 110, 103, 58, 97, 98, 117, 115, 101>>,
  S_hAuth |-> <<65, 117, 116, 104, 111, 114, 105, 122, 97, 116, 105, 111, 110>>,      \* Authorization
  S_hCookie |-> <<67, 111, 111, 107, 105, 101>>,                        \* Cookie
  S_both  |-> <<98, 111, 116, 104>>, S_remove |-> <<114, 101, 109, 111, 118, 101>>,
  S_ftype |-> <<70, 79, 82, 77, 95, 84, 89, 80, 69>>,                  \* FORM_TYPE
  \* 5000 letters: longer than the 4096 byte buffers of encoding/xml's encoder and of bufio
  S_big   |-> [i \in 1..5000 |-> 97 + (i % 26)] ]

(* ------------------------------------------------------------------ long texts *)
(* The LENGTH of a text is a dimension of its own: buffers, scanners and pools of the  *)
(* code under test have sizes (4096 bytes: bufio and encoding/xml; 65536 bytes: the     *)
(* longest token of a bufio.Scanner), so a text is quantified at these boundaries - one *)
(* byte less, exactly, one byte more -, as ONE line, as a long line among short lines,  *)
(* as a long line followed by short lines, and as many lines that are each short.       *)
(* A long text is not written out: it is a RUN (code point c repeated n times) or LINES *)
(* (the texts named by other symbols joined by the separator sep: 10 = newline, 32 =    *)
(* blank); the driver expands it (symbols.json "long"), the laws only compare names.    *)
Run(c, n)      == [kind |-> "run", c |-> c, n |-> n, lines |-> <<>>, sep |-> 0]
Lines(ls, sep) == [kind |-> "lines", c |-> 0, n |-> 0, lines |-> ls, sep |-> sep]
LongSym == [
  L_4095  |-> Run(99, 4095),   L_4096  |-> Run(100, 4096),   L_4097  |-> Run(101, 4097),
  L_65535 |-> Run(102, 65535), L_65536 |-> Run(103, 65536),  L_65537 |-> Run(104, 65537),
  L_u65536 |-> Run(233, 32768),                \* 65536 BYTES of UTF-8 that are 32768 characters (e-acute)
  L_1000x |-> Run(120, 1000),  L_1000y |-> Run(121, 1000),
  L_a_4096_b  |-> Lines(<<"S_a", "L_4096", "S_b">>, 10),     \* a short line, a line of 4096 bytes, a short line
  L_a_65536_b |-> Lines(<<"S_a", "L_65536", "S_b">>, 10),    \* the same at the 64 KiB boundary
  L_65536_a_b |-> Lines(<<"L_65536", "S_a", "S_b">>, 10),    \* a long line FOLLOWED by short lines
  L_a_65535_b |-> Lines(<<"S_a", "L_65535", "S_b">>, 10),    \* one byte below the boundary, among short lines
  L_many  |-> Lines([i \in 1..70 |-> IF i % 2 = 1 THEN "L_1000x" ELSE "L_1000y"], 10),   \* 70 lines of 1000 bytes: 70 069 bytes, no long line
  \* the same lines joined by a blank: what a title (which cannot hold a newline) becomes
  L_a_65536_b_sp |-> Lines(<<"S_a", "L_65536", "S_b">>, 32) ]
LongAtoms4k  == {"L_4095", "L_4096", "L_4097"}
LongAtoms64k == {"L_65535", "L_65536", "L_65537", "L_u65536"}
LongMulti    == {"L_a_4096_b", "L_a_65536_b", "L_65536_a_b", "L_a_65535_b", "L_many"}
LongAll      == LongAtoms4k \cup LongAtoms64k \cup LongMulti
(* UTF-8 length of a long text (the boundaries are boundaries in BYTES) *)
Utf8Len(c) == IF c < 128 THEN 1 ELSE IF c < 2048 THEN 2 ELSE IF c < 65536 THEN 3 ELSE 4
RECURSIVE SumLen(_, _)
SymBytes(sy) == IF sy \in DOMAIN LongSym
                  THEN (IF LongSym[sy].kind = "run" THEN LongSym[sy].n * Utf8Len(LongSym[sy].c)
                        ELSE SumLen(LongSym[sy].lines, 1) + (Len(LongSym[sy].lines) - 1))
                  ELSE Len(StrSym[sy])          \* short symbols: code points (a lower bound; they are all far below every boundary)
SumLen(ls, i) == IF i > Len(ls) THEN 0 ELSE SymBytes(ls[i]) + SumLen(ls, i + 1)

JidSym == [
  J_zero  |-> <<>>,                                                    \* jid.JID{}
  J_bare  |-> <<97, 64, 98, 46, 101, 120, 97, 109, 112, 108, 101>>,    \* a@b.example
  J_full  |-> <<97, 64, 98, 46, 101, 120, 97, 109, 112, 108, 101, 47, 114>>,  \* a@b.example/r
  J_fullx |-> <<99, 64, 100, 46, 101, 120, 97, 109, 112, 108, 101, 47, 60, 38, 39, 34, 62, 233, 32, 120>>,
                                                                       \* c@d.example/<&'">e' x
  J_dom   |-> <<100, 46, 101, 120, 97, 109, 112, 108, 101>>,           \* d.example
  J_uni   |-> <<233, 64, 252, 46, 101, 120, 97, 109, 112, 108, 101, 47, 8364>> ]

(* time: <<unix seconds, nanoseconds, zone offset in seconds>>; T_zero is time.Time{}     *)
(* "times in any zone": INSTANTS (before 1970, with a sub-second part at the end of a   *)
(* year, on a leap day) x ZONE OFFSET CLASSES (UTC, whole hours east / west, half and   *)
(* three-quarter hours east / west, less than one hour west - the hour part of the      *)
(* offset is zero but the offset is negative -, the extreme offsets +14:00 and -12:00). *)
(* Offsets are whole minutes: the XEP-0082 zone definition has a resolution of a minute. *)
Instants == [pre  |-> <<-14182940, 0>>,            \* 1969-07-20T20:17:40Z
             frac |-> <<1640995199, 123456789>>,   \* 2021-12-31T23:59:59.123456789Z
             leap |-> <<1582979696, 0>>]           \* 2020-02-29T12:34:56Z
Offsets == [utc |-> 0, e0100 |-> 3600, w0800 |-> -28800, e0530 |-> 19800, w0330 |-> -12600,
            e0545 |-> 20700, w0245 |-> -9900, w0030 |-> -1800, e1400 |-> 50400, w1200 |-> -43200]
ZoneName(i, z) == IF z = "utc" THEN (CASE i = "leap" -> "T_utc" [] i = "frac" -> "T_frac" [] OTHER -> "T_" \o i)
                  ELSE "T_" \o i \o "_" \o z
ZonePairs == (DOMAIN Instants) \X (DOMAIN Offsets)
ZoneTimeSym == [n \in {ZoneName(p[1], p[2]) : p \in ZonePairs} |->
                  LET p == CHOOSE q \in ZonePairs : ZoneName(q[1], q[2]) = n
                  IN <<Instants[p[1]][1], Instants[p[1]][2], Offsets[p[2]]>>]
TimeSym == [
  T_zero |-> <<0, 0, 0>>,
  T_east |-> <<1654025523, 500000000, 19800>>,   \* 2022-06-01T01:02:03.5+05:30
  T_west |-> <<915177600, 0, -28800>> ]          \* 1999-01-01T00:00:00-08:00
  @@ ZoneTimeSym                                 \* T_utc = leap day in UTC, T_frac = sub-second part in UTC, T_pre ...
(* "extreme ... times": the years at the edges of what the XEP-0082 profile (CCYY, four  *)
(* digits) can carry - 0, 1 (T_zero is 0001-01-01T00:00:00Z), 9999 - and just outside -  *)
(* negative, 10000, a five digit year as it results from a Unix time in milliseconds      *)
(* taken for seconds -; times whose year differs between UTC and their own zone at these  *)
(* edges (both ways); the smallest and the largest sub-second part; the largest time a    *)
(* time.Time holds.  Unix seconds of these do not fit TLC's 32 bit integers, so an        *)
(* extreme time is <<year, day of the year, second of the day, nanoseconds, zone offset   *)
(* in seconds>> in its OWN zone (the driver builds it with time.Date(y, 1, doy, ...)).    *)
ExtTimeSym == [
  T_y0       |-> <<0, 1, 0, 0, 0>>,                    \* 0000-01-01T00:00:00Z
  T_y0_e     |-> <<0, 1, 0, 0, 3600>>,                 \* 0000-01-01T00:00:00+01:00: year 0 in its zone, year -1 in UTC
  T_yneg     |-> <<-1, 1, 0, 0, 0>>,                   \* -0001-01-01T00:00:00Z
  T_yneg_w   |-> <<-1, 365, 84600, 0, -3600>>,         \* -0001-12-31T23:30:00-01:00: year -1 in its zone, year 0 in UTC
  T_y1       |-> <<1, 1, 0, 1, 0>>,                    \* one nanosecond after time.Time{}
  T_y9999    |-> <<9999, 365, 86399, 999999999, 0>>,   \* 9999-12-31T23:59:59.999999999Z: the last nanosecond of four digit years
  T_y9999_w  |-> <<9999, 365, 82800, 0, -7200>>,       \* 9999-12-31T23:00:00-02:00: 9999 in its zone, 10000 in UTC
  T_y10000   |-> <<10000, 1, 0, 0, 0>>,                \* 10000-01-01T00:00:00Z
  T_y10000_e |-> <<10000, 1, 1800, 0, 3600>>,          \* 10000-01-01T00:30:00+01:00: 10000 in its zone, 9999 in UTC
  T_y53700   |-> <<53700, 6, 0, 0, 0>>,                \* 53700-01-06T00:00:00Z = time.Unix(1632441600000, 0)
  T_ns1      |-> <<2000, 1, 0, 1, 0>>,                 \* 2000-01-01T00:00:00.000000001Z
  T_ns999    |-> <<1999, 365, 86399, 999999999, 0>> ]  \* 1999-12-31T23:59:59.999999999Z
(* the largest time with a defined Unix time: time.Unix(1<<63-62135596801, 999999999), year 292277024627 *)
MaxTimeSeq == <<"T_max">>
MaxTimes == {MaxTimeSeq[i] : i \in 1..Len(MaxTimeSeq)}
AllTimes == DOMAIN TimeSym \cup DOMAIN ExtTimeSym \cup MaxTimes
DaysIn(y) == IF y % 4 = 0 /\ (y % 100 # 0 \/ y % 400 = 0) THEN 366 ELSE 365
(* <<year, second of that year>> of an extreme time in UTC *)
XUtc(x) == LET m == (x[2] - 1) * 86400 + x[3] - x[5] IN
           IF m < 0 THEN <<x[1] - 1, m + DaysIn(x[1] - 1) * 86400>>
           ELSE IF m >= DaysIn(x[1]) * 86400 THEN <<x[1] + 1, m - DaysIn(x[1]) * 86400>> ELSE <<x[1], m>>
(* the instant a time symbol names (the three tables are disjoint: checked by the design check and by the driver) *)
Inst(t) == IF t \in DOMAIN TimeSym THEN <<"unix", TimeSym[t][1], TimeSym[t][2]>>
           ELSE IF t \in DOMAIN ExtTimeSym THEN <<"civil", XUtc(ExtTimeSym[t]), ExtTimeSym[t][4]>>
           ELSE <<"max", t>>
OffsetOf(t) == IF t \in DOMAIN TimeSym THEN TimeSym[t][3] ELSE IF t \in DOMAIN ExtTimeSym THEN ExtTimeSym[t][5] ELSE 0
(* Can the four digit year of XEP-0082 carry the time?  The year written is the year in  *)
(* UTC or the year in the time's own zone, depending on the type: a time is REPRESENTABLE *)
(* when both are in 0..9999.  For the others the wire format has no text: an encoder may  *)
(* refuse them (error), or write something its decoder refuses or reads back as the same  *)
(* instant - but never panic, never write malformed XML, never come back as another time. *)
FourDigits(y) == y >= 0 /\ y <= 9999
Representable(t) == IF t \in DOMAIN ExtTimeSym THEN FourDigits(ExtTimeSym[t][1]) /\ FourDigits(XUtc(ExtTimeSym[t])[1])
                    ELSE t \notin MaxTimes
(* Where the zone is not part of a value two times are the same value iff they are the   *)
(* same instant: InstOf names the instant by its symbol in UTC (if there is one).        *)
SameInstant(a, b) == Inst(a) = Inst(b)
InstOf(t) == IF t = "T_zero" THEN t
             ELSE IF \E c \in AllTimes \ {"T_zero"} : SameInstant(c, t) /\ OffsetOf(c) = 0
                    THEN CHOOSE c \in AllTimes \ {"T_zero"} : SameInstant(c, t) /\ OffsetOf(c) = 0
                    ELSE t
(* integers as decimal strings (TLC integers are 32 bit) *)
IntSym == [
  N_0 |-> <<48>>, N_1 |-> <<49>>, N_2 |-> <<50>>, N_3 |-> <<51>>, N_4 |-> <<52>>, N_7 |-> <<55>>,
  N_9 |-> <<57>>, N_17 |-> <<49, 55>>, N_36 |-> <<51, 54>>, N_39 |-> <<51, 57>>,
  N_3600 |-> <<51, 54, 48, 48>>,
  N_neg  |-> <<45, 49>>,                                                     \* -1
  N_max32 |-> <<52, 50, 57, 52, 57, 54, 55, 50, 57, 53>>,                    \* 4294967295
  N_maxi64 |-> <<57, 50, 50, 51, 51, 55, 50, 48, 51, 54, 56, 53, 52, 55, 55, 53, 56, 48, 55>>,   \* 9223372036854775807
  N_max64 |-> <<49, 56, 52, 52, 54, 55, 52, 52, 48, 55, 51, 55, 48, 57, 53, 53, 49, 54, 49, 53>> ] \* 18446744073709551615
BytesSym == [
  B_empty |-> <<>>, B_1 |-> <<97>>, B_2 |-> <<0, 255>>, B_3 |-> <<1, 2, 3>>,
  B_20 |-> <<218, 57, 163, 238, 94, 107, 75, 13, 50, 85, 191, 239, 149, 96, 24, 144, 175, 216, 7, 9>> ]

(* ------------------------------------------------------------------ domains *)
Quick == Tier = "quick"
NS == {"jabber:client", "jabber:server"}
IdSyms   == IF Quick THEN {"S_empty", "S_a", "S_xml", "S_uni"}
                     ELSE {"S_empty", "S_a", "S_xml", "S_uni", "S_ml", "S_cdata", "S_crlf"}
LangSyms == IF Quick THEN {"S_empty", "S_en", "S_xml", "S_uni"}
                     ELSE {"S_empty", "S_en", "S_xml", "S_uni", "S_ml"}
JidSyms  == IF Quick THEN {"J_zero", "J_bare", "J_full", "J_fullx"}
                     ELSE {"J_zero", "J_bare", "J_full", "J_fullx", "J_dom", "J_uni"}

Kinds == {"iq", "message", "presence"}
(* "whose type field is one of the defined constants" (stanza/iq.go, message.go,      *)
(* presence.go: AvailablePresence is the empty string)                                *)
Types(kind) ==
  CASE kind = "iq"       -> {"get", "set", "result", "error"}
    [] kind = "message"  -> {"normal", "chat", "error", "groupchat", "headline"}
    [] kind = "presence" -> {"", "error", "probe", "subscribe", "subscribed", "unavailable",
                             "unsubscribe", "unsubscribed"}

(* A stanza as the Go struct holds it: namespace of XMLName, id, to, from, xml:lang, type *)
Stanzas(kind) == [ns : NS, id : IdSyms, to : JidSyms, from : JidSyms, lang : LangSyms, type : Types(kind)]

(* What decoding has to return: the same fields, and the element's local name.        *)
Decoded(kind, v) == [ns |-> v.ns, local |-> kind, id |-> v.id, to |-> v.to, from |-> v.from,
                     lang |-> v.lang, type |-> v.type]

(* ------------------------------------------------------------------ helpers *)
(* iq.Result / x.Error: "with the to and from attributes switched and the type set"   *)
Swap(v, ty) == [v EXCEPT !.to = v.from, !.from = v.to, !.type = ty]
Result(v)   == Swap(v, "result")
ErrReply(v) == Swap(v, "error")

(* ------------------------------------------------------------------ stanza errors *)
ErrTypes == {"cancel", "auth", "continue", "modify", "wait"}
Conds == {"bad-request", "conflict", "feature-not-implemented", "forbidden", "gone",
          "internal-server-error", "item-not-found", "jid-malformed", "not-acceptable", "not-allowed",
          "not-authorized", "policy-violation", "recipient-unavailable", "redirect",
          "registration-required", "remote-server-not-found", "remote-server-timeout",
          "resource-constraint", "service-unavailable", "subscription-required",
          "undefined-condition", "unexpected-request"}
P(l, t) == [lang |-> l, text |-> t]
(* ------------------------------------------------------------------ application-specific conditions *)
(* An element is identified by its namespace AND its local name.  An application-specific   *)
(* condition is a child of the error in a namespace OTHER than the error's own; its local   *)
(* name is the application's choice, so it may COLLIDE with a name the codec treats         *)
(* specially in the error's own namespace (text, see-other-host / gone / redirect, every    *)
(* defined condition, error, the stanza names): it stays a foreign element.  It has an      *)
(* attribute, character data and a child that is a <text/> of the error's OWN namespace     *)
(* (nested, hence part of the application's element and not a text of the error).           *)
NSStanzaErr == "urn:ietf:params:xml:ns:xmpp-stanzas"
NSStreamErr == "urn:ietf:params:xml:ns:xmpp-streams"
NSStreams   == "http://etherx.jabber.org/streams"
NSApp       == "urn:vt:payload"
El(space, local) == [space |-> space, local |-> local]
NoApp    == El("", "")            \* no application-specific condition
PlainApp == El(NSApp, "x")        \* a name that collides with nothing
Foreign(own) == (IF Tier = "quick" THEN {NSStanzaErr, NSStreamErr}
                 ELSE {NSStanzaErr, NSStreamErr, NSStreams, "jabber:client", "jabber:server"}) \ {own}
SpecialLocals(conds) == {"text", "error", "iq", "message", "presence"} \cup conds
(* every special name in the application's own namespace; in the other foreign namespaces (the *)
(* other kind of error, the stream, the stanzas) quick: the names that have content            *)
CollidingApps(own, conds) ==
  [space : {NSApp}, local : SpecialLocals(conds)]
  \cup [space : Foreign(own), local : IF Tier = "quick" THEN {"text", "error"} \cup (conds \cap {"see-other-host", "gone"})
                                       ELSE SpecialLocals(conds)]
(* stanza.Error.Text is a map from language to text: pairs with distinct languages;    *)
(* every subset is a value (0 to 4 texts: no tag, one, two or three different tags,   *)
(* with and without an untagged text); a map has no order, the views are compared as  *)
(* sets of (language, text) pairs                                                     *)
ErrPairs == {P("S_empty", "S_xml"), P("S_en", "S_uni"), P("S_de", "S_ml"), P("S_uni", "S_empty")}
(* app: the application-specific condition the error is wrapped around (Error.Wrap(payload)); *)
(* it is not part of the decoded value (ErrCore).  Every error with an ordinary application   *)
(* condition, and every condition x every colliding application element x without / with texts *)
(* (quick: of the condition names the application element takes the error's own and one other)  *)
NameFits(local, conds, own, other) == Tier # "quick" \/ local \notin conds \/ local \in {own, other}
StanzaErrors == [by : JidSyms, type : ErrTypes, cond : Conds, texts : SUBSET ErrPairs, app : {PlainApp}]
                \cup {e \in [by : {"J_fullx"}, type : {"cancel", "wait"}, cond : Conds,
                              texts : {{}, {P("S_empty", "S_xml"), P("S_en", "S_uni"), P("S_de", "S_ml")}},
                              app : CollidingApps(NSStanzaErr, Conds)] : NameFits(e.app.local, Conds, e.cond, "gone")}
ErrCore(e) == [by |-> e.by, type |-> e.type, cond |-> e.cond, texts |-> e.texts]

(* A text whose data is empty is skipped by Error.Wrap and by Error.UnmarshalXML      *)
(* (stanza/error.go: `if data == "" { continue }`, `if text.Data == "" { continue }`);*)
(* the property does not say whether an empty text survives, so both outcomes are     *)
(* acceptable as long as every path gives the same one.                               *)
NonEmptyTexts(e) == [e EXCEPT !.texts = {p \in e.texts : p.text # "S_empty"}]
StanzaErrorNorms(e) == {e, NonEmptyTexts(e)}

(* ------------------------------------------------------------------ stream errors *)
StreamConds == {"bad-format", "bad-namespace-prefix", "conflict", "connection-timeout", "host-gone",
  "host-unknown", "improper-addressing", "internal-server-error", "invalid-from", "invalid-namespace",
  "invalid-xml", "not-authorized", "not-well-formed", "policy-violation", "remote-connection-failed",
  "reset", "resource-constraint", "restricted-xml", "see-other-host", "system-shutdown",
  "undefined-condition", "unsupported-encoding", "unsupported-feature", "unsupported-stanza-type",
  "unsupported-version"}
(* stream.Error.Text is a list: order and repetitions are part of the value *)
StreamPairs == {P("S_empty", "S_xml"), P("S_en", "S_uni"), P("S_en", "S_empty")}
SeqsUpTo(S, n) == UNION {[1..k -> S] : k \in 0..n}
(* "multi-language error texts": 0, 1, 2 and 3 texts whose language tags range over    *)
(* EVERY sequence of ErrLangs (no tag, two or three different tags, the same tag       *)
(* twice, tagged and untagged texts in any order); the text at each position is        *)
(* different, so that a tag attached to the wrong text, a lost, duplicated or          *)
(* reordered text changes the value.                                                   *)
ErrLangs == IF Quick THEN {"S_empty", "S_en", "S_de"} ELSE {"S_empty", "S_en", "S_de", "S_uni"}
TextAt == <<"S_xml", "S_uni", "S_ml">>
MaxTexts == 3
MultiLangTexts == {[i \in 1..Len(ls) |-> P(ls[i], TextAt[i])] : ls \in SeqsUpTo(ErrLangs, MaxTexts)}
StreamTexts == SeqsUpTo(StreamPairs, 2) \cup MultiLangTexts
(* Content: "The content of the error condition element. This should only be used by  *)
(* see-other-host errors." (stream/error.go) - quantified only there.                 *)
StreamErrorsOf(texts, apps) ==
  {e \in [err : StreamConds, texts : texts, content : {"S_empty", "S_a", "S_xml"},
          app : apps] : e.content # "S_empty" => e.err = "see-other-host"}
(* every error without / with an ordinary application condition (ApplicationError), and     *)
(* every condition x every colliding application element x without / with two texts         *)
FewStreamTexts == {<<>>, <<P("S_en", "S_xml"), P("S_empty", "S_uni")>>}
StreamErrors == StreamErrorsOf(StreamTexts, {NoApp, PlainApp})
                \cup {e \in StreamErrorsOf(FewStreamTexts, CollidingApps(NSStreamErr, StreamConds)) :
                        NameFits(e.app.local, StreamConds, e.err, "see-other-host")}
(* the application payload is write-only (there is no accessor): not part of the decoded value *)
StreamErrorNorm(e) == [err |-> e.err, texts |-> e.texts, content |-> e.content]

(* ------------------------------------------------------------------ helper scenarios *)
(* P_errdeep: a payload with DESCENDANTS named like the element the error helpers look for - an <error/> of   *)
(* its own namespace and, next to it, a complete stanza error of the stanza namespace, both at depth 2        *)
Payloads == {"P_none", "P_elem", "P_text", "P_nested", "P_errdeep"}
HelpErrors == {[by |-> "J_zero", type |-> "cancel", cond |-> "item-not-found", texts |-> {}],
               \* an untagged text and two texts with different language tags
               [by |-> "J_fullx", type |-> "wait", cond |-> "undefined-condition",
                texts |-> {P("S_empty", "S_xml"), P("S_en", "S_uni"), P("S_de", "S_ml")}]}
HelpStanzas(kind) == [ns : NS, id : {"S_empty", "S_xml"}, to : {"J_zero", "J_bare", "J_fullx"},
                      from : {"J_zero", "J_full", "J_fullx"}, lang : {"S_empty", "S_en"}, type : Types(kind)]
Helps(kind) == [st : HelpStanzas(kind), pl : Payloads, er : HelpErrors]

(* ------------------------------------------------------------------ plain values on the token-reader path *)
(* A stanza handed to a session as a PLAIN Go value (a struct with xml tags, no TokenReader /  *)
(* WriteXML of its own) takes the token-reader path of internal/marshal: Session.Encode,       *)
(* EncodeElement, EncodeIQ, EncodeMessage, EncodePresence and their ...Element variants        *)
(* (payload given as a plain value, wrapped in the stanza).  What arrives on the wire must     *)
(* decode to the same value as the standard marshaller's output, also when TWO such readers    *)
(* are alive at the same time: the only code of the caller that runs inside a transmit call is *)
(* the transport, so the second call (on another session) is made from inside the first        *)
(* transport write of the outer call.  With a body longer than the encoder's buffer that write *)
(* happens while the outer value's reader is only partly consumed; with a short body it        *)
(* happens after it (the two calls are then simply consecutive).                               *)
EncodeCalls == {"Encode", "EncodeElement", "EncodeIQ", "EncodeIQElement", "EncodeMessage",
                "EncodeMessageElement", "EncodePresence", "EncodePresenceElement"}
KindsOfCall(ep) == CASE ep \in {"EncodeIQ", "EncodeIQElement"} -> {"iq"}
                     [] ep \in {"EncodeMessage", "EncodeMessageElement"} -> {"message"}
                     [] ep \in {"EncodePresence", "EncodePresenceElement"} -> {"presence"}
                     [] OTHER -> Kinds
(* the typed calls wait for an answer to requests (IQ get / set) and to every message and      *)
(* presence that is not an error: quantified are the types after which the call returns        *)
NoWaitTypes(ep, kind) ==
  IF ep \in {"Encode", "EncodeElement"}
    THEN (CASE kind = "iq" -> {"get", "error"} [] kind = "message" -> {"chat", "error"} [] OTHER -> {"", "error"})
    ELSE IF kind = "iq" THEN {"result", "error"} ELSE {"error"}
CallsWith(ids, bodies) ==
  {c \in [ep : EncodeCalls, kind : Kinds, type : UNION {Types(k) : k \in Kinds}, id : ids, body : bodies] :
     c.kind \in KindsOfCall(c.ep) /\ c.type \in NoWaitTypes(c.ep, c.kind)}
OuterCalls == CallsWith({"S_a", "S_xml"}, {"S_xml", "S_big"})
InnerCalls == {c \in CallsWith({"S_uni"}, {"S_uni", "S_big"}) : c.type = "error"}
EncodePairs == [outer : OuterCalls, inner : InnerCalls]
StOf(c) == [ns |-> "jabber:client", id |-> c.id, to |-> "J_fullx", from |-> "J_zero", lang |-> "S_empty", type |-> c.type]
SentStanza(c) == [st |-> Decoded(c.kind, StOf(c)), body |-> c.body]

=============================================================================
