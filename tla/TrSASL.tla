------------------------------ MODULE TrSASL ------------------------------
(* Trace validation of recorded SASL negotiations (harness/cmd/sasl) against SASL.  *)
(* One initial state per trace; register t0 keeps the furthest line consumed.       *)
EXTENDS SASL, Json

Trace == ndJsonDeserialize("trace.ndjson")

VARIABLES l, t0
tvars == <<vars, l, t0>>

Starts == {i \in 1..Len(Trace) : Trace[i].ev = "reset"}
EndOf(i) == Trace[i].end

IsEv(e) == l < EndOf(t0) /\ Trace[l].ev = e /\ l' = l + 1

TInit ==
  /\ t0 \in Starts /\ l = t0
  /\ role = "client" /\ local = <<>> /\ adv = <<>> /\ pc = "idle"
  /\ selected = None /\ stepIdx = 0 /\ mechDone = FALSE /\ mechErr = FALSE
  /\ successSeen = FALSE /\ earlySuccess = FALSE /\ permitted = "none" /\ authn = FALSE /\ npeer = 0 /\ sess = 1

TrReset ==
  /\ l = t0 /\ IsEv("reset")
  /\ LET r == Trace[l] IN
     /\ role' = r.role /\ local' = r.local
     /\ adv' = (IF r.role = "client" THEN r.adv ELSE <<>>)
     /\ pc' = (IF r.role = "client" THEN "c_select" ELSE "s_adv")
  /\ UNCHANGED <<selected, stepIdx, mechDone, mechErr, successSeen, earlySuccess, permitted, authn, npeer, sess>>

(* the next connection is negotiated with the same feature value (the previous session has *)
(* returned); adv: what the peer of a client advertises on the new connection              *)
TrNewSess == IsEv("newsess") /\ NewSession(Trace[l].adv)

(* the session's own <mechanisms/> list as it appeared on the wire *)
TrAdv == IsEv("adv") /\ SAdvertise(Trace[l].list)

(* a peer item handed to the session when it read on an empty transport *)
TrPeer ==
  /\ IsEv("peer")
  /\ LET x == Trace[l].item IN CRecvFinal(x) \/ CRecvLoop(x) \/ SRecv(x)

(* one invocation of the mechanism, logged by the mechanism itself *)
TrStep ==
  /\ IsEv("step")
  /\ LET e == Trace[l] IN
     /\ e.m = selected /\ e.i = stepIdx
     /\ CStart(e.more, e.err) \/ CStep(e.more, e.err) \/ SStep(e.more, e.err)

TrPerm == IsEv("perm") /\ SPerm(Trace[l].v)

(* an element written by the session.  Only <auth/> (names the mechanism in use)    *)
(* and <success/> (tells the peer it is authenticated) are constrained.             *)
TrWrote ==
  /\ IsEv("wrote")
  /\ LET e == Trace[l] IN
     CASE e.k = "auth" -> e.m = selected /\ CAuth
       [] e.k = "success" -> role = "server" /\ pc \in {"finish", "done"} /\ UNCHANGED vars
       [] OTHER -> UNCHANGED vars

(* return of the feature's Negotiate function: mask and error *)
TrNegRet ==
  /\ IsEv("negret")
  /\ (Trace[l].ok /\ Trace[l].authn => authn)
  /\ UNCHANGED vars

(* return of NewSession / ReceiveSession: error and the session's state bits *)
TrReturn ==
  /\ IsEv("return")
  /\ ~Trace[l].panic
  /\ (Trace[l].authn => authn)
  /\ UNCHANGED vars

(* steps of the session that leave no event of their own *)
Silent ==
  /\ \/ Abort \/ Finish
     \/ \E m \in ToSet(local) : CSelect(m)
  /\ UNCHANGED l

(* every state invariant of the design check must also hold along real traces *)
(* (a named deviation, when switched on to tolerate a listed finding, waives exactly the *)
(* invariant it breaks)                                                                 *)
Inv == /\ ("ExitWithoutSuccess" \in Dev \/ C03_ClientAuthn)
       /\ ("SkipPermission" \in Dev \/ C03_ServerAuthn)
       /\ C03_MechanismMutual

TNext ==
  /\ l < EndOf(t0)
  /\ \/ TrReset \/ TrAdv \/ TrPeer \/ TrStep \/ TrPerm \/ TrWrote \/ TrNegRet \/ TrReturn \/ TrNewSess \/ Silent
  /\ UNCHANGED t0
  /\ Inv'

TSpec == TInit /\ [][TNext]_tvars

HW == TLCSet(t0, IF TLCGet(t0) < l THEN l ELSE TLCGet(t0))
Rejected == {i \in Starts : TLCGet(i) # EndOf(i)}
Accepted ==
  \/ Rejected = {}
  \/ PrintT(<<"REJECTED", {<<Trace[i].t, TLCGet(i)>> : i \in Rejected}>>) /\ FALSE
ASSUME \A i \in Starts : TLCSet(i, 0)
=============================================================================
