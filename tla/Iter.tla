-------------------------------- MODULE Iter --------------------------------
(***************************************************************************)
(* Life cycle of the library's response ITERATORS on a served session      *)
(* (growth beyond C01-C20; family "iter").  Covers the helpers that keep a *)
(* response open across several calls:                                     *)
(*   borrow  Session.IterIQ/IterIQElement -> xmlstream.Iter, paging.Iter,  *)
(*           roster.Fetch, blocklist.Fetch, pubsub.Fetch, bookmarks.Fetch, *)
(*           disco.FetchItems (ItemIter), commands.Fetch: the iterator     *)
(*           BORROWS the serve loop's token reader; the serve loop sits in *)
(*           "handed" (session.go: <-readerChan.c) until the response is   *)
(*           closed.  The code releases on Close (iqResponder.Close), on a *)
(*           non-EOF read error of the stream, and - for ItemIter - when it*)
(*           turns the page (Close of the old page, then the next request).*)
(*           It does NOT release at the end of a page by itself; the spec  *)
(*           leaves that free (MayRelease).                                *)
(*   push    history.Handler.Fetch: the items of a tracked query are pushed*)
(*           by the serve loop's handler through a channel (serve loop in  *)
(*           "push" until Next takes the item); a goroutine G of the       *)
(*           library waits for the <fin/> reply and ends the iteration.    *)
(* mode: "auto"   the iterator sends the next page request itself (ItemIter)*)
(*       "manual" Next ends at the end of the page; the caller starts the  *)
(*                next page with the cursor the iterator reports (NextPage)*)
(*       "push"   tracked history query, paged manually (Result().Set.Last)*)
(*                                                                         *)
(* A script is the responder's behaviour per page request:                 *)
(*   [kind, n, more]  kind "ok": n items, `more` = the RSM set names a     *)
(*   `last` cursor; "error": error reply; "silence": no reply (the caller's*)
(*   context is cancelled); "eos": the peer ends the stream instead of     *)
(*   replying; "bad": n good items then one that cannot be decoded (push:  *)
(*   an undecodable <fin/>); "broken": n good items, then the stream breaks*)
(*   inside the response (syntax error or truncated).                      *)
(* Items are <<k, j>> (page, index); the cursor `last` of page k is k.     *)
(***************************************************************************)
EXTENDS Integers, Sequences, FiniteSets, TLC

CONSTANTS Dev,       \* named deviations (non-vacuity of the properties; {} = the property)
          Scripts,   \* scenario universe of the design check: set of [mode, script]
          WithProbes \* design check: the consumer also calls Item()/Err() (no state change)

None == "none"
Modes == {"auto", "manual", "push"}
Terminal == {"exhausted", "failed", "closed"}

VARIABLES
  mode, script,                 \* scenario, fixed during a behaviour
  cop, nres, tcall, dcall,      \* consumer: call in progress, its result, snapshot at call time
  ist, held, pos, err, nextc,   \* iterator: state, response borrowed, position in page, Err(), cursor for the caller
  gpc, gerr,                    \* push mode: goroutine of history.FetchIQ
  spc, cur, inbox, answered, cancelled,   \* serve loop, item it offers, peer -> us, replies produced, caller's context
  reqs, delivered,              \* history: page requests seen on the wire, items handed to the consumer
  opened, released, resumed, handled, closes, lastnext

vars == <<mode, script, cop, nres, tcall, dcall, ist, held, pos, err, nextc, gpc, gerr, spc, cur, inbox,
          answered, cancelled, reqs, delivered, opened, released, resumed, handled, closes, lastnext>>

scen == <<mode, script>>
P == Len(reqs)                                  \* page of the newest request
Pg(k) == IF k >= 1 /\ k <= Len(script) THEN script[k] ELSE [kind |-> "silence", n |-> 0, more |-> FALSE]
More(k) == Pg(k).kind = "ok" /\ Pg(k).more
St(t, k, j) == [t |-> t, k |-> k, j |-> j]
NoCur == <<0, 0>>

InitWith(m, s) ==
  /\ mode = m /\ script = s
  /\ cop = None /\ nres = None /\ tcall = FALSE /\ dcall = 0
  /\ ist = None /\ held = FALSE /\ pos = 0 /\ err = None /\ nextc = 0
  /\ gpc = None /\ gerr = None
  /\ spc = "read" /\ cur = NoCur /\ inbox = <<>> /\ answered = 0 /\ cancelled = FALSE
  /\ reqs = <<>> /\ delivered = <<>>
  /\ opened = 0 /\ released = 0 /\ resumed = 0 /\ handled = 0 /\ closes = 0
  /\ lastnext = [ok |-> FALSE, term |-> FALSE, grew |-> FALSE]

Init == \E sc \in Scripts : InitWith(sc.mode, sc.script)

Release == held' = FALSE /\ released' = released + 1

-----------------------------------------------------------------------------
(* Environment: the scripted responder, the caller's context, the end of the stream *)
ReplyStanzas(k) ==
  LET p == Pg(k)
      items == IF mode = "push" /\ p.kind \in {"ok", "error", "bad", "silence", "eos"}
               THEN [j \in 1..p.n |-> St("item", k, j)] ELSE <<>> IN
  CASE p.kind \in {"ok", "error", "bad"} -> items \o <<St("reply", k, 0)>>
    [] p.kind = "broken" -> <<St("reply", k, 0), St("eos", 0, 0)>>
    [] p.kind = "eos" -> items \o <<St("eos", 0, 0)>>
    [] OTHER -> items

PeerReply ==
  /\ answered < Len(reqs)
  /\ answered' = answered + 1
  /\ inbox' = inbox \o ReplyStanzas(answered + 1)
  /\ UNCHANGED <<scen, cop, nres, tcall, dcall, ist, held, pos, err, nextc, gpc, gerr, spc, cur, cancelled,
                 reqs, delivered, opened, released, resumed, handled, closes, lastnext>>

Cancel ==
  /\ ~cancelled /\ cancelled' = TRUE
  /\ UNCHANGED <<scen, cop, nres, tcall, dcall, ist, held, pos, err, nextc, gpc, gerr, spc, cur, inbox, answered,
                 reqs, delivered, opened, released, resumed, handled, closes, lastnext>>

EndStream ==
  /\ inbox' = Append(inbox, St("eos", 0, 0))
  /\ UNCHANGED <<scen, cop, nres, tcall, dcall, ist, held, pos, err, nextc, gpc, gerr, spc, cur, answered, cancelled,
                 reqs, delivered, opened, released, resumed, handled, closes, lastnext>>

-----------------------------------------------------------------------------
(* Consumer: calls and returns.  A new Fetch is possible at the start and, for manually   *)
(* paged results, after the previous page's iterator was closed and reported a cursor.     *)
CanFetch == ist = None \/ (mode \in {"manual", "push"} /\ ist = "closed" /\ nextc # 0 /\ gpc \in {None, "done"})

Call(op) ==
  /\ cop = None /\ cop' = op /\ nres' = None
  /\ CASE op = "fetch" -> /\ CanFetch
                          /\ ist' = IF mode = "push" THEN "open" ELSE "created"
                          /\ gpc' = IF mode = "push" THEN "created" ELSE gpc
                          /\ gerr' = None /\ pos' = 0 /\ err' = None /\ nextc' = 0
       [] OTHER -> ist # None /\ UNCHANGED <<ist, gpc, gerr, pos, err, nextc>>
  /\ tcall' = (ist \in Terminal) /\ dcall' = Len(delivered)
  /\ closes' = (IF op = "fetch" THEN 0 ELSE closes)        \* closes of the current iterator
  /\ UNCHANGED <<scen, held, spc, cur, inbox, answered, cancelled, reqs, delivered, opened, released, resumed,
                 handled, lastnext>>

RetFetch ==
  /\ cop = "fetch" /\ cop' = None
  /\ (mode # "push" => ist \in {"open", "failed"})
  /\ UNCHANGED <<scen, nres, tcall, dcall, ist, held, pos, err, nextc, gpc, gerr, spc, cur, inbox, answered, cancelled,
                 reqs, delivered, opened, released, resumed, handled, closes, lastnext>>

RetNext(ok) ==
  /\ cop = "next" /\ nres = (IF ok THEN "true" ELSE "false")
  /\ cop' = None /\ nres' = None
  /\ lastnext' = [ok |-> ok, term |-> tcall, grew |-> Len(delivered) > dcall]
  /\ UNCHANGED <<scen, tcall, dcall, ist, held, pos, err, nextc, gpc, gerr, spc, cur, inbox, answered, cancelled,
                 reqs, delivered, opened, released, resumed, handled, closes>>

(* Item() and Err() change nothing; what they return is judged in the trace specification *)
RetProbe ==
  /\ cop \in {"item", "err"} /\ cop' = None
  /\ UNCHANGED <<scen, nres, tcall, dcall, ist, held, pos, err, nextc, gpc, gerr, spc, cur, inbox, answered, cancelled,
                 reqs, delivered, opened, released, resumed, handled, closes, lastnext>>

RetClose ==
  /\ cop = "close" /\ nres = "done" /\ cop' = None /\ nres' = None /\ closes' = (IF closes < 2 THEN closes + 1 ELSE closes)
  /\ UNCHANGED <<scen, tcall, dcall, ist, held, pos, err, nextc, gpc, gerr, spc, cur, inbox, answered, cancelled,
                 reqs, delivered, opened, released, resumed, handled, lastnext>>

-----------------------------------------------------------------------------
(* Library, requester side (borrow modes) *)
Sending == mode # "push" /\ ((cop = "fetch" /\ ist = "created") \/ (cop = "next" /\ ist = "between"))

(* the cursor a conforming library sends with the next request: `last` of the newest page, after *)
GoodCursor == [cursor |-> P, dir |-> IF P = 0 THEN None ELSE "after"]
LibCursor ==
  CASE P > 0 /\ "CursorFirst" \in Dev -> [cursor |-> 0 - P, dir |-> "after"]
    [] P > 0 /\ "CursorBefore" \in Dev -> [cursor |-> P, dir |-> "before"]
    [] P > 0 /\ "CursorNone" \in Dev -> [cursor |-> 0, dir |-> None]
    [] OTHER -> GoodCursor

SendReq(r) ==
  /\ Sending /\ reqs' = Append(reqs, r) /\ ist' = "waiting"
  /\ UNCHANGED <<scen, cop, nres, tcall, dcall, held, pos, err, nextc, gpc, gerr, spc, cur, inbox, answered, cancelled,
                 delivered, opened, released, resumed, handled, closes, lastnext>>

(* with a cancelled context the request may not get out at all *)
SendFail ==
  /\ Sending /\ cancelled /\ ist' = "failed" /\ err' = "ctx"
  /\ UNCHANGED <<scen, cop, nres, tcall, dcall, held, pos, nextc, gpc, gerr, spc, cur, inbox, answered, cancelled,
                 reqs, delivered, opened, released, resumed, handled, closes, lastnext>>

CtxDone ==
  /\ mode # "push" /\ ist = "waiting" /\ cancelled /\ ist' = "failed" /\ err' = "ctx"
  /\ UNCHANGED <<scen, cop, nres, tcall, dcall, held, pos, nextc, gpc, gerr, spc, cur, inbox, answered, cancelled,
                 reqs, delivered, opened, released, resumed, handled, closes, lastnext>>

(* the head of the response was read: an error reply fails the iterator and the library  *)
(* itself must release the response (the failed iterator has no handle on it)             *)
Examine ==
  /\ mode # "push" /\ ist = "got"
  /\ IF Pg(P).kind = "error"
     THEN /\ ist' = "failed" /\ err' = "stanza"
          /\ (IF "NoReleaseOnErrorReply" \in Dev THEN UNCHANGED <<held, released>> ELSE Release)
          /\ UNCHANGED delivered
     ELSE /\ ist' = "open" /\ UNCHANGED <<err, held, released>>
          /\ delivered' = IF "DupAtPageTurn" \in Dev /\ P > 1 THEN Append(delivered, <<P - 1, Pg(P - 1).n>>) ELSE delivered
  /\ pos' = 0
  /\ UNCHANGED <<scen, cop, nres, tcall, dcall, nextc, gpc, gerr, spc, cur, inbox, answered, cancelled,
                 reqs, opened, resumed, handled, closes, lastnext>>

-----------------------------------------------------------------------------
(* Next *)
NextItem(it) ==
  /\ cop = "next" /\ nres = None /\ mode # "push" /\ ist = "open" /\ pos < Pg(P).n
  /\ pos' = pos + 1 /\ delivered' = Append(delivered, it) /\ nres' = "true"
  /\ UNCHANGED <<scen, cop, tcall, dcall, ist, held, err, nextc, gpc, gerr, spc, cur, inbox, answered, cancelled,
                 reqs, opened, released, resumed, handled, closes, lastnext>>

EndOfPage ==
  /\ cop = "next" /\ nres = None /\ mode # "push" /\ ist = "open" /\ pos = Pg(P).n
  /\ LET p == Pg(P) IN
     CASE p.kind = "bad" ->        \* the next child cannot be decoded: the response stays borrowed until Close
            /\ ist' = "failed" /\ err' = (IF "SilentFailure" \in Dev THEN None ELSE "decode")
            /\ nres' = (IF "TrueWithoutItem" \in Dev THEN "true" ELSE "false") /\ UNCHANGED <<held, released, nextc>>
       [] p.kind = "broken" ->     \* the stream broke under the response: nothing more to read, released
            /\ ist' = "failed" /\ err' = "stream" /\ nres' = "false" /\ Release /\ UNCHANGED nextc
       [] p.kind = "ok" /\ (p.more \/ ("TurnWithoutCursor" \in Dev /\ P < 2)) /\ mode = "auto" ->     \* turn the page: close this response first
            /\ ist' = "between" /\ Release /\ UNCHANGED <<err, nres, nextc>>
       [] OTHER ->
            /\ ist' = "exhausted" /\ nres' = "false" /\ nextc' = (IF p.more THEN P ELSE 0)
            /\ UNCHANGED <<err, held, released>>
  /\ UNCHANGED <<scen, cop, tcall, dcall, pos, gpc, gerr, spc, cur, inbox, answered, cancelled,
                 reqs, delivered, opened, resumed, handled, closes, lastnext>>

NextEnd ==
  /\ cop = "next" /\ nres = None /\ ist \in Terminal
  /\ nres' = IF "NextAfterClose" \in Dev /\ ist = "closed" /\ ~lastnext.term THEN "true" ELSE "false"
  /\ UNCHANGED <<scen, cop, tcall, dcall, ist, held, pos, err, nextc, gpc, gerr, spc, cur, inbox, answered, cancelled,
                 reqs, delivered, opened, released, resumed, handled, closes, lastnext>>

(* the library may give the response back as soon as nothing more will be read from it *)
MayRelease ==
  /\ held /\ ist \in {"exhausted", "failed"} /\ Release
  /\ UNCHANGED <<scen, cop, nres, tcall, dcall, ist, pos, err, nextc, gpc, gerr, spc, cur, inbox, answered, cancelled,
                 reqs, delivered, opened, resumed, handled, closes, lastnext>>

-----------------------------------------------------------------------------
(* Close: idempotent, never waits for anybody *)
HasHandle == ist \in {"open", "exhausted"} \/ (ist = "failed" /\ err = "decode")
DoClose ==
  /\ cop = "close" /\ nres = None
  /\ ~("CloseBlocksOnPush" \in Dev /\ spc = "push")
  /\ nres' = "done" /\ ist' = "closed"
  /\ err' = IF "ErrCleared" \in Dev /\ ist # "closed" THEN None ELSE err
  /\ IF held /\ mode # "push" /\ HasHandle
        /\ ~("NoReleaseOnEarlyClose" \in Dev /\ ist = "open" /\ pos < Pg(P).n)
     THEN Release
     ELSE IF "ReleaseTwice" \in Dev /\ ist = "closed" /\ mode # "push"
          THEN released' = released + 1 /\ UNCHANGED held
          ELSE UNCHANGED <<held, released>>
  /\ IF mode = "push" /\ spc = "push"     \* the handler's pending offer is given up
     THEN spc' = "read" /\ cur' = NoCur ELSE UNCHANGED <<spc, cur>>
  /\ UNCHANGED <<scen, cop, tcall, dcall, pos, nextc, gpc, gerr, inbox, answered, cancelled,
                 reqs, delivered, opened, resumed, handled, closes, lastnext>>

-----------------------------------------------------------------------------
(* Serve loop *)
Waiting(k) == k = P /\ ((mode # "push" /\ ist = "waiting") \/ (mode = "push" /\ gpc = "waiting"))
Tracked(k) == mode = "push" /\ ist = "open" /\ gpc \in {"waiting", "got", "rem"} /\ k = P
Hd == Head(inbox)

ReadEos ==
  /\ spc = "read" /\ inbox # <<>> /\ Hd.t = "eos" /\ spc' = "ended" /\ inbox' = Tail(inbox)
  /\ UNCHANGED <<scen, cop, nres, tcall, dcall, ist, held, pos, err, nextc, gpc, gerr, cur, answered, cancelled,
                 reqs, delivered, opened, released, resumed, handled, closes, lastnext>>

(* joint step of the serve loop's select and the requester's select *)
Handoff ==
  /\ spc = "read" /\ inbox # <<>> /\ Hd.t = "reply" /\ Waiting(Hd.k)
  /\ spc' = "handed" /\ inbox' = Tail(inbox) /\ opened' = opened + 1 /\ held' = TRUE
  /\ (IF mode = "push" THEN gpc' = "got" /\ UNCHANGED ist ELSE ist' = "got" /\ UNCHANGED gpc)
  /\ UNCHANGED <<scen, cop, nres, tcall, dcall, pos, err, nextc, gerr, cur, answered, cancelled,
                 reqs, delivered, released, resumed, handled, closes, lastnext>>

(* a reply nobody waits for (any more) goes to the handler *)
ReplyToHandler ==
  /\ spc = "read" /\ inbox # <<>> /\ Hd.t = "reply" /\ (~Waiting(Hd.k) \/ cancelled)
  /\ inbox' = Tail(inbox) /\ handled' = handled + 1
  /\ UNCHANGED <<scen, cop, nres, tcall, dcall, ist, held, pos, err, nextc, gpc, gerr, spc, cur, answered, cancelled,
                 reqs, delivered, opened, released, resumed, closes, lastnext>>

Resume ==
  /\ spc = "handed" /\ ~held /\ spc' = "read" /\ resumed' = resumed + 1
  /\ UNCHANGED <<scen, cop, nres, tcall, dcall, ist, held, pos, err, nextc, gpc, gerr, cur, inbox, answered, cancelled,
                 reqs, delivered, opened, released, handled, closes, lastnext>>

-----------------------------------------------------------------------------
(* push mode (history.Handler) *)
GSend(r) ==
  /\ mode = "push" /\ gpc = "created" /\ reqs' = Append(reqs, r) /\ gpc' = "waiting"
  /\ UNCHANGED <<scen, cop, nres, tcall, dcall, ist, held, pos, err, nextc, gerr, spc, cur, inbox, answered, cancelled,
                 delivered, opened, released, resumed, handled, closes, lastnext>>

GFail ==      \* the send failed, or the context ended while G was waiting
  /\ mode = "push" /\ gpc \in {"created", "waiting"} /\ cancelled /\ gpc' = "rem" /\ gerr' = "ctx"
  /\ UNCHANGED <<scen, cop, nres, tcall, dcall, ist, held, pos, err, nextc, spc, cur, inbox, answered, cancelled,
                 reqs, delivered, opened, released, resumed, handled, closes, lastnext>>

GExamine ==   \* UnmarshalIQ: decodes <fin/> or the error and closes the response in every case
  /\ mode = "push" /\ gpc = "got" /\ gpc' = "rem" /\ Release
  /\ gerr' = CASE Pg(P).kind = "error" -> "stanza" [] Pg(P).kind = "bad" -> "decode" [] OTHER -> None
  /\ UNCHANGED <<scen, cop, nres, tcall, dcall, ist, pos, err, nextc, spc, cur, inbox, answered, cancelled,
                 reqs, delivered, opened, resumed, handled, closes, lastnext>>

GRemove ==    \* ends the iteration: Next returns false from now on, Err reports G's error
  /\ mode = "push" /\ gpc = "rem" /\ gpc' = "done"
  /\ ~("CloseBlocksOnPush" \in Dev /\ spc = "push")      \* (the deviation: one lock around offer, Close and this step)
  /\ IF ist = "open"
     THEN /\ ist' = IF gerr = None THEN "exhausted" ELSE "failed"
          /\ err' = gerr /\ nextc' = (IF gerr = None /\ More(P) THEN P ELSE 0)
          /\ (IF spc = "push" THEN spc' = "read" /\ cur' = NoCur ELSE UNCHANGED <<spc, cur>>)
     ELSE UNCHANGED <<ist, err, nextc, spc, cur>>
  /\ UNCHANGED <<scen, cop, nres, tcall, dcall, held, pos, gerr, inbox, answered, cancelled,
                 reqs, delivered, opened, released, resumed, handled, closes, lastnext>>

PushOffer ==
  /\ spc = "read" /\ inbox # <<>> /\ Hd.t = "item" /\ Tracked(Hd.k)
  /\ spc' = "push" /\ cur' = <<Hd.k, Hd.j>> /\ inbox' = Tail(inbox)
  /\ UNCHANGED <<scen, cop, nres, tcall, dcall, ist, held, pos, err, nextc, gpc, gerr, answered, cancelled,
                 reqs, delivered, opened, released, resumed, handled, closes, lastnext>>

ItemToHandler ==
  /\ spc = "read" /\ inbox # <<>> /\ Hd.t = "item" /\ ~Tracked(Hd.k)
  /\ inbox' = Tail(inbox) /\ handled' = handled + 1
  /\ UNCHANGED <<scen, cop, nres, tcall, dcall, ist, held, pos, err, nextc, gpc, gerr, spc, cur, answered, cancelled,
                 reqs, delivered, opened, released, resumed, closes, lastnext>>

NextTake ==
  /\ cop = "next" /\ nres = None /\ mode = "push" /\ ist = "open" /\ spc = "push"
  /\ delivered' = Append(delivered, cur) /\ nres' = "true" /\ spc' = "read" /\ cur' = NoCur /\ pos' = pos + 1
  /\ UNCHANGED <<scen, cop, tcall, dcall, ist, held, err, nextc, gpc, gerr, inbox, answered, cancelled,
                 reqs, opened, released, resumed, handled, closes, lastnext>>

-----------------------------------------------------------------------------
LibCaller ==     \* steps of the library in the consumer's own goroutine
  \/ SendReq(LibCursor) \/ SendFail \/ CtxDone \/ Examine
  \/ (cop = "next" /\ nres = None /\ mode # "push" /\ ist = "open" /\ pos < Pg(P).n /\ NextItem(<<P, pos + 1>>))
  \/ EndOfPage \/ NextEnd \/ MayRelease \/ DoClose \/ NextTake
LibG == GSend(LibCursor) \/ GFail \/ GExamine \/ GRemove      \* goroutine of history.FetchIQ
Lib == LibCaller \/ LibG
Serve == ReadEos \/ Handoff \/ ReplyToHandler \/ Resume \/ PushOffer \/ ItemToHandler
Consumer ==
  \/ \E op \in {"fetch", "next", "close"} : Call(op)
  \/ (WithProbes /\ \E op \in {"item", "err"} : Call(op))
  \/ RetFetch \/ RetNext(TRUE) \/ RetNext(FALSE) \/ RetProbe \/ RetClose
Env == PeerReply \/ Cancel

Next == Lib \/ Serve \/ Consumer \/ Env
Spec == Init /\ [][Next]_vars

(* Fairness: every step of the library and of the serve loop; the responder answers; the  *)
(* context of a caller is eventually cancelled (otherwise waiting for a silent peer is     *)
(* legitimate); the consumer eventually closes what it opened (the premise of the helpers) *)
(* and keeps calling Next while the handler offers it an item or, failing that, closes.    *)
Fair ==
  /\ WF_vars(LibCaller) /\ WF_vars(LibG) /\ WF_vars(Serve) /\ WF_vars(PeerReply) /\ WF_vars(Cancel)
  /\ WF_vars(RetFetch \/ RetNext(TRUE) \/ RetNext(FALSE) \/ RetProbe \/ RetClose)
  /\ SF_vars(Call("close"))
FairSpec == Spec /\ Fair

-----------------------------------------------------------------------------
(* Properties *)
AllItems(k) == [j \in 1..Pg(k).n |-> <<k, j>>]
RECURSIVE Concat(_)
Concat(k) == IF k = 0 THEN <<>> ELSE Concat(k - 1) \o AllItems(k)
IsPrefix(a, b) == Len(a) <= Len(b) /\ \A i \in 1..Len(a) : a[i] = b[i]

(* every opened response is released exactly once: never twice, and a response counts as *)
(* borrowed exactly while it is open *)
I_ReleasedOnce ==
  /\ released <= opened /\ resumed <= released
  /\ (held <=> opened = released + 1) /\ (~held => opened = released)
(* ... in every exit path: after Close returned nothing is borrowed any more, and the     *)
(* paths in which the iterator keeps no handle on the response have released it already    *)
I_ReleasedOnExit ==
  /\ (ist = "closed" /\ cop = None /\ gpc # "got") => ~held
  /\ (mode # "push" /\ ist = "failed" /\ err \in {"stanza", "ctx", "stream"}) => ~held
  /\ ist \in {"between", "waiting", "created"} => ~held
(* items are delivered exactly once and in order, across pages *)
I_ItemsInOrder == IsPrefix(delivered, Concat(Len(script)))
(* request k+1 carries the `last` of page k as `after`; the first request carries no cursor *)
I_Cursor == \A i \in 1..Len(reqs) : reqs[i] = [cursor |-> i - 1, dir |-> IF i = 1 THEN None ELSE "after"]
(* a next page is only asked for after a page that named one *)
I_PagesAsked == \A i \in 2..Len(reqs) : More(i - 1)
(* after Close / exhaustion / failure Next returns false; Next is true iff it delivered an item *)
I_NextFalseAfterEnd == lastnext.term => ~lastnext.ok
I_NextTrueIffItem == lastnext.ok = lastnext.grew
I_ErrMeaning == (ist = "exhausted" => err = None) /\ (ist = "failed" => err # None)
(* Err is stable once the iterator has ended (a new Fetch starts a new iterator) *)
I_ErrStable == [][(ist \in Terminal /\ ist' \in Terminal) => err' = err]_vars
(* Close is idempotent: a second Close changes nothing *)
I_CloseIdempotent == [][(cop = "close" /\ ist = "closed" /\ nres = None /\ nres' = "done")
                             => UNCHANGED <<ist, held, err, released, delivered, spc>>]_vars
(* liveness: the serve loop always resumes; Close always returns *)
I_ServeResumes == []<>(spc \in {"read", "ended"})
I_CloseReturns == (cop = "close") ~> (cop = None)

Safety == /\ I_ReleasedOnce /\ I_ReleasedOnExit /\ I_ItemsInOrder /\ I_Cursor /\ I_PagesAsked
          /\ I_NextFalseAfterEnd /\ I_NextTrueIffItem /\ I_ErrMeaning
=============================================================================
