------------------------------- MODULE Bind -------------------------------
(***************************************************************************)
(* Resource binding (RFC 6120 section 7), part (d) of property C12, both   *)
(* roles, one action per step of the Negotiate function in bind.go:        *)
(*                                                                         *)
(*   initiator: Request (the <iq type='set'><bind><resource/></bind></iq>) *)
(*              Reply   (decode the answer, compare id and type)           *)
(*              Adopt / Fail                                               *)
(*   receiver:  Receive (decode the request)                               *)
(*              Callback (BindCustom's function / the random default)      *)
(*              Answer                                                     *)
(*                                                                         *)
(* The property: the initiator asks for exactly the resourcepart of its    *)
(* own address (none if it has none) and afterwards reports the address    *)
(* the server assigned; an error reply, a reply with another id or type,   *)
(* or something that is not a well-formed bind reply never makes the       *)
(* session ready.  The receiver answers the request's id with the address  *)
(* chosen by the callback or with a fresh random resource on the peer's    *)
(* bare address, and relays the callback's stanza error.  A result that    *)
(* carries no address assigns nothing: the property is silent (both        *)
(* outcomes allowed).                                                      *)
(***************************************************************************)
EXTENDS Integers, Sequences, FiniteSets, TLC

CONSTANTS MaxStr,  \* longest resourcepart (characters as in Header.tla: 1 letter, 2 ' 3 & 4 < 5 > 6 ")
          Dev

Chars == 1..6
Strs(n) == UNION {[1..k -> Chars] : k \in 0..n}

(* ---------------------------------------------------------------- initiator *)
(* what the peer may answer *)
ReplyKinds == {"result", "result_nojid", "error", "error_nochild", "wrongid", "get", "set",
               "notiq", "wrongns", "chardata", "eof", "badjid"}
(* the address a result assigns, relative to the initiator's own: its own address, its bare   *)
(* address with another resourcepart, or another account altogether                           *)
Assigned == {"own", "otherres", "otheraccount"}

InitScenario(res, kind, asg) == [role |-> "init", res |-> res, kind |-> kind, asg |-> asg]
InitScenarios(n) == {InitScenario(r, k, a) : r \in Strs(n), k \in ReplyKinds, a \in Assigned}

(* the resourcepart the request must carry (<resource/> absent or empty = none) *)
MustRequest(sc) == IF "DropResource" \in Dev THEN <<>> ELSE sc.res
(* the outcome the property allows *)
InitOutcome(sc) == CASE sc.kind = "result" -> "ready"
                     [] sc.kind = "result_nojid" -> "any"
                     [] OTHER -> "error"
ExpInit(sc) == [req |-> MustRequest(sc), outcome |-> InitOutcome(sc),
                addr |-> IF sc.kind = "result" THEN sc.asg ELSE ""]

(* ---------------------------------------------------------------- receiver *)
(* the request: its id (plain or with characters that need escaping), the resource asked for  *)
ReqIds == {<<1>>, <<1, 2, 3, 4, 6>>}
NoRes == <<0>>                               \* the request has no <resource/> element
ReqRes(n) == {NoRes} \cup Strs(n)           \* ... | its text
(* the application's callback: an address (the peer's bare address with the requested          *)
(* resourcepart or with one of its own choice, or another account), a stanza error, or         *)
(* any other error; "random" is BindResource's default                                         *)
Callbacks == {"requested", "chosen", "otheraccount", "conflict", "not-allowed", "failure", "random"}

RecvScenario(id, res, cb, s2s) == [role |-> "recv", id |-> id, res |-> res, cb |-> cb, s2s |-> s2s]
(* (resource binding exists on client-to-server streams only) *)
RecvScenarios(n) == {RecvScenario(i, r, c, FALSE) : i \in ReqIds, r \in ReqRes(n), c \in Callbacks}

ResText(sc) == IF sc.res = NoRes THEN <<>> ELSE sc.res
ExpRecv(sc) ==
  [id |-> sc.id,
   cbarg |-> ResText(sc),          \* the callback sees the requested resourcepart ("" if none)
   reply |-> CASE sc.cb \in {"requested", "chosen", "otheraccount"} -> "address"   \* the callback's address
               [] sc.cb = "random" -> "random"        \* peer's bare address + fresh non-empty resource
               [] sc.cb \in {"conflict", "not-allowed"} -> "stanzaerror"   \* the condition is relayed
               [] OTHER -> "none",
   cond |-> IF sc.cb \in {"conflict", "not-allowed"} THEN sc.cb ELSE "",
   (* ready only after an address was assigned; after a relayed stanza error the property *)
   (* does not say whether negotiation goes on                                             *)
   outcome |-> CASE sc.cb \in {"requested", "chosen", "otheraccount", "random"} -> "ready"
                 [] sc.cb = "failure" -> "error"
                 [] OTHER -> "any"]

(* ---------------------------------------------------------------- the machines *)
VARIABLES sc,      \* the scenario
          pc,
          req,     \* initiator: resourcepart written into the request / Unset
          addr,    \* initiator: what LocalAddr reports at the end ("own" until adopted)
          answer,  \* receiver: [id, kind, cond] written / NoAnswer
          cbarg,   \* receiver: what the callback was called with / Unset
          out      \* "none" | "ready" | "error"
vars == <<sc, pc, req, addr, answer, cbarg, out>>
Unset == <<0>>
NoAnswer == [id |-> <<>>, kind |-> "none", cond |-> ""]

Init(S) == /\ sc \in S /\ pc = (IF sc.role = "init" THEN "i_request" ELSE "r_receive")
           /\ req = Unset /\ addr = "own" /\ answer = NoAnswer /\ cbarg = Unset /\ out = "none"

Request == /\ pc = "i_request" /\ req' = MustRequest(sc) /\ pc' = "i_reply"
           /\ UNCHANGED <<sc, addr, answer, cbarg, out>>
Reply ==
  /\ pc = "i_reply" /\ pc' = "done"
  /\ CASE sc.kind = "result" -> addr' = sc.asg /\ out' = "ready"
       [] sc.kind = "result_nojid" -> \/ out' = "ready" /\ addr' \in {"own", "empty"}
                                      \/ out' = "error" /\ addr' = addr
       [] sc.kind = "wrongid" /\ "IgnoreId" \in Dev -> addr' = sc.asg /\ out' = "ready"
       [] OTHER -> out' = "error" /\ addr' = addr
  /\ UNCHANGED <<sc, req, answer, cbarg>>

Receive == /\ pc = "r_receive" /\ pc' = "r_callback" /\ UNCHANGED <<sc, req, addr, answer, cbarg, out>>
Callback == /\ pc = "r_callback" /\ pc' = "r_answer"
            /\ cbarg' = (IF sc.cb = "random" THEN Unset ELSE ResText(sc))
            /\ UNCHANGED <<sc, req, addr, answer, out>>
Answer ==
  /\ pc = "r_answer" /\ pc' = "done"
  /\ LET e == ExpRecv(sc) IN
     /\ answer' = (IF e.reply = "none" THEN NoAnswer ELSE [id |-> sc.id, kind |-> e.reply, cond |-> e.cond])
     /\ out' \in (IF e.outcome = "any" THEN {"ready", "error"} ELSE {e.outcome})
  /\ UNCHANGED <<sc, req, addr, cbarg>>

Next == Request \/ Reply \/ Receive \/ Callback \/ Answer
Spec(S) == Init(S) /\ [][Next]_vars

(* ---------------------------------------------------------------- properties *)
C12_BindRequestOwn == (sc.role = "init" /\ req # Unset) => req = sc.res
C12_BindAdoptAssigned ==
  (sc.role = "init" /\ out = "ready") =>
     /\ sc.kind \in {"result", "result_nojid"}
     /\ (sc.kind = "result" => addr = sc.asg)
C12_BindNoReadyOnError == (sc.role = "init" /\ out = "error") => addr = "own"
C12_BindAnswerId == answer # NoAnswer => answer.id = sc.id
C12_BindAnswerAddr ==
  (sc.role = "recv" /\ pc = "done") =>
     /\ (sc.cb \in {"requested", "chosen", "otheraccount", "random"} => answer # NoAnswer /\ out = "ready")
     /\ (sc.cb \in {"conflict", "not-allowed"} => answer # NoAnswer /\ answer.cond = sc.cb)
     /\ (sc.cb = "failure" => out = "error")
(* the expectation emitted for a scenario is what the machine does *)
C12_BindExpectation ==
  pc = "done" =>
    IF sc.role = "init"
    THEN LET e == ExpInit(sc) IN req = e.req /\ (e.outcome # "any" => out = e.outcome) /\ (out = "ready" /\ e.addr # "" => addr = e.addr)
    ELSE LET e == ExpRecv(sc) IN (e.outcome # "any" => out = e.outcome)
=============================================================================
