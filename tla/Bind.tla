------------------------------- MODULE Bind -------------------------------
(***************************************************************************)
(* Resource binding (RFC 6120 section 7), part (d) of property C12, both   *)
(* roles, one action per step of the Negotiate function in bind.go:        *)
(*                                                                         *)
(*   initiator: Request (the <iq type='set'><bind><resource/></bind></iq>) *)
(*              Reply   (decode the answer, compare id and type)           *)
(*              Adopt / Fail                                               *)
(*   receiver:  Receive (decode the request)                               *)
(*              Callback (BindCustom's function / the random default)      *)
(*              Answer                                                     *)
(*                                                                         *)
(* The property: the initiator asks for exactly the resourcepart of its    *)
(* own address (none if it has none) and afterwards reports the address    *)
(* the server assigned; an error reply, a reply with another id or type,   *)
(* or something that is not a well-formed bind reply never makes the       *)
(* session ready.  The receiver answers the request's id with the address  *)
(* chosen by the callback or with a fresh random resource on the peer's    *)
(* bare address, and relays the callback's stanza error.  A result that    *)
(* carries no address assigns nothing: the property is silent (both        *)
(* outcomes allowed).                                                      *)
(*                                                                         *)
(* A StreamFeature is a VALUE: a server builds its feature list once and   *)
(* negotiates every connection with it.  The last section models feature   *)
(* values that are shared by several (successive or overlapping) receiving *)
(* sessions: "a fresh random resource" means a resourcepart that no bind   *)
(* answered by this or any other feature value has handed out before, and  *)
(* the callback is asked once per bind about that session's own request.   *)
(***************************************************************************)
EXTENDS Integers, Sequences, FiniteSets, TLC

CONSTANTS MaxStr,  \* longest resourcepart (characters as in Header.tla: 1 letter, 2 ' 3 & 4 < 5 > 6 ")
          NSess,   \* sessions negotiated with shared feature values (design check; emission: 2..NSess)
          Dev

Chars == 1..6
Strs(n) == UNION {[1..k -> Chars] : k \in 0..n}

(* ---------------------------------------------------------------- initiator *)
(* what the peer may answer *)
ReplyKinds == {"result", "result_nojid", "error", "error_nochild", "wrongid", "get", "set",
               "notiq", "wrongns", "chardata", "eof", "badjid"}
(* the address a result assigns, relative to the initiator's own: its own address, its bare   *)
(* address with another resourcepart, or another account altogether                           *)
Assigned == {"own", "otherres", "otheraccount"}

InitScenario(res, kind, asg) == [role |-> "init", res |-> res, kind |-> kind, asg |-> asg]
InitScenarios(n) == {InitScenario(r, k, a) : r \in Strs(n), k \in ReplyKinds, a \in Assigned}

(* the resourcepart the request must carry (<resource/> absent or empty = none) *)
MustRequest(sc) == IF "DropResource" \in Dev THEN <<>> ELSE sc.res
(* the outcome the property allows *)
InitOutcome(sc) == CASE sc.kind = "result" -> "ready"
                     [] sc.kind = "result_nojid" -> "any"
                     [] OTHER -> "error"
ExpInit(sc) == [req |-> MustRequest(sc), outcome |-> InitOutcome(sc),
                addr |-> IF sc.kind = "result" THEN sc.asg ELSE ""]

(* ---------------------------------------------------------------- receiver *)
(* the request: its id (plain or with characters that need escaping), the resource asked for  *)
ReqIds == {<<1>>, <<1, 2, 3, 4, 6>>}
NoRes == <<0>>                               \* the request has no <resource/> element
ReqRes(n) == {NoRes} \cup Strs(n)           \* ... | its text
(* the application's callback: an address (the peer's bare address with the requested          *)
(* resourcepart or with one of its own choice, or another account), a stanza error, or         *)
(* any other error; "random" is BindResource's default                                         *)
Callbacks == {"requested", "chosen", "otheraccount", "conflict", "not-allowed", "failure", "random"}

RecvScenario(id, res, cb, s2s) == [role |-> "recv", id |-> id, res |-> res, cb |-> cb, s2s |-> s2s]
(* (resource binding exists on client-to-server streams only) *)
RecvScenarios(n) == {RecvScenario(i, r, c, FALSE) : i \in ReqIds, r \in ReqRes(n), c \in Callbacks}

ResText(sc) == IF sc.res = NoRes THEN <<>> ELSE sc.res
ExpRecv(sc) ==
  [id |-> sc.id,
   cbarg |-> ResText(sc),          \* the callback sees the requested resourcepart ("" if none)
   reply |-> CASE sc.cb \in {"requested", "chosen", "otheraccount"} -> "address"   \* the callback's address
               [] sc.cb = "random" -> "random"        \* peer's bare address + fresh non-empty resource
               [] sc.cb \in {"conflict", "not-allowed"} -> "stanzaerror"   \* the condition is relayed
               [] OTHER -> "none",
   cond |-> IF sc.cb \in {"conflict", "not-allowed"} THEN sc.cb ELSE "",
   (* ready only after an address was assigned; after a relayed stanza error the property *)
   (* does not say whether negotiation goes on                                             *)
   outcome |-> CASE sc.cb \in {"requested", "chosen", "otheraccount", "random"} -> "ready"
                 [] sc.cb = "failure" -> "error"
                 [] OTHER -> "any"]

(* ---------------------------------------------------------------- the machines *)
VARIABLES sc,      \* the scenario
          pc,
          req,     \* initiator: resourcepart written into the request / Unset
          addr,    \* initiator: what LocalAddr reports at the end ("own" until adopted)
          answer,  \* receiver: [id, kind, cond] written / NoAnswer
          cbarg,   \* receiver: what the callback was called with / Unset
          out,     \* "none" | "ready" | "error"
          sh       \* the shared-feature-value machine (last section) / NoShared
vars == <<sc, pc, req, addr, answer, cbarg, out, sh>>
NoShared == <<>>
Unset == <<0>>
NoAnswer == [id |-> <<>>, kind |-> "none", cond |-> ""]

Init(S) == /\ sc \in S /\ pc = (IF sc.role = "init" THEN "i_request" ELSE "r_receive")
           /\ req = Unset /\ addr = "own" /\ answer = NoAnswer /\ cbarg = Unset /\ out = "none"
           /\ sh = NoShared

Request == /\ pc = "i_request" /\ req' = MustRequest(sc) /\ pc' = "i_reply"
           /\ UNCHANGED <<sc, addr, answer, cbarg, out, sh>>
Reply ==
  /\ pc = "i_reply" /\ pc' = "done"
  /\ CASE sc.kind = "result" -> addr' = sc.asg /\ out' = "ready"
       [] sc.kind = "result_nojid" -> \/ out' = "ready" /\ addr' \in {"own", "empty"}
                                      \/ out' = "error" /\ addr' = addr
       [] sc.kind = "wrongid" /\ "IgnoreId" \in Dev -> addr' = sc.asg /\ out' = "ready"
       [] OTHER -> out' = "error" /\ addr' = addr
  /\ UNCHANGED <<sc, req, answer, cbarg, sh>>

Receive == /\ pc = "r_receive" /\ pc' = "r_callback" /\ UNCHANGED <<sc, req, addr, answer, cbarg, out, sh>>
Callback == /\ pc = "r_callback" /\ pc' = "r_answer"
            /\ cbarg' = (IF sc.cb = "random" THEN Unset ELSE ResText(sc))
            /\ UNCHANGED <<sc, req, addr, answer, out, sh>>
Answer ==
  /\ pc = "r_answer" /\ pc' = "done"
  /\ LET e == ExpRecv(sc) IN
     /\ answer' = (IF e.reply = "none" THEN NoAnswer ELSE [id |-> sc.id, kind |-> e.reply, cond |-> e.cond])
     /\ out' \in (IF e.outcome = "any" THEN {"ready", "error"} ELSE {e.outcome})
  /\ UNCHANGED <<sc, req, addr, cbarg, sh>>

Next == Request \/ Reply \/ Receive \/ Callback \/ Answer
Spec(S) == Init(S) /\ [][Next]_vars

(* ---------------------------------------------------------------- properties *)
C12_BindRequestOwn == (sc.role = "init" /\ req # Unset) => req = sc.res
C12_BindAdoptAssigned ==
  (sc.role = "init" /\ out = "ready") =>
     /\ sc.kind \in {"result", "result_nojid"}
     /\ (sc.kind = "result" => addr = sc.asg)
C12_BindNoReadyOnError == (sc.role = "init" /\ out = "error") => addr = "own"
C12_BindAnswerId == answer # NoAnswer => answer.id = sc.id
C12_BindAnswerAddr ==
  (sc.role = "recv" /\ pc = "done") =>
     /\ (sc.cb \in {"requested", "chosen", "otheraccount", "random"} => answer # NoAnswer /\ out = "ready")
     /\ (sc.cb \in {"conflict", "not-allowed"} => answer # NoAnswer /\ answer.cond = sc.cb)
     /\ (sc.cb = "failure" => out = "error")
(* the expectation emitted for a scenario is what the machine does *)
C12_BindExpectation ==
  pc = "done" =>
    IF sc.role = "init"
    THEN LET e == ExpInit(sc) IN req = e.req /\ (e.outcome # "any" => out = e.outcome) /\ (out = "ready" /\ e.addr # "" => addr = e.addr)
    ELSE LET e == ExpRecv(sc) IN (e.outcome # "any" => out = e.outcome)
(* ---------------------------------------------------------------- shared feature values *)
(* xmpp.BindResource() / xmpp.BindCustom(f) return a VALUE that the application puts into *)
(* a feature list; a server builds that list once and negotiates every connection it       *)
(* accepts with it, also several at a time.  Nothing that belongs to one bind may therefore *)
(* live in the feature value.  The machine below: feature values 1..Len(fk) (kinds: the     *)
(* random default of BindResource(), the same default of BindCustom(nil), an application   *)
(* callback), sessions 1..n, each negotiated with one of the feature values for one of two  *)
(* accounts, interleaved at will:                                                          *)
(*    SOpen(s)  header exchanged, <bind/> advertised, the session waits for the request    *)
(*    SBind(s)  request read, callback / random source consulted, answer written           *)
(* The random source hands out resourceparts from a finite pool; FRESH means: not handed   *)
(* out before by this feature value or any other (used).                                   *)
FeatKinds == {"random", "nil", "callback"}
DefaultKinds == {"random", "nil"}             \* no callback: the library chooses the resourcepart
Accounts == 1..2
Tokens(n) == 1..n                             \* what the random source can produce in n draws
NoAsg == [acct |-> 0, res |-> 0]
NoCall == <<0, 0>>

SharedInit(n) ==
  /\ sc = [role |-> "shared"] /\ pc = "shared"
  /\ req = Unset /\ addr = "own" /\ answer = NoAnswer /\ cbarg = Unset /\ out = "none"
  /\ \E nf \in 1..2 :
       sh \in [fk   : [1..nf -> FeatKinds],         \* the feature values and their kinds
               fres : {[f \in 1..nf |-> f]},          \* (Dev) a resourcepart drawn when the value was built
               sf   : [1..n -> 1..nf],               \* session -> the feature value it is negotiated with
               acct : [1..n -> Accounts],            \* session -> the authenticated account
               want : [1..n -> 0..1],                \* session -> requested resourcepart (0 = none)
               spc  : {[s \in 1..n |-> "idle"]},
               used : {{}},                          \* resourceparts handed out so far, by anybody
               asg  : {[s \in 1..n |-> NoAsg]},       \* session -> the address in the answer
               call : {[s \in 1..n |-> NoCall]}]      \* session -> what the callback was asked

SOpen(s) ==
  /\ sh.spc[s] = "idle"
  /\ sh' = [sh EXCEPT !.spc[s] = "open"]

(* the resourceparts a default bind of feature value f may assign *)
Draw(f) == IF "ResourcePerFeature" \in Dev THEN {sh.fres[f]}      \* chosen when the value was built
           ELSE Tokens(Len(sh.spc)) \ sh.used                      \* fresh
SBind(s) ==
  /\ sh.spc[s] = "open"
  /\ LET f == sh.sf[s] IN
     IF sh.fk[f] \in DefaultKinds
     THEN \E t \in Draw(f) :
            sh' = [sh EXCEPT !.spc[s] = "done", !.used = @ \cup {t},
                             !.asg[s] = [acct |-> sh.acct[s], res |-> t]]
     ELSE (* the application decides; the library's part is to ask it about THIS bind *)
          \E a \in Accounts :
            sh' = [sh EXCEPT !.spc[s] = "done", !.call[s] = <<sh.acct[s], sh.want[s]>>,
                             !.asg[s] = [acct |-> a, res |-> 0]]

SharedNext == /\ \E s \in DOMAIN sh.spc : SOpen(s) \/ SBind(s)
              /\ UNCHANGED <<sc, pc, req, addr, answer, cbarg, out>>
SharedSpec(n) == SharedInit(n) /\ [][SharedNext]_vars

IsDefault(s) == sh.fk[sh.sf[s]] \in DefaultKinds
Done(s) == sh.spc[s] = "done"
(* default binds never hand out the same resourcepart twice: not within a feature value,   *)
(* not across feature values, whatever the accounts and the interleaving                   *)
C12_BindFresh ==
  \A s, t \in DOMAIN sh.spc :
     (s # t /\ Done(s) /\ Done(t) /\ IsDefault(s) /\ IsDefault(t)) => sh.asg[s].res # sh.asg[t].res
(* ... on the bare address of the peer of THAT session *)
C12_BindOwnAccount == \A s \in DOMAIN sh.spc : (Done(s) /\ IsDefault(s)) => sh.asg[s].acct = sh.acct[s]
(* the callback is asked about that session's peer and request *)
C12_BindCallbackOwnArgs ==
  \A s \in DOMAIN sh.spc : (Done(s) /\ ~IsDefault(s)) => sh.call[s] = <<sh.acct[s], sh.want[s]>>

(* Scenarios for the driver: feature values (kinds as in Callbacks, "nil" = BindCustom(nil)), *)
(* sessions [f, acct, id, res] and a schedule: the k-th occurrence of s is SOpen(s) (k = 1) /  *)
(* SBind(s) (k = 2).                                                                           *)
SharedKinds == {"random", "nil", "requested", "chosen", "conflict"}
CbOf(kind) == IF kind = "nil" THEN "random" ELSE kind
Count(q, x) == Cardinality({i \in DOMAIN q : q[i] = x})
Scheds(k) == {q \in [1..(2 * k) -> 1..k] : \A s \in 1..k : Count(q, s) = 2}
Onto(k, nf) == {m \in [1..k -> 1..nf] : \A f \in 1..nf : \E s \in 1..k : m[s] = f}
IdOf(s) == IF s % 2 = 1 THEN <<1>> ELSE <<1, 2, 3, 4, 6>>
SharedScenario(feats, fv, accts, ress, sched) ==
  [role |-> "shared", feats |-> feats,
   sess |-> [s \in DOMAIN fv |-> [f |-> fv[s], acct |-> accts[s], id |-> IdOf(s), res |-> ress[s]]],
   sched |-> sched]
Seq4(a, b, c, d) == <<a, b, c, d>>
SharedScenarios(full) ==
  LET F1 == {<<k>> : k \in SharedKinds}
      F2 == {<<"random", "random">>, <<"random", "nil">>, <<"nil", "nil">>, <<"random", "requested">>}
      R  == {NoRes, <<1>>}
  IN (* two sessions: every interleaving, accounts, requests *)
     {SharedScenario(fs, fv, a, r, q) :
        fs \in F1 \cup F2, fv \in Onto(2, 2) \cup Onto(2, 1), a \in [1..2 -> Accounts], r \in [1..2 -> R], q \in Scheds(2)}
     (* three sessions: every interleaving *)
     \cup {SharedScenario(fs, fv, a, <<NoRes, <<1>>, NoRes>>, q) :
        fs \in (F1 \ {<<"conflict">>, <<"chosen">>}) \cup (F2 \ {<<"nil", "nil">>}),
        fv \in Onto(3, 2) \cup Onto(3, 1), a \in {x \in [1..3 -> Accounts] : x[1] = 1}, q \in Scheds(3)}
     (* four sessions: successive, all open before the first bind, nested; every interleaving in the thorough tier *)
     \cup {SharedScenario(fs, fv, a, <<NoRes, NoRes, <<1>>, <<1, 2>>>>, q) :
        fs \in {<<"random">>, <<"nil">>, <<"random", "nil">>}, fv \in {<<1, 1, 1, 1>>, <<1, 2, 1, 2>>},
        a \in {Seq4(1, 1, 1, 1), Seq4(1, 2, 1, 2), Seq4(1, 1, 2, 2)},
        q \in IF full THEN Scheds(4)
              ELSE {<<1, 1, 2, 2, 3, 3, 4, 4>>, <<1, 2, 3, 4, 1, 2, 3, 4>>, <<1, 2, 3, 4, 4, 3, 2, 1>>, <<1, 2, 2, 3, 1, 4, 4, 3>>}}
WellFormedShared(x) == \A s \in DOMAIN x.sess : x.sess[s].f \in DOMAIN x.feats
(* per session what ExpRecv says for its request and its feature value's callback; and the   *)
(* sessions whose assigned resourceparts must be pairwise distinct (C12_BindFresh)           *)
ExpShared(x) ==
  [per |-> [s \in DOMAIN x.sess |->
              ExpRecv(RecvScenario(x.sess[s].id, x.sess[s].res, CbOf(x.feats[x.sess[s].f]), FALSE))],
   fresh |-> [s \in DOMAIN x.sess |-> CbOf(x.feats[x.sess[s].f]) = "random"]]
=============================================================================
