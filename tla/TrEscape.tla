------------------------------ MODULE TrEscape ------------------------------
(* Pipeline C of C16: call-level traces recorded from the real jid.Escape / jid.Unescape     *)
(* (harness/cmd/escape) validated against the streaming machine of Escape.tla.               *)
(* Batch scheme of TrNegotiation: one initial state per trace, register t0 = furthest line.  *)
EXTENDS Escape, Json

Trace == ndJsonDeserialize("trace.ndjson")

VARIABLES l, t0
tvars == <<vars, l, t0>>

Starts == {i \in 1..Len(Trace) : Trace[i].ev = "reset"}
EndOf(i) == Trace[i].end

IsEv(e) == l < EndOf(t0) /\ Trace[l].ev = e /\ l' = l + 1

TInit ==
  /\ t0 \in Starts /\ l = t0
  /\ dir = "esc" /\ input = <<>> /\ pos = 0 /\ out = <<>> /\ st = "idle" /\ last = NoLast

TrReset ==
  /\ l = t0 /\ IsEv("reset")
  /\ dir' = Trace[l].dir /\ input' = Trace[l].input
  /\ UNCHANGED <<pos, out, st, last>>

(* Transform(dst[:cap], src[:k], eof) returned (nd, ns, err) and wrote the bytes w *)
TrXform ==
  /\ IsEv("xform")
  /\ LET e == Trace[l]
         c == [cap |-> e.cap, k |-> e.k, eof |-> e.eof]
     IN \E a \in Answers(dir, input, pos, c) :
          /\ a.q - 1 - pos = e.ns /\ Len(a.w) = e.nd /\ a.w = e.w /\ a.err = e.err
          /\ Xform(c, a)

TrSpan ==
  /\ IsEv("span")
  /\ LET e == Trace[l]
         c == [cap |-> 0, k |-> e.k, eof |-> e.eof]
     IN \E a \in SpanAnswers(dir, input, pos, c) :
          /\ a.q - 1 - pos = e.ns /\ a.err = e.err
          /\ SpanStep(c, a)

(* the interface returned: its result is the accumulated output and the transform is complete *)
TrEnd ==
  /\ IsEv("end") /\ st = "done" /\ Trace[l].out = out
  /\ UNCHANGED vars

(* Every state invariant of the design check must also hold along real traces.  Inv is a    *)
(* guard on the current state (not Inv'): TLC does not cache lazily evaluated operator       *)
(* arguments inside primed expressions, which makes the recursive operators exponential.     *)
(* Every trace ends with an "end" event that leaves vars unchanged, so every state is seen.  *)
TNext ==
  /\ l < EndOf(t0)
  /\ Inv
  /\ \/ TrReset \/ TrXform \/ TrSpan \/ TrEnd
  /\ UNCHANGED t0

TSpec == TInit /\ [][TNext]_tvars

HW == TLCSet(t0, IF TLCGet(t0) < l THEN l ELSE TLCGet(t0))
Rejected == {i \in Starts : TLCGet(i) # EndOf(i)}
Accepted ==
  \/ Rejected = {}
  \/ PrintT(<<"REJECTED", {<<Trace[i].t, TLCGet(i)>> : i \in Rejected}>>) /\ FALSE
ASSUME \A i \in Starts : TLCSet(i, 0)
=============================================================================
