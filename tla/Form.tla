-------------------------------- MODULE Form --------------------------------
(* C19 - life cycle of a data form (mellium.im/xmpp/form): a form is built from field *)
(* constructors of every type, then the caller applies any sequence of                *)
(*   Set(var, value of any Go type) / Get(var) / Raw(var) / Submit / TokenReader /    *)
(*   Unmarshal(ty) (decode a document: the form's own encoding whose type attribute   *)
(*   is form / result / submit / cancel, missing, or not one of the four).            *)
(* A form obtained by decoding is a form like any other: EVERY operation applies to   *)
(* it whatever its type, and the same laws hold (the actions below do not look at the *)
(* form's type, except for what the form's own encoding contains).                    *)
(* The specification states what the documented API promises:                         *)
(*   - nothing panics;                                                                *)
(*   - Set succeeds iff the value's Go type fits the field's type (a fixed field can  *)
(*     never be set; an unknown variable is stored, reported with ok = false);        *)
(*   - Get after Set returns the value; Get of an unset field returns the default     *)
(*     derived from the field's own values;                                           *)
(*   - Raw is not changed by Set;                                                     *)
(*   - Submit is ok iff every required field has a value, and carries exactly the     *)
(*     fields that have a value (or are required), each with its value normalised per *)
(*     field type, in field order.                                                    *)
(* Values are typed: [k : kind, v : sequence of symbols]. Symbols as in Stanza.tla.   *)
EXTENDS Codec

CONSTANT MaxOps

VARIABLES cfg,     \* sequence of field descriptors [ft, var, req, def]
          vals,    \* var -> typed value or NoVal (also for variables that are no field)
          nops,    \* operations applied so far
          last,    \* what the last operation returned (observation, for the properties)
          ftype    \* the type of the form held: "form" from form.New, else the type of the decoded document
fvars == <<cfg, vals, nops, last, ftype>>

(* the type attribute of a decoded document: the four types of XEP-0004, no attribute *)
(* at all (lenient peers), a value that is none of the four (wrong case)              *)
ValidTypes == {"form", "result", "submit", "cancel"}
FormTypes == ValidTypes \cup {"missing", "unknown"}
DocTypeAttr == [form |-> <<"form">>, result |-> <<"result">>, submit |-> <<"submit">>, cancel |-> <<"cancel">>,
                missing |-> <<>>, unknown |-> <<"FORM">>]

TV(k, v) == [k |-> k, v |-> v]
NoVal == TV("unset", <<>>)
Nil == TV("nil", <<>>)
(* the Go values offered to Set: bool, string, jid.JID, []jid.JID, []string, and an int (fits nothing) *)
SetValues == {TV("bool", <<"S_true">>), TV("bool", <<"S_false">>),
              TV("string", <<"S_empty">>), TV("string", <<"S_a">>), TV("string", <<"S_xml">>),
              TV("string", <<"S_anb">>), TV("string", <<"S_nl">>), TV("string", <<"S_crlf">>),
              TV("jid", <<"J_fullx">>), TV("jid", <<"J_zero">>),
              TV("jids", <<>>), TV("jids", <<"J_bare", "J_full">>),
              TV("strings", <<>>), TV("strings", <<"S_a", "S_empty", "S_xml">>),
              TV("int", <<"N_7">>)}

F(ft, var, req, def) == [ft |-> ft, var |-> var, req |-> req, def |-> def]
Configs == {
  <<F("boolean", "vb", FALSE, <<>>), F("text-single", "vt", FALSE, <<"S_a">>), F("text-multi", "vm", TRUE, <<>>)>>,
  <<F("fixed", "", FALSE, <<"S_a">>), F("jid-single", "vj", TRUE, <<>>), F("jid-multi", "vjm", FALSE, <<"S_jbare">>),
    F("list-multi", "vlm", FALSE, <<"S_a", "S_b">>), F("list-single", "vls", FALSE, <<>>)>>,
  <<F("hidden", "vh", FALSE, <<"S_a">>), F("text-private", "vp", FALSE, <<>>), F("boolean", "vb", TRUE, <<"S_1">>),
    F("text-multi", "vm", FALSE, <<"S_a", "S_b">>)>>,
  <<>>}                                 \* a form without fields (form.New(), a cancellation, an empty result)
Vars == {"vb", "vt", "vm", "vj", "vjm", "vlm", "vls", "vh", "vp", "nofield", ""}   \* "" is the name of a fixed field

FieldOf(c, var) == IF \E i \in 1..Len(c) : c[i].var = var
                   THEN <<c[CHOOSE i \in 1..Len(c) : c[i].var = var /\ \A j \in 1..(i - 1) : c[j].var # var]>> ELSE <<>>
IsField(c, var) == FieldOf(c, var) # <<>>

(* which Go type a field type accepts (form.Data.Set) *)
Fits(ft, k) ==
  CASE ft = "boolean" -> k = "bool"
    [] ft \in {"text-single", "text-private", "hidden", "list-single", "text-multi"} -> k = "string"
    [] ft = "jid-single" -> k = "jid"
    [] ft = "jid-multi" -> k = "jids"
    [] ft = "list-multi" -> k = "strings"
    [] OTHER -> FALSE                                   \* fixed: "cannot set fixed field"

JidStr(j) == SymOf(JidSym[j])                            \* the string form of an address symbol
IsJidStr(sy) == \E j \in DOMAIN JidSym : JidSym[j] = StrSym[sy] /\ JidSym[j] # <<>>
JidOfStr(sy) == CHOOSE j \in DOMAIN JidSym : JidSym[j] = StrSym[sy]
TrueStr == {"S_true", "S_1"}
FalseStr == {"S_false", "S_0"}

(* the default of an unset field, derived from the field's own values (form.Data.Get) *)
Default(f) ==
  CASE f.ft = "boolean" ->
         LET ok == SelectSeq(f.def, LAMBDA x : x \in TrueStr \cup FalseStr)
         IN IF ok = <<>> THEN NoVal ELSE TV("bool", <<IF ok[1] \in TrueStr THEN "S_true" ELSE "S_false">>)
    [] f.ft \in {"text-single", "text-private", "hidden", "list-single"} ->
         IF f.def = <<>> THEN NoVal ELSE TV("string", <<f.def[1]>>)
    [] f.ft = "jid-single" ->
         LET ok == SelectSeq(f.def, IsJidStr) IN IF ok = <<>> THEN NoVal ELSE TV("jid", <<JidOfStr(ok[1])>>)
    [] f.ft = "jid-multi" ->
         LET ok == SelectSeq(f.def, IsJidStr) IN IF ok = <<>> THEN NoVal ELSE TV("jids", [i \in 1..Len(ok) |-> JidOfStr(ok[i])])
    [] f.ft = "text-multi" ->
         IF f.def = <<>> THEN NoVal ELSE TV("string", <<SymOf(JoinNL([i \in 1..Len(f.def) |-> Cps(f.def[i])]))>>)
    [] f.ft = "list-multi" -> IF f.def = <<>> THEN NoVal ELSE TV("strings", f.def)
    [] OTHER -> NoVal                                   \* fixed: "A submission of type fixed has no value."

(* Get(var): the set value, else the default of the field, else nothing *)
GetVal(c, vs, var) ==
  IF vs[var] # NoVal THEN vs[var]
  ELSE IF IsField(c, var) THEN Default(FieldOf(c, var)[1]) ELSE NoVal

(* the <value/> elements a typed value becomes in a submission, per field type *)
LinesOf(sy) == LET ls == SplitLines(Cps(sy), <<>>) IN [i \in 1..Len(ls) |-> SymOf(ls[i])]
SubVals(ft, tv) ==
  CASE tv.k = "bool" -> tv.v
    [] tv.k = "string" -> IF ft = "text-multi" THEN LinesOf(tv.v[1]) ELSE tv.v
    [] tv.k = "jid" -> IF tv.v[1] = "J_zero" THEN <<"S_empty">> ELSE <<JidStr(tv.v[1])>>
    [] tv.k = "jids" -> [i \in 1..Len(tv.v) |-> JidStr(tv.v[i])]
    [] tv.k = "strings" -> tv.v
    [] OTHER -> <<>>
(* empty values may or may not be written (the property is silent): both accepted *)
AccVals(ft, tv) == {SubVals(ft, tv), NonEmpty(SubVals(ft, tv))}

(* the fields of a submission: not fixed, and (has a value or is required) *)
Submitted(c, vs) == SelectSeq(c, LAMBDA f : f.ft # "fixed" /\ (GetVal(c, vs, f.var) # NoVal \/ f.req))
SubmitOK(c, vs) == \A i \in 1..Len(c) : c[i].req => GetVal(c, vs, c[i].var) # NoVal
(* acceptable value lists of the i-th submitted field *)
SubmitAcc(c, vs, f) ==
  IF GetVal(c, vs, f.var) # NoVal THEN AccVals(f.ft, GetVal(c, vs, f.var))
  ELSE {f.def, NonEmpty(f.def)}                         \* required but without a value: sent as it is

(* re-decoding the form from its own encoding keeps the fields (defaults normalised as *)
(* in Codec.tla FieldNorms) and forgets the values that were set                       *)
DefNorm(f) == LET ne == NonEmpty(f.def) IN IF KeepsAll(f.ft) \/ Len(ne) <= 1 THEN ne ELSE <<ne[1]>>
Redecoded(c) == [i \in 1..Len(c) |-> [c[i] EXCEPT !.def = DefNorm(c[i])]]
(* A form of type submit IS a submission: its own encoding may be the submission of   *)
(* its fields (what Submit returns: the fields that have a value or are required,     *)
(* each with its value; <required/> is not needed in a submission) or all fields as   *)
(* they are - the property does not say which, both are accepted.                     *)
RECURSIVE SeqProd(_)
SeqProd(ss) == IF ss = <<>> THEN {<<>>} ELSE {<<h>> \o t : h \in ss[1], t \in SeqProd(Tail(ss))}
SubmissionForms(c, vs) ==
  LET sub == Submitted(c, vs)
  IN SeqProd([i \in 1..Len(sub) |->
                {[sub[i] EXCEPT !.def = d, !.req = r] : d \in SubmitAcc(c, vs, sub[i]), r \in {sub[i].req, FALSE}}])
OwnEncodings(c, vs, ty) == {Redecoded(c)} \cup (IF ty = "submit" THEN SubmissionForms(c, vs) ELSE {})

(* ------------------------------------------------------------------ actions *)
Init == cfg \in Configs /\ vals = [v \in Vars |-> NoVal] /\ nops = 0 /\ last = [op |-> "new"] /\ ftype = "form"

Set(var, tv) ==
  /\ nops < MaxOps
  /\ LET isf == IsField(cfg, var)
         fits == IF isf THEN Fits(FieldOf(cfg, var)[1].ft, tv.k) ELSE TRUE
     IN /\ vals' = IF fits THEN [vals EXCEPT ![var] = tv] ELSE vals
        /\ last' = [op |-> "set", var |-> var, tv |-> tv, ok |-> isf /\ fits, err |-> ~fits]
  /\ nops' = nops + 1 /\ UNCHANGED <<cfg, ftype>>

Get(var) ==
  /\ nops < MaxOps
  /\ LET g == GetVal(cfg, vals, var) IN last' = [op |-> "get", var |-> var, ok |-> g # NoVal, tv |-> g]
  /\ nops' = nops + 1 /\ UNCHANGED <<cfg, vals, ftype>>

Raw(var) ==
  /\ nops < MaxOps
  /\ last' = [op |-> "raw", var |-> var, ok |-> IsField(cfg, var),
              v |-> IF IsField(cfg, var) THEN FieldOf(cfg, var)[1].def ELSE <<>>]
  /\ nops' = nops + 1 /\ UNCHANGED <<cfg, vals, ftype>>

Submit ==
  /\ nops < MaxOps
  /\ last' = [op |-> "submit", ok |-> SubmitOK(cfg, vals), fields |-> Submitted(cfg, vals)]
  /\ nops' = nops + 1 /\ UNCHANGED <<cfg, vals, ftype>>

Encode ==            \* TokenReader of the form itself: no effect, must be well-formed
  /\ nops < MaxOps /\ last' = [op |-> "tokenreader"] /\ nops' = nops + 1 /\ UNCHANGED <<cfg, vals, ftype>>

(* decode the form's own encoding with the type attribute of ty: the result is a form *)
(* of that type with the same fields and no values                                    *)
Unmarshal(ty) ==
  /\ nops < MaxOps
  /\ cfg' \in OwnEncodings(cfg, vals, ftype) /\ vals' = [v \in Vars |-> NoVal] /\ ftype' = ty
  /\ last' = [op |-> "unmarshal", ty |-> ty, ok |-> TRUE] /\ nops' = nops + 1
(* "unmarshalling arbitrary XML returns a value or an error": a document whose type is *)
(* none of the four defined ones may be refused; the caller keeps the form it had      *)
UnmarshalRefused(ty) ==
  /\ nops < MaxOps /\ ty \notin ValidTypes
  /\ last' = [op |-> "unmarshal", ty |-> ty, ok |-> FALSE] /\ nops' = nops + 1 /\ UNCHANGED <<cfg, vals, ftype>>

Next == (\E var \in Vars, tv \in SetValues : Set(var, tv)) \/ (\E var \in Vars : Get(var) \/ Raw(var))
        \/ Submit \/ Encode \/ (\E ty \in FormTypes : Unmarshal(ty) \/ UnmarshalRefused(ty))
Spec == Init /\ [][Next]_fvars

(* ------------------------------------------------------------------ properties (design check) *)
TypeOK == /\ \A v \in Vars : vals[v] \in SetValues \cup {NoVal}
          /\ nops \in 0..MaxOps /\ ftype \in FormTypes
(* a stored value always fits its field: Set succeeds iff the type fits *)
C19_StoredFits == \A v \in Vars : (vals[v] # NoVal /\ IsField(cfg, v)) => Fits(FieldOf(cfg, v)[1].ft, vals[v].k)
C19_SetIffFits == last.op = "set" =>
                    /\ (last.err <=> (IsField(cfg, last.var) /\ ~Fits(FieldOf(cfg, last.var)[1].ft, last.tv.k)))
                    /\ (last.ok <=> (IsField(cfg, last.var) /\ ~last.err))
                    /\ (~last.err => vals[last.var] = last.tv)
(* Get after Set returns the value *)
C19_GetAfterSet == \A v \in Vars : vals[v] # NoVal => GetVal(cfg, vals, v) = vals[v]
C19_GetReportsIt == last.op = "get" => (last.ok <=> last.tv # NoVal)
(* a fixed field is never set and never submitted; a submission names only fields with a value or required *)
C19_SubmitShape == last.op = "submit" =>
                     /\ \A i \in 1..Len(last.fields) : last.fields[i].ft # "fixed"
                     /\ (last.ok <=> \A i \in 1..Len(cfg) : cfg[i].req => GetVal(cfg, vals, cfg[i].var) # NoVal)
                     /\ \A i \in 1..Len(cfg) : (vals[cfg[i].var] # NoVal /\ cfg[i].ft # "fixed")
                                                  => \E j \in 1..Len(last.fields) : last.fields[j] = cfg[i]
(* every submitted value list consists of symbols (the normal forms exist in the symbol table) *)
C19_SubmitValuesDefined == \A i \in 1..Len(cfg) :
                             \A vs \in SubmitAcc(cfg, vals, cfg[i]) : \A k \in 1..Len(vs) : vs[k] \in DOMAIN StrSym
(* Set never changes the fields; only Unmarshal does, and it is idempotent *)
C19_FieldsStable == [][(last'.op # "unmarshal" => cfg' = cfg) /\ (Redecoded(Redecoded(cfg)) = Redecoded(cfg))]_fvars
(* only decoding changes the type of the form held; decoding forgets the values; a refused document changes nothing *)
C19_TypeStable == [][/\ (last'.op # "unmarshal" => ftype' = ftype)
                     /\ (last'.op = "unmarshal" =>
                           IF last'.ok THEN ftype' = last'.ty /\ \A v \in Vars : vals'[v] = NoVal
                           ELSE ftype' = ftype /\ cfg' = cfg /\ vals' = vals)]_fvars
(* the laws of Set / Get hold for a decoded form of every type: every (type, operation) pair is reachable *)
C19_DecodedFormsUsable == \A v \in Vars : (vals[v] # NoVal /\ ftype # "form") => GetVal(cfg, vals, v) = vals[v]
=============================================================================
