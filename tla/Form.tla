-------------------------------- MODULE Form --------------------------------
(* C19 - life cycle of a data form (mellium.im/xmpp/form): a form is built from field *)
(* constructors of every type, then the caller applies any sequence of                *)
(*   Set(var, value of any Go type) / Get(var) / Raw(var) / Submit / TokenReader /    *)
(*   Unmarshal(ty) (decode a document: the form's own encoding whose type attribute   *)
(*   is form / result / submit / cancel, missing, or not one of the four).            *)
(* A form obtained by decoding is a form like any other: EVERY operation applies to   *)
(* it whatever its type, and the same laws hold (the actions below do not look at the *)
(* form's type, except for what the form's own encoding contains).                    *)
(* The specification states what the documented API promises:                         *)
(*   - nothing panics;                                                                *)
(*   - Set succeeds iff the value's Go type fits the field's type (a fixed field can  *)
(*     never be set; an unknown variable is stored, reported with ok = false);        *)
(*   - Get after Set returns the value; Get of an unset field returns the default     *)
(*     derived from the field's own values;                                           *)
(*   - Raw is not changed by Set;                                                     *)
(*   - Submit is ok iff every required field has a value, and carries exactly the     *)
(*     fields that have a value (or are required), each with its value normalised per *)
(*     field type, in field order.                                                    *)
(* Values are typed: [k : kind, v : sequence of symbols]. Symbols as in Stanza.tla.   *)
(*                                                                                    *)
(* AMBIGUOUS VARIABLES.  XEP-0004 asks for a var that is unique within the form, but  *)
(* nothing stops a peer from sending two fields with one var (of the same or of       *)
(* different types), and the field constructors accept it as well.  The documentation *)
(* of the package speaks of "the form field" with that name and says nothing for this *)
(* case, so for a variable that names several fields the specification only demands   *)
(* what holds under EVERY reading: no operation panics; Set fails if the value fits   *)
(* none of the fields of that name and succeeds if it fits all of them; Get after a   *)
(* successful Set returns the value; Raw returns the values of one of them; a fixed   *)
(* field is never submitted; the submission is well-formed and of type submit.  What  *)
(* an unset ambiguous variable defaults to, and whether and with what values the      *)
(* fields of that name appear in a submission, is left open.  Every law about the     *)
(* OTHER variables of the same form holds unchanged.  Each action takes what the      *)
(* operation returned as a parameter and states whether that is acceptable; the       *)
(* design check draws the parameter from a finite set of candidates, the trace        *)
(* specification (TrForm) takes it from the recorded event.                           *)
(*                                                                                    *)
(* deviations (Dev), each must make the design check fail:                            *)
(*   "ScannerLimit"      the lines of a submitted text-multi value are cut with a     *)
(*                       scanner whose longest token is 65535 bytes: the long line    *)
(*                       and everything after it is lost (C19_SubmitLossless);        *)
(*   "EncodeByFieldType" a submission converts the value looked up by NAME with the   *)
(*                       Go type that goes with the field's OWN type: a panic when a  *)
(*                       field is shadowed by one of another kind (C19_NoPanic).      *)
EXTENDS Codec

CONSTANT MaxOps

VARIABLES cfg,     \* sequence of field descriptors [ft, var, req, def]
          vals,    \* var -> typed value or NoVal (also for variables that are no field)
          nops,    \* operations applied so far
          last,    \* what the last operation returned (observation, for the properties)
          ftype    \* the type of the form held: "form" from form.New, else the type of the decoded document
fvars == <<cfg, vals, nops, last, ftype>>

(* the type attribute of a decoded document: the four types of XEP-0004, no attribute *)
(* at all (lenient peers), a value that is none of the four (wrong case)              *)
ValidTypes == {"form", "result", "submit", "cancel"}
FormTypes == ValidTypes \cup {"missing", "unknown"}
DocTypeAttr == [form |-> <<"form">>, result |-> <<"result">>, submit |-> <<"submit">>, cancel |-> <<"cancel">>,
                missing |-> <<>>, unknown |-> <<"FORM">>]

TV(k, v) == [k |-> k, v |-> v]
NoVal == TV("unset", <<>>)
Nil == TV("nil", <<>>)
Undef == TV("undefined", <<>>)      \* the specification has no name for the value (texts outside the symbol table)
(* the Go values offered to Set: bool, string, jid.JID, []jid.JID, []string, and an int (fits nothing); *)
(* strings also at the length boundaries: one long line, a long line among / before short lines, many   *)
(* short lines (Stanza.tla LongSym)                                                                      *)
FormLongs == {"L_4096", "L_65535", "L_65536", "L_a_65536_b", "L_65536_a_b", "L_many"}
SetValues == {TV("bool", <<"S_true">>), TV("bool", <<"S_false">>),
              TV("string", <<"S_empty">>), TV("string", <<"S_a">>), TV("string", <<"S_xml">>),
              TV("string", <<"S_anb">>), TV("string", <<"S_nl">>), TV("string", <<"S_crlf">>),
              TV("jid", <<"J_fullx">>), TV("jid", <<"J_zero">>),
              TV("jids", <<>>), TV("jids", <<"J_bare", "J_full">>),
              TV("strings", <<>>), TV("strings", <<"S_a", "S_empty", "S_xml">>), TV("strings", <<"S_a", "L_65536">>),
              TV("int", <<"N_7">>)}
             \cup {TV("string", <<l>>) : l \in FormLongs}

F(ft, var, req, def) == [ft |-> ft, var |-> var, req |-> req, def |-> def]
Configs == {
  <<F("boolean", "vb", FALSE, <<>>), F("text-single", "vt", FALSE, <<"S_a">>), F("text-multi", "vm", TRUE, <<>>)>>,
  <<F("fixed", "", FALSE, <<"S_a">>), F("jid-single", "vj", TRUE, <<>>), F("jid-multi", "vjm", FALSE, <<"S_jbare">>),
    F("list-multi", "vlm", FALSE, <<"S_a", "S_b">>), F("list-single", "vls", FALSE, <<>>)>>,
  <<F("hidden", "vh", FALSE, <<"S_a">>), F("text-private", "vp", FALSE, <<>>), F("boolean", "vb", TRUE, <<"S_1">>),
    F("text-multi", "vm", FALSE, <<"S_a", "S_b">>)>>,
  <<>>,                                 \* a form without fields (form.New(), a cancellation, an empty result)
  \* defaults at a length boundary: a long line among the lines of a text-multi field, a long single value
  <<F("text-multi", "vm", FALSE, <<"S_a", "L_65536", "S_b">>), F("text-single", "vt", TRUE, <<"L_65536">>)>>,
  \* ambiguous variables: two fields of one name whose types take DIFFERENT Go values, in both orders, with and
  \* without defaults, required or not; next to them a field with a name of its own
  <<F("boolean", "d1", FALSE, <<"S_1">>), F("text-single", "d1", TRUE, <<>>),
    F("jid-single", "d2", FALSE, <<"S_jfull">>), F("jid-multi", "d2", FALSE, <<>>)>>,
  <<F("text-single", "d1", TRUE, <<"S_a">>), F("boolean", "d1", FALSE, <<>>),
    F("list-multi", "d2", FALSE, <<"S_a", "S_b">>), F("list-single", "d2", FALSE, <<>>), F("text-single", "u", TRUE, <<>>)>>,
  <<F("text-multi", "d1", TRUE, <<>>), F("list-multi", "d1", FALSE, <<>>),
    F("hidden", "d2", FALSE, <<"S_a">>), F("jid-single", "d2", FALSE, <<>>)>>,
  \* two fixed fields (both have the empty name: legal and common), a name shared by THREE fields, a name shared
  \* by two fields of the SAME type
  <<F("fixed", "", FALSE, <<"S_a">>), F("fixed", "", FALSE, <<"S_b">>),
    F("text-multi", "d1", FALSE, <<"S_a", "S_b">>), F("jid-multi", "d1", TRUE, <<"S_jbare">>), F("boolean", "d1", FALSE, <<>>),
    F("text-single", "d2", FALSE, <<"S_a">>), F("text-single", "d2", TRUE, <<"S_b">>)>>}
Vars == {"vb", "vt", "vm", "vj", "vjm", "vlm", "vls", "vh", "vp", "d1", "d2", "u", "nofield", ""}   \* "" is the name of a fixed field
(* the variables an operation is applied to: the form's own and one that names no field (every other name behaves like it) *)
VarsOf(c) == {c[i].var : i \in 1..Len(c)} \cup {"nofield"}

Named(c, var) == {i \in 1..Len(c) : c[i].var = var}
IsField(c, var) == Named(c, var) # {}
Amb(c, var) == Cardinality(Named(c, var)) > 1
TheField(c, var) == c[CHOOSE i \in Named(c, var) : TRUE]        \* of a variable that names exactly one field

(* which Go type a field type accepts (form.Data.Set) *)
Fits(ft, k) ==
  CASE ft = "boolean" -> k = "bool"
    [] ft \in {"text-single", "text-private", "hidden", "list-single", "text-multi"} -> k = "string"
    [] ft = "jid-single" -> k = "jid"
    [] ft = "jid-multi" -> k = "jids"
    [] ft = "list-multi" -> k = "strings"
    [] OTHER -> FALSE                                   \* fixed: "cannot set fixed field"

JidStr(j) == SymOf(JidSym[j])                            \* the string form of an address symbol
IsJidStr(sy) == sy \in DOMAIN StrSym /\ \E j \in DOMAIN JidSym : JidSym[j] = StrSym[sy] /\ JidSym[j] # <<>>
JidOfStr(sy) == CHOOSE j \in DOMAIN JidSym : JidSym[j] = StrSym[sy]
TrueStr == {"S_true", "S_1"}
FalseStr == {"S_false", "S_0"}

(* the field's own values are texts the symbol table has no name for: the specification cannot say what Get returns *)
DefUndef(f) == (\E i \in 1..Len(f.def) : ~Known(f.def[i]))
               \/ (f.ft = "text-multi" /\ Len(f.def) > 1 /\ JoinSyms(f.def, 10) = "S_undefined")
(* the default of an unset field, derived from the field's own values (form.Data.Get) *)
Default(f) ==
  IF DefUndef(f) THEN Undef ELSE
  CASE f.ft = "boolean" ->
         LET ok == SelectSeq(f.def, LAMBDA x : x \in TrueStr \cup FalseStr)
         IN IF ok = <<>> THEN NoVal ELSE TV("bool", <<IF ok[1] \in TrueStr THEN "S_true" ELSE "S_false">>)
    [] f.ft \in {"text-single", "text-private", "hidden", "list-single"} ->
         IF f.def = <<>> THEN NoVal ELSE TV("string", <<f.def[1]>>)
    [] f.ft = "jid-single" ->
         LET ok == SelectSeq(f.def, IsJidStr) IN IF ok = <<>> THEN NoVal ELSE TV("jid", <<JidOfStr(ok[1])>>)
    [] f.ft = "jid-multi" ->
         LET ok == SelectSeq(f.def, IsJidStr) IN IF ok = <<>> THEN NoVal ELSE TV("jids", [i \in 1..Len(ok) |-> JidOfStr(ok[i])])
    [] f.ft = "text-multi" ->
         IF f.def = <<>> THEN NoVal ELSE TV("string", <<JoinSyms(f.def, 10)>>)
    [] f.ft = "list-multi" -> IF f.def = <<>> THEN NoVal ELSE TV("strings", f.def)
    [] OTHER -> NoVal                                   \* fixed: "A submission of type fixed has no value."

(* A field is FREE where the specification cannot or must not say what Get returns for its name: the name is *)
(* ambiguous, or the field's own values are texts without a name (only after decoding a submission that      *)
(* held fields of an ambiguous name)                                                                          *)
Free(c, i) == Amb(c, c[i].var) \/ DefUndef(c[i])
FreeVar(c, var) == \E i \in Named(c, var) : Free(c, i)

(* Get(var) for a variable that is not free: the set value, else the default of the field, else nothing *)
GetVal(c, vs, var) ==
  IF vs[var] # NoVal THEN vs[var]
  ELSE IF IsField(c, var) THEN Default(TheField(c, var)) ELSE NoVal

(* ---- Set: may the call report this error? *)
SetErrs(c, var, tv) ==
  LET N == Named(c, var) IN
  IF N = {} THEN {FALSE}                                           \* "It is permitted to send back fields that did not exist"
  ELSE IF \A i \in N : Fits(c[i].ft, tv.k) THEN {FALSE}
  ELSE IF \A i \in N : ~Fits(c[i].ft, tv.k) THEN {TRUE} ELSE BOOLEAN   \* fits some of the fields of that name only
(* ---- Get: may the call return res (NoVal: ok = false)? *)
GetOK(c, vs, var, res) ==
  IF vs[var] # NoVal THEN res = vs[var]
  ELSE IF FreeVar(c, var) THEN TRUE
  ELSE res = GetVal(c, vs, var)
GetCands(c, vs, var) ==
  IF vs[var] # NoVal THEN {vs[var]}
  ELSE IF IsField(c, var) THEN ({Default(c[i]) : i \in Named(c, var)} \ {Undef}) \cup (IF FreeVar(c, var) THEN {NoVal} ELSE {})
  ELSE {NoVal}
(* ---- Raw: the values of a field of that name as they are *)
RawOK(c, var, res) == IF IsField(c, var) THEN \E i \in Named(c, var) : res = c[i].def ELSE res = <<>>
RawCands(c, var) == IF IsField(c, var) THEN {c[i].def : i \in Named(c, var)} ELSE {<<>>}

(* the <value/> elements a typed value becomes in a submission, per field type *)
(* deviation ScannerLimit: a line of 65536 bytes or more ends the scan *)
RECURSIVE ScanPrefix(_, _)
ScanPrefix(ls, i) == IF i > Len(ls) \/ SymBytes(ls[i]) >= 65536 THEN <<>> ELSE <<ls[i]>> \o ScanPrefix(ls, i + 1)
LinesOf(sy) == IF "ScannerLimit" \in Dev THEN ScanPrefix(LineSyms(sy), 1) ELSE LineSyms(sy)
SubVals(ft, tv) ==
  CASE tv.k = "bool" -> tv.v
    [] tv.k = "string" -> IF ft = "text-multi" THEN LinesOf(tv.v[1]) ELSE tv.v
    [] tv.k = "jid" -> IF tv.v[1] = "J_zero" THEN <<"S_empty">> ELSE <<JidStr(tv.v[1])>>
    [] tv.k = "jids" -> [i \in 1..Len(tv.v) |-> JidStr(tv.v[i])]
    [] tv.k = "strings" -> tv.v
    [] OTHER -> <<>>
(* empty values may or may not be written (the property is silent): both accepted *)
AccVals(ft, tv) == {SubVals(ft, tv), NonEmpty(SubVals(ft, tv))}

(* ---- Submit.  idx: the fields of the submission as indices into cfg, in order. *)
(* A field that is not free is submitted iff it is not fixed and (has a value or is required); a free field *)
(* that is not fixed may or may not be there.                                                                *)
HasVal(c, vs, i) == GetVal(c, vs, c[i].var) # NoVal
MustSubmit(c, vs, i) == ~Free(c, i) /\ c[i].ft # "fixed" /\ (HasVal(c, vs, i) \/ c[i].req)
MaySubmit(c, vs, i) == c[i].ft # "fixed" /\ (Free(c, i) \/ HasVal(c, vs, i) \/ c[i].req)
RECURSIVE Asc(_, _)
Asc(lo, hi) == IF lo > hi THEN {<<>>} ELSE Asc(lo + 1, hi) \cup {<<lo>> \o s : s \in Asc(lo + 1, hi)}
IdxOK(c, vs, idx) ==
  /\ \A k \in 1..(Len(idx) - 1) : idx[k] < idx[k + 1]
  /\ \A k \in 1..Len(idx) : idx[k] \in 1..Len(c) /\ MaySubmit(c, vs, idx[k])
  /\ \A i \in 1..Len(c) : MustSubmit(c, vs, i) => \E k \in 1..Len(idx) : idx[k] = i
(* "If a value has not been set for all required fields ok will be false": decided by the fields that are *)
(* not free; open as soon as a free field is required                                                     *)
SubmitOKs(c, vs) ==
  IF \E i \in 1..Len(c) : ~Free(c, i) /\ c[i].req /\ ~HasVal(c, vs, i) THEN {FALSE}
  ELSE IF \E i \in 1..Len(c) : Free(c, i) /\ c[i].req THEN BOOLEAN ELSE {TRUE}
(* acceptable value lists of a submitted field that is not free *)
SubmitAcc(c, vs, f) ==
  IF GetVal(c, vs, f.var) # NoVal THEN AccVals(f.ft, GetVal(c, vs, f.var))
  ELSE {f.def, NonEmpty(f.def)}                         \* required but without a value: sent as it is

(* re-decoding the form from its own encoding keeps the fields (defaults normalised as *)
(* in Codec.tla FieldNorms) and forgets the values that were set                       *)
DefNorm(f) == LET ne == NonEmpty(f.def) IN IF KeepsAll(f.ft) \/ Len(ne) <= 1 THEN ne ELSE <<ne[1]>>
Redecoded(c) == [i \in 1..Len(c) |-> [c[i] EXCEPT !.def = DefNorm(c[i])]]
(* A form of type submit IS a submission: its own encoding may be the submission of   *)
(* its fields (what Submit returns: the fields that have a value or are required,     *)
(* each with its value; <required/> is not needed in a submission) or all fields as   *)
(* they are - the property does not say which, both are accepted.  nc: the fields of  *)
(* the decoded form.                                                                  *)
EncOK(c, vs, ty, nc) ==
  \/ nc = Redecoded(c)
  \/ /\ ty = "submit"
     /\ \E idx \in Asc(1, Len(c)) :
          /\ IdxOK(c, vs, idx) /\ Len(nc) = Len(idx)
          /\ \A k \in 1..Len(idx) :
               LET f == c[idx[k]] IN
               /\ nc[k].ft = f.ft /\ nc[k].var = f.var
               /\ Free(c, idx[k]) \/ (nc[k].def \in SubmitAcc(c, vs, f) /\ nc[k].req \in {f.req, FALSE})
RECURSIVE SeqProd(_)
SeqProd(ss) == IF ss = <<>> THEN {<<>>} ELSE {<<h>> \o t : h \in ss[1], t \in SeqProd(Tail(ss))}
SubmissionForms(c, vs) ==
  UNION {SeqProd([k \in 1..Len(idx) |->
                    LET f == c[idx[k]] IN
                    IF Free(c, idx[k]) THEN {[f EXCEPT !.def = DefNorm(f), !.req = FALSE]}
                    ELSE {[f EXCEPT !.def = d, !.req = r] : d \in SubmitAcc(c, vs, f), r \in {f.req, FALSE}}])
         : idx \in {x \in Asc(1, Len(c)) : IdxOK(c, vs, x)}}
EncCands(c, vs, ty) == {Redecoded(c)} \cup (IF ty = "submit" THEN SubmissionForms(c, vs) ELSE {})

(* deviation EncodeByFieldType: the value that Get finds under the field's NAME (the first field of that name *)
(* decides) is converted with the Go type of the field's OWN type                                            *)
FirstOf(c, var) == c[CHOOSE i \in Named(c, var) : \A j \in Named(c, var) : i <= j]
LookedUp(c, vs, var) == IF vs[var] # NoVal THEN vs[var] ELSE Default(FirstOf(c, var))
AssertionFails(c, vs) ==
  \E i \in 1..Len(c) : LET v == LookedUp(c, vs, c[i].var) IN
     c[i].ft # "fixed" /\ (v # NoVal \/ c[i].req) /\ v \notin {NoVal, Undef} /\ ~Fits(c[i].ft, v.k)
(* deviation ScannerLimit: the text of a submitted text-multi field loses lines *)
LosesText(c, vs) ==
  \E i \in 1..Len(c) : c[i].ft = "text-multi" /\ ~Free(c, i) /\ HasVal(c, vs, i)
       /\ LET tv == GetVal(c, vs, c[i].var) IN tv.k = "string" /\ SubVals("text-multi", tv) # LineSyms(tv.v[1])

(* ------------------------------------------------------------------ actions *)
(* TLC explores BOTH sides of a disjunction (and every witness of a quantifier) that occurs in an action: a state *)
(* predicate used as a guard is wrapped, so that it is evaluated as an expression                               *)
Holds(p) == IF p THEN TRUE ELSE FALSE
Init == cfg \in Configs /\ vals = [v \in Vars |-> NoVal] /\ nops = 0 /\ last = [op |-> "new"] /\ ftype = "form"

Set(var, tv, err) ==
  /\ nops < MaxOps /\ err \in SetErrs(cfg, var, tv)
  /\ vals' = IF err THEN vals ELSE [vals EXCEPT ![var] = tv]
  /\ last' = [op |-> "set", var |-> var, tv |-> tv, ok |-> IsField(cfg, var) /\ ~err, err |-> err]
  /\ nops' = nops + 1 /\ UNCHANGED <<cfg, ftype>>

Get(var, res) ==
  /\ nops < MaxOps /\ Holds(GetOK(cfg, vals, var, res))
  /\ last' = [op |-> "get", var |-> var, ok |-> res # NoVal, tv |-> res]
  /\ nops' = nops + 1 /\ UNCHANGED <<cfg, vals, ftype>>

Raw(var, res) ==
  /\ nops < MaxOps /\ Holds(RawOK(cfg, var, res))
  /\ last' = [op |-> "raw", var |-> var, ok |-> IsField(cfg, var), v |-> res]
  /\ nops' = nops + 1 /\ UNCHANGED <<cfg, vals, ftype>>

Submit(ok, idx) ==
  /\ nops < MaxOps
  /\ IF "EncodeByFieldType" \in Dev /\ AssertionFails(cfg, vals) THEN last' = [op |-> "panic"]
     ELSE /\ ok \in SubmitOKs(cfg, vals) /\ Holds(IdxOK(cfg, vals, idx))
          /\ last' = [op |-> "submit", ok |-> ok, idx |-> idx, lost |-> LosesText(cfg, vals)]
  /\ nops' = nops + 1 /\ UNCHANGED <<cfg, vals, ftype>>

Encode ==            \* TokenReader of the form itself: no effect, must be well-formed
  /\ nops < MaxOps /\ last' = [op |-> "tokenreader"] /\ nops' = nops + 1 /\ UNCHANGED <<cfg, vals, ftype>>

(* decode the form's own encoding with the type attribute of ty: the result is a form *)
(* of that type with the fields nc and no values                                      *)
Unmarshal(ty, nc) ==
  /\ nops < MaxOps /\ Holds(EncOK(cfg, vals, ftype, nc))
  /\ cfg' = nc /\ vals' = [v \in Vars |-> NoVal] /\ ftype' = ty
  /\ last' = [op |-> "unmarshal", ty |-> ty, ok |-> TRUE] /\ nops' = nops + 1
(* "unmarshalling arbitrary XML returns a value or an error": a document whose type is *)
(* none of the four defined ones may be refused; the caller keeps the form it had      *)
UnmarshalRefused(ty) ==
  /\ nops < MaxOps /\ ty \notin ValidTypes
  /\ last' = [op |-> "unmarshal", ty |-> ty, ok |-> FALSE] /\ nops' = nops + 1 /\ UNCHANGED <<cfg, vals, ftype>>

Next == (\E var \in VarsOf(cfg), tv \in SetValues, err \in BOOLEAN : Set(var, tv, err))
        \/ (\E var \in VarsOf(cfg) : (\E res \in GetCands(cfg, vals, var) : Get(var, res))
                                     \/ (\E r \in RawCands(cfg, var) : Raw(var, r)))
        \/ (\E ok \in BOOLEAN, idx \in Asc(1, Len(cfg)) : Submit(ok, idx))
        \/ Encode
        \/ (\E ty \in FormTypes : (\E nc \in EncCands(cfg, vals, ftype) : Unmarshal(ty, nc)) \/ UnmarshalRefused(ty))
Spec == Init /\ [][Next]_fvars

(* ------------------------------------------------------------------ properties (design check) *)
TypeOK == /\ \A v \in Vars : vals[v] \in SetValues \cup {NoVal}
          /\ nops \in 0..MaxOps /\ ftype \in FormTypes
          /\ \A i \in 1..Len(cfg) : cfg[i].var \in Vars
(* a stored value always fits a field of its name: Set succeeds iff the type fits *)
C19_StoredFits == \A v \in Vars : (vals[v] # NoVal /\ IsField(cfg, v)) => \E i \in Named(cfg, v) : Fits(cfg[i].ft, vals[v].k)
C19_SetIffFits == last.op = "set" =>
                    /\ last.err \in SetErrs(cfg, last.var, last.tv)
                    /\ (~Amb(cfg, last.var) => (last.err <=> (IsField(cfg, last.var) /\ ~Fits(TheField(cfg, last.var).ft, last.tv.k))))
                    /\ (last.ok <=> (IsField(cfg, last.var) /\ ~last.err))
                    /\ (~last.err => vals[last.var] = last.tv)
(* Get after Set returns the value *)
C19_GetAfterSet == \A v \in Vars : vals[v] # NoVal => (GetCands(cfg, vals, v) = {vals[v]} /\ GetOK(cfg, vals, v, vals[v]))
C19_GetReportsIt == last.op = "get" => (last.ok <=> last.tv # NoVal)
(* a fixed field is never set and never submitted; a submission names the fields with a value or required *)
C19_SubmitShape == last.op = "submit" =>
                     /\ \A k \in 1..Len(last.idx) : cfg[last.idx[k]].ft # "fixed"
                     /\ (\A i \in 1..Len(cfg) : ~Free(cfg, i)) =>
                          (last.ok <=> \A i \in 1..Len(cfg) : cfg[i].req => GetVal(cfg, vals, cfg[i].var) # NoVal)
                     /\ (\E i \in 1..Len(cfg) : ~Free(cfg, i) /\ cfg[i].req /\ GetVal(cfg, vals, cfg[i].var) = NoVal) => ~last.ok
                     /\ \A i \in 1..Len(cfg) : (~Free(cfg, i) /\ vals[cfg[i].var] # NoVal /\ cfg[i].ft # "fixed")
                                                  => \E k \in 1..Len(last.idx) : last.idx[k] = i
                     /\ \A k \in 1..Len(last.idx) : ~Free(cfg, last.idx[k]) =>
                          (GetVal(cfg, vals, cfg[last.idx[k]].var) # NoVal \/ cfg[last.idx[k]].req)
(* every submitted value list consists of symbols (the normal forms exist in the symbol table) *)
C19_SubmitValuesDefined == \A i \in 1..Len(cfg) : ~Free(cfg, i) =>
                             \A vs \in SubmitAcc(cfg, vals, cfg[i]) : \A k \in 1..Len(vs) : Known(vs[k])
(* the lines of a submitted multi-line text are the text: nothing is lost or cut *)
C19_SubmitLossless == last.op = "submit" => ~last.lost
C19_NoPanic == last.op # "panic"
(* the candidates the design check draws from are acceptable results (the actions would silently drop the others) *)
C19_CandidatesAcceptable ==
  nops <= 1 =>
    /\ \A nc \in EncCands(cfg, vals, ftype) : EncOK(cfg, vals, ftype, nc)
    /\ \A v \in VarsOf(cfg) : GetCands(cfg, vals, v) # {} /\ \A res \in GetCands(cfg, vals, v) : GetOK(cfg, vals, v, res)
    /\ \E idx \in Asc(1, Len(cfg)) : IdxOK(cfg, vals, idx)
(* Set never changes the fields; only Unmarshal does, and it is idempotent *)
C19_FieldsStable == [][(last'.op # "unmarshal" => cfg' = cfg) /\ (Redecoded(Redecoded(cfg)) = Redecoded(cfg))]_fvars
(* only decoding changes the type of the form held; decoding forgets the values; a refused document changes nothing *)
C19_TypeStable == [][/\ (last'.op # "unmarshal" => ftype' = ftype)
                     /\ (last'.op = "unmarshal" =>
                           IF last'.ok THEN ftype' = last'.ty /\ \A v \in Vars : vals'[v] = NoVal
                           ELSE ftype' = ftype /\ cfg' = cfg /\ vals' = vals)]_fvars
(* the laws of Set / Get hold for a decoded form of every type: every (type, operation) pair is reachable *)
C19_DecodedFormsUsable == \A v \in Vars : (vals[v] # NoVal /\ ftype # "form") => GetOK(cfg, vals, v, vals[v])
(* the configurations hold what the ambiguity dimension promises *)
C19_AmbiguityCovered ==
  LET Kind(ft) == CASE ft = "boolean" -> "bool" [] ft = "jid-single" -> "jid" [] ft = "jid-multi" -> "jids"
                    [] ft = "list-multi" -> "strings" [] ft = "fixed" -> "none" [] OTHER -> "string"
      \* <<kind of the earlier field, kind of the later field>> of every two fields that share a name
      Pairs == UNION {{<<Kind(c[p[1]].ft), Kind(c[p[2]].ft)>> :
                         p \in {q \in (1..Len(c)) \X (1..Len(c)) : q[1] < q[2] /\ c[q[1]].var = c[q[2]].var}} : c \in Configs}
  IN /\ \A k \in {"bool", "string", "jid", "jids", "strings"} : (\E p \in Pairs : p[1] = k /\ p[2] # k) /\ (\E q \in Pairs : q[2] = k /\ q[1] # k)
     /\ <<"none", "none">> \in Pairs /\ <<"string", "string">> \in Pairs
     /\ \E c \in Configs : \E v \in Vars : Cardinality(Named(c, v)) >= 3
     /\ \E c \in Configs : (\E v \in Vars : Amb(c, v)) /\ (\E i \in 1..Len(c) : ~Amb(c, c[i].var) /\ c[i].req)
     /\ \E c \in Configs : \E i \in 1..Len(c) : Amb(c, c[i].var) /\ c[i].req /\ \E j \in 1..(i - 1) : c[j].var = c[i].var
ASSUME C19_AmbiguityCovered
=============================================================================
