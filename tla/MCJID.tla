-------------------------------- MODULE MCJID --------------------------------
(* Design check of JID.tla: the API machine over small strings / parts, and the laws of the *)
(* reference functions over all strings up to LawLen.                                       *)
EXTENDS JID
CONSTANTS ParseLen, LawLen, PartSyms
LongStrs == {<<L1023>>, <<L1024>>, <<L1022, a>>, <<L1022, EA>>, <<L1023, AT, a>>, <<L1024, AT, a>>,
             <<a, SL, L1023>>, <<a, SL, L1024>>, <<a, SL, L1022, CS>>, <<L1022, CS, AT, a>>,
             <<L1022, FW, AT, a>>, <<a, DOT, L1022>>, <<a, DOT, L1022, DOT>>}
(* A-label family (second run of the API machine: ParseStrs <- ACEParse, Parts <- ACEMCParts): the A-label in     *)
(* every case variant of its prefix / of its Punycode digits and the labels that only carry the prefix, alone, as  *)
(* first / middle / last label, next to ASCII labels, U-labels, other A-labels and final label separators, in      *)
(* every part of an address                                                                                       *)
ACENames == {<<x>> : x \in ACESyms}
            \cup {x \o <<DOT>> \o y : x \in {<<s>> : s \in ACESyms}, y \in {<<a>>, <<UU>>, <<XNU>>}}
            \cup {y \o <<DOT>> \o x : x \in {<<s>> : s \in ACESyms}, y \in {<<a>>, <<UU>>, <<XNU>>}}
            \cup {<<a, DOT, s, DOT, UU>> : s \in ACESyms}
ACEParts == {n \o t : n \in ACENames, t \in {<<>>, <<DOT>>, <<IDS>>}}
ACEParse == ACEParts \cup {<<XNU, AT>> \o n \o <<SL, XNM>> : n \in {<<XNU>>, <<XNm, DOT, a>>, <<UU, DOT, XNT>>, <<XNBAD>>, <<XNU, DOT>>}}
ACEMCParts == {<<>>, <<a>>, <<XNU, DOT, UA>>, <<a, DOT, XNM>>, <<UU, DOT, XNm, DOT>>, <<XNT, IDS>>, <<XN>>, <<XNU>>} \cup {<<x>> : x \in ACEFree}
MCParseStrs == StrsOf(Core, ParseLen) \cup LongStrs
MCParts == StrsOf(PartSyms, 1) \cup {<<L1024>>, <<a, DOT>>, <<a, DOT, DOT>>, <<a, IDS>>, <<XN, DOT, UA>>}
ASSUME CanonFixedOn(StrsOf(Core, LawLen) \cup LongStrs \cup ACEParse)
ASSUME SplitAssembleOn(StrsOf(Core, LawLen) \cup ACEParse)
(* every case variant of the A-label is claimed to denote the U-label, wherever the label stands *)
ASSUME \A x \in ACECase \cup {XN} : /\ ClsParse(<<x>>) = "ok" /\ CanonParse(<<x>>) = <<UU>>
                                    /\ CanonParse(<<a, DOT, x, DOT, UU>>) = <<a, DOT, UU, DOT, UU>>
                                    /\ CanonParse(<<x, AT, x, DOT, SL, x>>) = <<XN, AT, UU, SL, x>>
ASSUME \A x \in ACEFree : ClsParse(<<x>>) = "free" /\ ClsParse(<<a, DOT, x>>) = "free" /\ ClsParse(<<x, AT, a>>) = "ok"
ASSUME PrintT(<<"LAWS", Cardinality(StrsOf(Core, LawLen)), Cardinality(ACEParse)>>)
=============================================================================
