-------------------------------- MODULE MCJID --------------------------------
(* Design check of JID.tla: the API machine over small strings / parts, and the laws of the *)
(* reference functions over all strings up to LawLen.                                       *)
EXTENDS JID
CONSTANTS ParseLen, LawLen, PartSyms
LongStrs == {<<L1023>>, <<L1024>>, <<L1022, a>>, <<L1022, EA>>, <<L1023, AT, a>>, <<L1024, AT, a>>,
             <<a, SL, L1023>>, <<a, SL, L1024>>, <<a, SL, L1022, CS>>, <<L1022, CS, AT, a>>,
             <<L1022, FW, AT, a>>, <<a, DOT, L1022>>, <<a, DOT, L1022, DOT>>}
MCParseStrs == StrsOf(Core, ParseLen) \cup LongStrs
MCParts == StrsOf(PartSyms, 1) \cup {<<L1024>>, <<a, DOT>>, <<a, DOT, DOT>>, <<a, IDS>>, <<XN, DOT, UA>>}
ASSUME CanonFixedOn(StrsOf(Core, LawLen) \cup LongStrs)
ASSUME SplitAssembleOn(StrsOf(Core, LawLen))
ASSUME PrintT(<<"LAWS", Cardinality(StrsOf(Core, LawLen))>>)
=============================================================================
