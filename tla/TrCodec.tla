------------------------------ MODULE TrCodec ------------------------------
(* Pipeline C of the codec family: TLC decides the laws of Codec.tla on what the     *)
(* driver (harness/cmd/codec) observed on the real library.                           *)
(*   tls.ndjson : the distinct abstract token lists, one per line                     *)
(*   obs.ndjson : one observation per abstract value                                  *)
(* Every line is a trace of its own (one initial state per line, scheme of            *)
(* TrNegotiation): a token list is walked token by token by the stack automaton and   *)
(* is accepted iff the automaton ends with an empty stack; an observation is accepted *)
(* iff all laws hold.  Register i records acceptance of line i; the POSTCONDITION     *)
(* prints every rejected observation with the names of the laws it breaks.            *)
EXTENDS Codec, Json

TLs  == ndJsonDeserialize("tls.ndjson")
ObsL == ndJsonDeserialize("obs.ndjson")
NT == Len(TLs)
NO == Len(ObsL)

VARIABLES t0, pos, stack, done
tvars == <<t0, pos, stack, done>>

TInit == t0 \in 1..(NT + NO) /\ pos = 1 /\ stack = <<>> /\ done = FALSE

IsTL == t0 <= NT
Toks == TLs[t0].toks

TokStep ==
  /\ IsTL /\ ~done /\ pos <= Len(Toks)
  /\ CanStep(stack, Toks[pos])
  /\ pos' = pos + 1 /\ stack' = StepStack(stack, Toks[pos])
  /\ UNCHANGED <<t0, done>>
TokAccept ==
  /\ IsTL /\ ~done /\ pos = Len(Toks) + 1 /\ stack = <<>>
  /\ done' = TRUE /\ UNCHANGED <<t0, pos, stack>>
ObsCheck ==
  /\ ~IsTL /\ ~done
  /\ Failed(ObsL[t0 - NT], {}) = {}
  /\ done' = TRUE /\ UNCHANGED <<t0, pos, stack>>

TNext == TokStep \/ TokAccept \/ ObsCheck
TSpec == TInit /\ [][TNext]_tvars

HW == IF done THEN TLCSet(t0, 1) ELSE TRUE
RejectedTL == {i \in 1..NT : TLCGet(i) # 1}
RejectedObs == {j \in 1..NO : TLCGet(NT + j) # 1 \/ ~WellFormed(ObsL[j], RejectedTL)}
Accepted ==
  /\ PrintT(<<"CHECKED", NT, NO>>)
  /\ \/ RejectedTL = {} \/ PrintT(<<"REJECTEDTL", RejectedTL>>)
  /\ \/ RejectedObs = {}
     \/ PrintT(<<"REJECTED", {<<j, Failed(ObsL[j], RejectedTL)>> : j \in RejectedObs}>>) /\ FALSE
ASSUME \A i \in 1..(NT + NO) : TLCSet(i, 0)
=============================================================================
