------------------------------ MODULE Header ------------------------------
(***************************************************************************)
(* Stream headers (RFC 6120 section 4.7, RFC 7395 section 3.3), parts (a)  *)
(* and (b) of property C12.                                                *)
(*                                                                         *)
(* (a) Emit: internal/stream.Send prints the header attribute by           *)
(*     attribute.  The property asks that the result is well-formed XML    *)
(*     and that a peer parsing it recovers the same addresses, id,         *)
(*     version, language and content namespace.  Attribute values are      *)
(*     modelled character by character over a small alphabet that holds   *)
(*     every character with a special meaning inside a quoted attribute.   *)
(* (b) Accept: internal/stream.Expect + stream.Info.FromStartElement,      *)
(*     one action per check, in the order of the code.  The property       *)
(*     gives necessary conditions for acceptance only ("accepted only      *)
(*     if ..."); everything else (addresses that do not parse, a content   *)
(*     namespace that does not fit the session type, an XML declaration,   *)
(*     leading whitespace) is left to the implementation.                  *)
(***************************************************************************)
EXTENDS Integers, Sequences, FiniteSets, TLC

CONSTANTS MaxStr,   \* longest resourcepart / language string (MC and emission)
          Dev       \* enabled deviations (empty = the property's rules)

-----------------------------------------------------------------------------
(* Part (a)                                                                         *)

(* characters: 1 = an ordinary letter, 2 = ' , 3 = & , 4 = < , 5 = > , 6 = "        *)
Chars == 1..6
Apos == 2
Amp  == 3
Lt   == 4
Strs(n) == UNION {[1..k -> Chars] : k \in 0..n}

(* A value on the wire is a sequence of tokens: the raw character c, or a reference *)
(* (entity / character reference) to c, written 10 + c.                             *)
Ref(c) == 10 + c
(* what a writer may put for character c inside an attribute delimited by q: the    *)
(* delimiter, & and < have to be written as references, anything may be             *)
MustRef(c, q) == c \in {Amp, Lt, q}
Encodings(s, q) ==
  {w \in [1..Len(s) -> Chars \cup {Ref(c) : c \in Chars}] :
     \A i \in 1..Len(s) : w[i] = Ref(s[i]) \/ (w[i] = s[i] /\ ~MustRef(s[i], q))}
(* the pinned code prints addresses as they are *)
RawEncoding(s) == s

WellFormedValue(w, q) == \A i \in 1..Len(w) : ~(w[i] \in Chars /\ MustRef(w[i], q))
Decode(w) == [i \in 1..Len(w) |-> IF w[i] > 10 THEN w[i] - 10 ELSE w[i]]

(* An address: localpart and domainpart cannot hold special characters (RFC 7622),  *)
(* the resourcepart can.                                                            *)
JIDs(n) == [l : {"", "me"}, d : {"example.net"}, r : Strs(n)]
NoJID == [l |-> "", d |-> "", r |-> <<>>]

(* One emission: who sends (role, s2s, framing), the addresses and the language.    *)
EmitVec(role, s2s, framing, to, from, lang) ==
  [role |-> role, s2s |-> s2s, framing |-> framing, to |-> to, from |-> from, lang |-> lang]

(* what a peer has to recover *)
Recovered(x) ==
  [to |-> x.to, from |-> x.from, lang |-> x.lang, version |-> "1.0",
   xmlns |-> IF x.framing = "ws" THEN "urn:ietf:params:xml:ns:xmpp-framing"
             ELSE IF x.s2s THEN "jabber:server" ELSE "jabber:client",
   name |-> IF x.framing = "ws" THEN "open" ELSE "stream",
   id |-> IF x.role = "recv" THEN "set" ELSE "absent"]

VARIABLES x, wire     \* the emission and the tokens written for its three free-text values
avars == <<x, wire>>

WireOf(s) == IF "RawAttributes" \in Dev THEN {RawEncoding(s)} ELSE Encodings(s, Apos)

EmitInit(X) ==
  /\ x \in X
  /\ wire \in [to : WireOf(x.to.r), from : WireOf(x.from.r), lang : WireOf(x.lang)]
EmitNext == UNCHANGED avars

C12_EmitWellFormed ==
  /\ WellFormedValue(wire.to, Apos) /\ WellFormedValue(wire.from, Apos) /\ WellFormedValue(wire.lang, Apos)
C12_EmitRoundTrip ==
  /\ Decode(wire.to) = x.to.r /\ Decode(wire.from) = x.from.r /\ Decode(wire.lang) = x.lang

(* The vectors: special characters in one value at a time, then in all of them.     *)
Roles == {"init", "recv"}
Framings == {"tcp", "ws"}
A0 == [l |-> "me", d |-> "example.net", r |-> <<>>]
B0 == [l |-> "", d |-> "example.net", r |-> <<>>]
(* A receiving server-to-server session has no way to learn the initiator's address   *)
(* (ReceiveSession takes none and negotiator.go refuses to learn it from the header): *)
(* its response carries no 'to'.                                                      *)
Norm(e) == IF e.role = "recv" /\ e.s2s THEN [e EXCEPT !.to = NoJID] ELSE e
EmitVectors(n) ==
  LET S == Strs(n) IN
  {Norm(e) : e \in UNION {
    {EmitVec(ro, s, f, [B0 EXCEPT !.r = r, !.l = l], A0, <<1>>) : r \in S, l \in {"", "me"}}
    \cup {EmitVec(ro, s, f, B0, [A0 EXCEPT !.r = r, !.l = l], <<1>>) : r \in S, l \in {"", "me"}}
    \cup {EmitVec(ro, s, f, B0, [A0 EXCEPT !.r = <<1, 2>>], lg) : lg \in S}
    \cup {EmitVec(ro, s, f, [B0 EXCEPT !.r = r], [A0 EXCEPT !.r = r], r) : r \in S}
    : ro \in Roles, s \in BOOLEAN, f \in Framings}}

(* A Negotiator is a VALUE as well: a server builds one (xmpp.NewNegotiator /          *)
(* websocket.Negotiator with its configuration function) and negotiates every         *)
(* connection with it.  The header of a session carries that session's own addresses  *)
(* and the language the application configured; nothing of the sessions negotiated    *)
(* before.  Before the configuration function has been called for a session the       *)
(* library knows only what the function returned when the Negotiator was built; that  *)
(* is the language of the session's first header also when the function answers       *)
(* differently for every session (mode "persession").                                 *)
(* A scenario: emissions that differ only in their addresses, one after the other     *)
(* through one Negotiator; expected: what each of them yields on its own.             *)
SharedEmitScenario(mode, es) == [mode |-> mode, sess |-> es]
ExpSharedEmit(sx) == [i \in DOMAIN sx.sess |-> Recovered(sx.sess[i])]
SharedEmitScenarios ==
  LET P == {<<[B0 EXCEPT !.r = <<1>>], A0>>, <<B0, [A0 EXCEPT !.r = <<1, 2>>]>>, <<[B0 EXCEPT !.l = "me"], [A0 EXCEPT !.l = ""]>>}
      AS == [1..2 -> P] \cup [1..3 -> P]
  IN {SharedEmitScenario(m, [i \in DOMAIN as |-> Norm(EmitVec(ro, s, f, as[i][1], as[i][2], lg))]) :
        m \in {"const", "persession"}, ro \in Roles, s \in BOOLEAN, f \in Framings, lg \in {<<1>>, <<1, 3>>}, as \in AS}

-----------------------------------------------------------------------------
(* Part (b)                                                                         *)

(* The version attribute (RFC 6120 4.7.5): "<major>.<minor>"; "the major and minor    *)
(* numbers MUST be treated as separate integers", "leading zeros MUST be ignored by   *)
(* recipients".  The value on the wire is modelled as what it is: a list of parts (the *)
(* pieces between the separators), every part a string over                            *)
(*    0..9 = the digits, 10 = '+', 11 = '-', 12 = ' ', 13 = a letter.                  *)
(* A header "declares version 1.0" when it has exactly two parts of which the first    *)
(* denotes the integer one and the second the integer zero - as INTEGERS, of any       *)
(* length (no wrapping in a machine word).  Whether a recipient also reads a part with *)
(* surrounding blanks or a sign as the integer it spells is left to it.                *)
Plus == 10
Minus == 11
Blank == 12
Letter == 13
VAbsent == [present |-> FALSE, parts |-> <<>>]
Ver(parts) == [present |-> TRUE, parts |-> parts]
Ver2(a, b) == Ver(<<a, b>>)
V10 == Ver2(<<1>>, <<0>>)
V09 == Ver2(<<0>>, <<9>>)

IsDigits(s) == Len(s) > 0 /\ \A i \in 1..Len(s) : s[i] \in 0..9
RECURSIVE TrimL(_), TrimR(_)
TrimL(s) == IF Len(s) > 0 /\ s[1] = Blank THEN TrimL(Tail(s)) ELSE s
TrimR(s) == IF Len(s) > 0 /\ s[Len(s)] = Blank THEN TrimR(SubSeq(s, 1, Len(s) - 1)) ELSE s
(* the part spells the integer n (n = 0 or 1) under the most lenient reading           *)
Denotes(s, n) ==
  LET t == TrimR(TrimL(s))
      signed == Len(t) > 0 /\ t[1] \in {Plus, Minus}
      c == IF signed THEN Tail(t) ELSE t
  IN /\ IsDigits(c)
     /\ c[Len(c)] = n /\ (\A i \in 1..(Len(c) - 1) : c[i] = 0)
     /\ (signed /\ t[1] = Minus => n = 0)
Is10(ve) == ve.present /\ Len(ve.parts) = 2 /\ Denotes(ve.parts[1], 1) /\ Denotes(ve.parts[2], 0)
(* a version in the form the RFC prescribes: two non-empty strings of digits *)
PlainVersion(ve) == ve.present /\ Len(ve.parts) = 2 /\ IsDigits(ve.parts[1]) /\ IsDigits(ve.parts[2])

Versions == {VAbsent, V10, V09, Ver2(<<1>>, <<1>>), Ver2(<<2>>, <<0>>), Ver(<<<<Letter, Letter, Letter>>>>)}

(* Numbers by boundary class: 0 1 9 10 255 256 257 65537 2^32+1 2^64+1, a 41-digit     *)
(* number, leading zeros (short and long), signs, blanks, nothing, letters.            *)
Zeros(n) == [i \in 1..n |-> 0]
NumForms ==
  {<<0>>, <<1>>, <<9>>, <<1, 0>>, <<2, 5, 5>>, <<2, 5, 6>>, <<2, 5, 7>>, <<5, 1, 2>>, <<5, 1, 3>>, <<6, 5, 5, 3, 6>>, <<6, 5, 5, 3, 7>>,
   <<4, 2, 9, 4, 9, 6, 7, 2, 9, 6>>, <<4, 2, 9, 4, 9, 6, 7, 2, 9, 7>>,
   <<1, 8, 4, 4, 6, 7, 4, 4, 0, 7, 3, 7, 0, 9, 5, 5, 1, 6, 1, 6>>, <<1, 8, 4, 4, 6, 7, 4, 4, 0, 7, 3, 7, 0, 9, 5, 5, 1, 6, 1, 7>>,
   <<1>> \o Zeros(39) \o <<1>>, <<1>> \o Zeros(40),
   <<0, 0>>, <<0, 1>>, <<0, 0, 1>>, Zeros(40), Zeros(40) \o <<1>>,
   <<Plus, 1>>, <<Minus, 1>>, <<Plus, 0>>, <<Minus, 0>>, <<Plus>>, <<Minus, 2, 5, 5>>,
   <<Blank, 1>>, <<1, Blank>>, <<Blank, 0>>, <<1, Blank, 0>>, <<Blank>>,
   <<>>, <<Letter>>, <<1, Letter>>, <<Letter, 0>>}
(* every pair (major, minor); one part only (no separator); a third part *)
VersionForms ==
  {Ver2(a, b) : a \in NumForms, b \in NumForms}
  \cup {Ver(<<a>>) : a \in NumForms}
  \cup {Ver(<<a, b, c>>) : a \in {<<1>>, <<>>}, b \in {<<0>>, <<>>}, c \in {<<0>>, <<>>, <<1>>}}

(* name: stream   = <stream:stream/> in the streams namespace (the TCP stream-open)  *)
(*       open     = <open/> in the framing namespace (the WebSocket stream-open)     *)
(*       othername / otherns = another local name / the right local name elsewhere   *)
(*       error    = a stream error in place of a header                              *)
Names == {"stream", "open", "othername", "otherns"}
Conds == {"host-unknown", "not-authorized", "see-other-host"}

(* The attributes of a header are the UNQUALIFIED attributes id, version, from, to   *)
(* and xml:lang (Namespaces in XML: an attribute with a prefix belongs to the        *)
(* namespace of the prefix, and xmlns:p='..' is a declaration, not an attribute of    *)
(* the element's vocabulary).  Next to every one of them - present or not - the peer  *)
(* may write a look-alike that shares only the LOCAL name:                            *)
(*    foreign_before / foreign_after   p:id='..' in another namespace, in front of /  *)
(*                                     behind the place of the real attribute         *)
(*    nsdecl                           xmlns:id='..', a declaration of the prefix "id" *)
(* A look-alike always carries a value of its own (another id, version 1.0, another   *)
(* address, another language).  It never counts: acceptance is decided by the real    *)
(* attributes alone, and the values a session recovers are the real ones.             *)
Attrs == {"id", "version", "from", "to", "lang"}
Looks == {"none", "foreign_before", "foreign_after", "nsdecl"}
NoLook == [a \in Attrs |-> "none"]
LookCombos(n) == {lk \in [Attrs -> Looks] : Cardinality({a \in Attrs : lk[a] # "none"}) <= n}
LookOne == LookCombos(1)
LookTwo == LookCombos(2)

HdrVec(role, framing, name, xmlns, version, id, to, from, pre, cond) ==
  [role |-> role, framing |-> framing, name |-> name, xmlns |-> xmlns, version |-> version, id |-> id,
   to |-> to, from |-> from, pre |-> pre, cond |-> cond, lang |-> "absent", look |-> NoLook]

(* (ros, fs: the roles and framings wanted) *)
AcceptVectorsOf(ros, fs, pres, addrs) ==
  {h \in {HdrVec(ro, f, n, ns, ve, i, t, fr, p, "") :
             ro \in ros, f \in fs, n \in Names, ns \in {"client", "server", "other", "absent"},
             ve \in Versions, i \in {"absent", "empty", "set"}, t \in addrs, fr \in addrs, p \in pres} :
     h.name = "open" => h.xmlns = "absent"}     \* <open/> declares no content namespace
  \cup {HdrVec(ro, f, "error", "", VAbsent, "", "", "", p, c) : ro \in ros, f \in fs, p \in pres, c \in Conds}
AcceptVectors(pres, addrs) == AcceptVectorsOf(Roles, Framings, pres, addrs)

(* an otherwise good stream-open of the framing in use *)
GoodHdr(ro, f, ve, i, t, fr, lg, lk) ==
  [HdrVec(ro, f, IF f = "ws" THEN "open" ELSE "stream", IF f = "ws" THEN "absent" ELSE "client", ve, i, t, fr, "none", "")
     EXCEPT !.lang = lg, !.look = lk]
(* the version dimension: every form, both roles, both framings *)
VersionVectorsOf(ros, fs) ==
  {GoodHdr(ro, f, ve, "set", "valid", "valid", "absent", NoLook) : ro \in ros, f \in fs, ve \in VersionForms}
VersionVectors == VersionVectorsOf(Roles, Framings)
(* the look-alike dimension: one look-alike next to every combination of present and   *)
(* absent real attributes; two look-alikes next to all / none of the real attributes   *)
LookVectorsOf(ros, fs) ==
  {GoodHdr(ro, f, ve, i, t, fr, lg, lk) :
     ro \in ros, f \in fs, ve \in {VAbsent, V10, V09}, i \in {"absent", "set"}, t \in {"absent", "valid"},
     fr \in {"absent", "valid"}, lg \in {"absent", "set"}, lk \in LookOne}
  \cup {GoodHdr(ro, f, y[1], y[2], y[3], y[3], y[4], lk) :
           ro \in ros, f \in fs, lk \in LookTwo,
           y \in {<<V10, "set", "valid", "set">>, <<VAbsent, "absent", "absent", "absent">>, <<V09, "absent", "valid", "absent">>}}
LookVectors == LookVectorsOf(Roles, Framings)
(* (the three families are kept apart: TLC tests membership in a union of comprehensions by enumeration) *)

IsOpenElement(v) == (v.framing = "tcp" /\ v.name = "stream") \/ (v.framing = "ws" /\ v.name = "open")
(* the content namespace is the default namespace declared on <stream:stream/>; the  *)
(* WebSocket <open/> declares none (RFC 7395)                                        *)
NsSupported(v) == v.framing = "ws" \/ v.xmlns \in {"client", "server"}
IdOK(v) == v.role = "recv" \/ v.id = "set"
MayAccept(v) == v.name # "error" /\ IsOpenElement(v) /\ NsSupported(v) /\ Is10(v.version) /\ IdOK(v)

(* Expected verdict of the property: "reject" where a necessary condition fails,     *)
(* "streamerror" (the error itself is returned) for a stream error, else no opinion. *)
(* (an XML declaration or whitespace in front may itself be refused: then any error)   *)
Expect(v) == IF v.name = "error" THEN (IF v.pre = "none" THEN "streamerror" ELSE "error")
             ELSE IF MayAccept(v) THEN "any" ELSE "reject"

(* What an accepting session has recovered (Session.In(), its addresses, the header it *)
(* answers with): for a real attribute its value ("real"); for an attribute the header *)
(* does not carry the property names no value - only that a look-alike's value is not  *)
(* it ("notlook").                                                                     *)
Carries(v, a) == CASE a = "id" -> v.id = "set"
                   [] a = "version" -> v.version.present
                   [] a = "from" -> v.from = "valid"
                   [] a = "to" -> v.to = "valid"
                   [] a = "lang" -> v.lang = "set"
Recover(v) == [a \in Attrs |-> IF v.name # "error" /\ Carries(v, a) THEN "real" ELSE "notlook"]
(* deviation of the non-vacuity run: numbers read into eight bits *)
Wraps10(ve) == ve.present /\ Len(ve.parts) = 2 /\ ve.parts[1] \in {<<2, 5, 7>>, <<5, 1, 3>>} /\ ve.parts[2] \in {<<0>>, <<2, 5, 6>>}

VARIABLES v, pc, verdict
bvars == <<v, pc, verdict>>

AcceptInit(V) == (v \in V \/ v \in VersionVectors \/ v \in LookVectors) /\ pc = "pre" /\ verdict = "none"

Reject(why) == pc' = "done" /\ verdict' = why /\ UNCHANGED v
Goto(p) == pc' = p /\ UNCHANGED <<v, verdict>>

(* decl.Skip and the whitespace rule of the negotiating reader *)
SkipPre == pc = "pre" /\ (Goto("error") \/ (v.pre # "none" /\ Reject("reject")))
(* a stream error is decoded and returned as the error *)
CheckError == pc = "error" /\ IF v.name = "error" THEN Reject("streamerror") ELSE Goto("name")
CheckName == pc = "name" /\ IF IsOpenElement(v) THEN Goto("attrs") ELSE Reject("reject")
(* FromStartElement: addresses that do not parse may be refused; so may an           *)
(* unparsable version (it cannot be 1.0 either way)                                  *)
ParseAttrs ==
  /\ pc = "attrs"
  /\ \/ Goto("version")
     \/ ("invalid" \in {v.to, v.from} \/ (v.version.present /\ ~PlainVersion(v.version))) /\ Reject("reject")
CheckVersion ==
  /\ pc = "version"
  /\ IF Is10(v.version) \/ ("AcceptOldVersion" \in Dev /\ v.version = V09)
        \/ ("VersionModulo256" \in Dev /\ Wraps10(v.version)) THEN Goto("ns") ELSE Reject("reject")
CheckNs == pc = "ns" /\ IF NsSupported(v) THEN Goto("id") ELSE Reject("reject")
(* (deviation of the non-vacuity run: a look-alike of the id counts as the id) *)
CheckId == pc = "id" /\ IF IdOK(v) \/ ("LocalNameOnly" \in Dev /\ v.look["id"] # "none") THEN (Reject("accept") \/ Reject("reject")) ELSE Reject("reject")

AcceptNext == SkipPre \/ CheckError \/ CheckName \/ ParseAttrs \/ CheckVersion \/ CheckNs \/ CheckId

C12_AcceptOnlyIf == verdict = "accept" => MayAccept(v)
C12_StreamErrorReturned ==
  (pc = "done" /\ v.name = "error") => verdict = "streamerror" \/ (v.pre # "none" /\ verdict = "reject")
(* the verdict of the step rules always lies within the expectation emitted for the vector *)
C12_VerdictMatchesExpectation ==
  pc = "done" => CASE Expect(v) = "reject" -> verdict = "reject"
                   [] Expect(v) = "streamerror" -> verdict = "streamerror"
                   [] Expect(v) = "error" -> verdict \in {"streamerror", "reject"}
                   [] OTHER -> verdict \in {"accept", "reject"}

-----------------------------------------------------------------------------
(* Part (b'): SEQUENCES of headers across restarts                                     *)
(*                                                                                      *)
(* A session reads a header at the start of every stream: the first one and one after  *)
(* every restart (STARTTLS, SASL, any feature whose negotiation returns a new           *)
(* io.ReadWriter).  The property quantifies over "every sequence of headers across      *)
(* restarts": header k is accepted only if header k ITSELF is the stream-open element,  *)
(* declares a supported content namespace and version 1.0 and (initiator) a stream id   *)
(* - whatever the headers before it said.  The only rule that looks back is the         *)
(* address rule: after a restart a header whose addresses differ from those established *)
(* is rejected (an address the header does not carry leaves the established one in      *)
(* place; a receiver learns each address once).  What the session reports after header  *)
(* k (Session.In()) is what header k said: id, version, language and content namespace  *)
(* of an earlier stream are not properties of this one; to / from may be the            *)
(* established addresses ("to/from preserved across restarts for comparison").          *)
(*                                                                                      *)
(* Structured like the code: session.go keeps ONE stream.Info for the input direction,  *)
(* FromStartElement assigns the attributes the element carries, one by one, and Expect  *)
(* checks the Info - so what the checks see is a MERGE of the current element with      *)
(* whatever the Info held before.  `info[a]` records which header the value of          *)
(* attribute a comes from (0 = none: cleared / preset by the constructor).  At a        *)
(* restart negotiateSession clears everything but to / from.                            *)
IAttrs == Attrs \cup {"xmlns"}
AddrVals == {"absent", "valid", "other", "invalid"}    \* other = a valid address that is not the expected one
(* the element carries the attribute (possibly with an empty / unusable value) *)
Written(h, a) == CASE a = "id" -> h.id # "absent"
                   [] a = "version" -> h.version.present
                   [] a = "from" -> h.from # "absent"
                   [] a = "to" -> h.to # "absent"
                   [] a = "lang" -> h.lang = "set"
                   [] a = "xmlns" -> h.xmlns # "absent" \/ h.name = "open"
(* ... with a value a session can report *)
CarriesI(h, a) == CASE a = "xmlns" -> h.xmlns # "absent" \/ h.name = "open"
                    [] a \in {"to", "from"} -> h[a] \in {"valid", "other"}
                    [] OTHER -> Carries(h, a)

(* addresses established so far: the initiator's are the constructor's arguments, the   *)
(* receiver learns them from the headers it accepts (each once)                        *)
Estab0(ro) == IF ro = "init" THEN [to |-> "valid", from |-> "valid"] ELSE [to |-> "absent", from |-> "absent"]
Learn(est, h) == [a \in {"to", "from"} |-> IF est[a] = "absent" /\ h[a] \in {"valid", "other"} THEN h[a] ELSE est[a]]
(* (an address that does not parse is not the established one) *)
AddrSame(est, h) == \A a \in {"to", "from"} : h[a] = "absent" \/ est[a] = "absent" \/ h[a] = est[a]

VARIABLES hs,        \* the headers the peer has sent so far, one per stream
          k,         \* the stream we are in (= Len(hs))
          spc, sverdict,
          info,      \* IAttrs -> 0..k
          estab
svars == <<hs, k, spc, sverdict, info, estab>>

Cur == hs[k]
ViewOf(a, none) == IF info[a] = 0 THEN none ELSE hs[info[a]][a]
(* the header as the checks see it *)
View == [Cur EXCEPT !.version = ViewOf("version", VAbsent), !.id = ViewOf("id", "absent"),
                    !.xmlns = IF Cur.name = "open" THEN "absent" ELSE ViewOf("xmlns", "absent")]

(* the first header of a session: h \in H *)
SeqInit(H) ==
  /\ \E h \in H : hs = <<h>>
  /\ k = 1 /\ spc = "pre" /\ sverdict = "none"
  /\ info = [a \in IAttrs |-> 0]
  /\ estab = Estab0(hs[1].role)

SReject(why) == spc' = "done" /\ sverdict' = why /\ UNCHANGED <<hs, k, info, estab>>
SGoto(p) == spc' = p /\ UNCHANGED <<hs, k, sverdict, info, estab>>

SSkipPre == spc = "pre" /\ (SGoto("error") \/ (Cur.pre # "none" /\ SReject("reject")))
SCheckError == spc = "error" /\ IF Cur.name = "error" THEN SReject("streamerror") ELSE SGoto("name")
SCheckName == spc = "name" /\ IF IsOpenElement(Cur) THEN SGoto("attrs") ELSE SReject("reject")
SParseAttrs ==
  /\ spc = "attrs"
  /\ \/ /\ info' = [a \in IAttrs |-> IF Written(Cur, a) THEN k ELSE info[a]]
        /\ spc' = "version" /\ UNCHANGED <<hs, k, sverdict, estab>>
     \/ ("invalid" \in {Cur.to, Cur.from} \/ (Cur.version.present /\ ~PlainVersion(Cur.version))) /\ SReject("reject")
SCheckVersion == spc = "version" /\ IF Is10(View.version) THEN SGoto("ns") ELSE SReject("reject")
SCheckNs == spc = "ns" /\ IF NsSupported(View) THEN SGoto("id") ELSE SReject("reject")
SCheckId == spc = "id" /\ IF IdOK(View) THEN SGoto("addr") ELSE SReject("reject")
(* negotiator.go: the addresses against those established (the first header of a session *)
(* is outside the rule: the property speaks of headers after a restart)                 *)
SCheckAddr == spc = "addr" /\ IF k = 1 \/ AddrSame(estab, Cur) THEN (SReject("accept") \/ SReject("reject")) ELSE SReject("reject")
(* negotiateSession: a restart clears the input Info but for the addresses, and the    *)
(* peer sends its next header: any of Cont(hs), the continuations of the sequence so far *)
(* (deviation of the non-vacuity run: the Info is not cleared)                          *)
SRestart(Cont(_)) ==
  /\ spc = "done" /\ sverdict = "accept"
  /\ \E h \in Cont(hs) : hs' = Append(hs, h)
  /\ k' = k + 1 /\ spc' = "pre" /\ sverdict' = "none"
  /\ estab' = Learn(estab, Cur)
  /\ info' = IF "KeepInfoAcrossRestart" \in Dev THEN info
             ELSE [a \in IAttrs |-> IF a \in {"to", "from"} THEN info[a] ELSE 0]

SeqStep == SSkipPre \/ SCheckError \/ SCheckName \/ SParseAttrs \/ SCheckVersion \/ SCheckNs \/ SCheckId \/ SCheckAddr
(* Expectation for header j of the sequence s, given that the headers before it were    *)
(* accepted: a function of header j and of the ADDRESSES of the earlier ones only.      *)
RECURSIVE EstabAt(_, _)
EstabAt(s, j) == IF j = 1 THEN Estab0(s[1].role) ELSE Learn(EstabAt(s, j - 1), s[j - 1])
ExpectAt(s, j) ==
  LET h == s[j] IN
  IF h.name = "error" THEN (IF h.pre = "none" THEN "streamerror" ELSE "error")
  ELSE IF MayAccept(h) /\ (j = 1 \/ AddrSame(EstabAt(s, j), h)) THEN "any" ELSE "reject"
(* What a session that accepted header j reports: "real" = the value header j carries;  *)
(* for an attribute it does not carry: "own" = nothing of an earlier header (and not a  *)
(* look-alike's value); to / from: "notlook" (the established address may stay)         *)
RecoverAt(s, j) ==
  [a \in IAttrs |-> IF s[j].name # "error" /\ CarriesI(s[j], a) THEN "real"
                    ELSE IF a \in {"to", "from"} THEN "notlook" ELSE "own"]

C12_SeqAcceptOnlyIf ==
  (spc = "done" /\ sverdict = "accept") => MayAccept(Cur) /\ (k > 1 => AddrSame(estab, Cur))
C12_SeqInfoOwn ==
  (spc = "done" /\ sverdict = "accept") =>
     \A a \in IAttrs : /\ (Written(Cur, a) => info[a] = k)
                       /\ (a \notin {"to", "from"} => info[a] \in {0, k})
C12_SeqStreamErrorReturned ==
  (spc = "done" /\ Cur.name = "error") => sverdict = "streamerror" \/ (Cur.pre # "none" /\ sverdict = "reject")
C12_SeqVerdictMatchesExpectation ==
  /\ estab = EstabAt(hs, k)
  /\ spc = "done" => CASE ExpectAt(hs, k) = "reject" -> sverdict = "reject"
                       [] ExpectAt(hs, k) = "streamerror" -> sverdict = "streamerror"
                       [] ExpectAt(hs, k) = "error" -> sverdict \in {"streamerror", "reject"}
                       [] OTHER -> sverdict \in {"accept", "reject"}

(* The sequences.  Earlier headers are complete, acceptable headers of the framing in   *)
(* use (all attributes, or none of the addresses so that a receiver learns them later); *)
(* the LAST header is drawn from the universe of header variants of part (b).           *)
Complete(ro, f) == GoodHdr(ro, f, V10, "set", "valid", "valid", "set", NoLook)
Bare(ro, f) == GoodHdr(ro, f, V10, "set", "absent", "absent", "set", NoLook)
Heads == {Complete(ro, f) : ro \in Roles, f \in Framings} \cup {Bare(ro, f) : ro \in Roles, f \in Framings}
(* presence / value of every attribute next to an otherwise good stream-open *)
SmallHdrs(ros, fs, pres) ==
  {g \in {[GoodHdr(ro, f, ve, i, t, fr, lg, NoLook) EXCEPT !.xmlns = ns, !.pre = p] :
            ro \in ros, f \in fs, ve \in {VAbsent, V10, V09}, i \in {"absent", "empty", "set"},
            t \in AddrVals, fr \in AddrVals, lg \in {"absent", "set"}, ns \in {"client", "server", "absent"}, p \in pres} :
     g.framing = "ws" => g.xmlns = "absent"}
(* What may follow the accepted sequence s (same role, same framing):                    *)
(*   one restart  - after a complete header every variant of part (b) (with the four     *)
(*                  address values) and every look-alike vector; after a header without  *)
(*                  addresses the attribute-presence family behind every prefix;         *)
(*   two restarts - after <<complete, complete>> and <<bare, complete>> the               *)
(*                  attribute-presence family.                                           *)
(* (thorough tier, MaxStr >= 3: XML declaration / whitespace in front and every version   *)
(* form after one restart; the whole product and the look-alikes after two)              *)
SeqDeep == MaxStr >= 3
SeqCont(s) ==
  LET ro == s[1].role
      f == s[1].framing
  IN CASE s = <<Complete(ro, f)>> ->
            AcceptVectorsOf({ro}, {f}, IF SeqDeep THEN {"none", "decl", "space"} ELSE {"none"}, AddrVals)
            \cup LookVectorsOf({ro}, {f})
            \cup (IF SeqDeep THEN VersionVectorsOf({ro}, {f}) ELSE {})
       [] s = <<Bare(ro, f)>> -> SmallHdrs({ro}, {f}, {"none", "decl", "space"})
       [] Len(s) = 2 /\ s[1] \in Heads /\ s[2] = Complete(ro, f) ->
            SmallHdrs({ro}, {f}, {"none"})
            \cup (IF SeqDeep THEN AcceptVectorsOf({ro}, {f}, {"none"}, AddrVals) \cup LookVectorsOf({ro}, {f}) ELSE {})
       [] OTHER -> {}
SeqNext == SeqStep \/ SRestart(SeqCont)
=============================================================================
