------------------------------ MODULE Header ------------------------------
(***************************************************************************)
(* Stream headers (RFC 6120 section 4.7, RFC 7395 section 3.3), parts (a)  *)
(* and (b) of property C12.                                                *)
(*                                                                         *)
(* (a) Emit: internal/stream.Send prints the header attribute by           *)
(*     attribute.  The property asks that the result is well-formed XML    *)
(*     and that a peer parsing it recovers the same addresses, id,         *)
(*     version, language and content namespace.  Attribute values are      *)
(*     modelled character by character over a small alphabet that holds   *)
(*     every character with a special meaning inside a quoted attribute.   *)
(* (b) Accept: internal/stream.Expect + stream.Info.FromStartElement,      *)
(*     one action per check, in the order of the code.  The property       *)
(*     gives necessary conditions for acceptance only ("accepted only      *)
(*     if ..."); everything else (addresses that do not parse, a content   *)
(*     namespace that does not fit the session type, an XML declaration,   *)
(*     leading whitespace) is left to the implementation.                  *)
(***************************************************************************)
EXTENDS Integers, Sequences, FiniteSets, TLC

CONSTANTS MaxStr,   \* longest resourcepart / language string (MC and emission)
          Dev       \* enabled deviations (empty = the property's rules)

-----------------------------------------------------------------------------
(* Part (a)                                                                         *)

(* characters: 1 = an ordinary letter, 2 = ' , 3 = & , 4 = < , 5 = > , 6 = "        *)
Chars == 1..6
Apos == 2
Amp  == 3
Lt   == 4
Strs(n) == UNION {[1..k -> Chars] : k \in 0..n}

(* A value on the wire is a sequence of tokens: the raw character c, or a reference *)
(* (entity / character reference) to c, written 10 + c.                             *)
Ref(c) == 10 + c
(* what a writer may put for character c inside an attribute delimited by q: the    *)
(* delimiter, & and < have to be written as references, anything may be             *)
MustRef(c, q) == c \in {Amp, Lt, q}
Encodings(s, q) ==
  {w \in [1..Len(s) -> Chars \cup {Ref(c) : c \in Chars}] :
     \A i \in 1..Len(s) : w[i] = Ref(s[i]) \/ (w[i] = s[i] /\ ~MustRef(s[i], q))}
(* the pinned code prints addresses as they are *)
RawEncoding(s) == s

WellFormedValue(w, q) == \A i \in 1..Len(w) : ~(w[i] \in Chars /\ MustRef(w[i], q))
Decode(w) == [i \in 1..Len(w) |-> IF w[i] > 10 THEN w[i] - 10 ELSE w[i]]

(* An address: localpart and domainpart cannot hold special characters (RFC 7622),  *)
(* the resourcepart can.                                                            *)
JIDs(n) == [l : {"", "me"}, d : {"example.net"}, r : Strs(n)]
NoJID == [l |-> "", d |-> "", r |-> <<>>]

(* One emission: who sends (role, s2s, framing), the addresses and the language.    *)
EmitVec(role, s2s, framing, to, from, lang) ==
  [role |-> role, s2s |-> s2s, framing |-> framing, to |-> to, from |-> from, lang |-> lang]

(* what a peer has to recover *)
Recovered(x) ==
  [to |-> x.to, from |-> x.from, lang |-> x.lang, version |-> "1.0",
   xmlns |-> IF x.framing = "ws" THEN "urn:ietf:params:xml:ns:xmpp-framing"
             ELSE IF x.s2s THEN "jabber:server" ELSE "jabber:client",
   name |-> IF x.framing = "ws" THEN "open" ELSE "stream",
   id |-> IF x.role = "recv" THEN "set" ELSE "absent"]

VARIABLES x, wire     \* the emission and the tokens written for its three free-text values
avars == <<x, wire>>

WireOf(s) == IF "RawAttributes" \in Dev THEN {RawEncoding(s)} ELSE Encodings(s, Apos)

EmitInit(X) ==
  /\ x \in X
  /\ wire \in [to : WireOf(x.to.r), from : WireOf(x.from.r), lang : WireOf(x.lang)]
EmitNext == UNCHANGED avars

C12_EmitWellFormed ==
  /\ WellFormedValue(wire.to, Apos) /\ WellFormedValue(wire.from, Apos) /\ WellFormedValue(wire.lang, Apos)
C12_EmitRoundTrip ==
  /\ Decode(wire.to) = x.to.r /\ Decode(wire.from) = x.from.r /\ Decode(wire.lang) = x.lang

(* The vectors: special characters in one value at a time, then in all of them.     *)
Roles == {"init", "recv"}
Framings == {"tcp", "ws"}
A0 == [l |-> "me", d |-> "example.net", r |-> <<>>]
B0 == [l |-> "", d |-> "example.net", r |-> <<>>]
(* A receiving server-to-server session has no way to learn the initiator's address   *)
(* (ReceiveSession takes none and negotiator.go refuses to learn it from the header): *)
(* its response carries no 'to'.                                                      *)
Norm(e) == IF e.role = "recv" /\ e.s2s THEN [e EXCEPT !.to = NoJID] ELSE e
EmitVectors(n) ==
  LET S == Strs(n) IN
  {Norm(e) : e \in UNION {
    {EmitVec(ro, s, f, [B0 EXCEPT !.r = r, !.l = l], A0, <<1>>) : r \in S, l \in {"", "me"}}
    \cup {EmitVec(ro, s, f, B0, [A0 EXCEPT !.r = r, !.l = l], <<1>>) : r \in S, l \in {"", "me"}}
    \cup {EmitVec(ro, s, f, B0, [A0 EXCEPT !.r = <<1, 2>>], lg) : lg \in S}
    \cup {EmitVec(ro, s, f, [B0 EXCEPT !.r = r], [A0 EXCEPT !.r = r], r) : r \in S}
    : ro \in Roles, s \in BOOLEAN, f \in Framings}}

(* A Negotiator is a VALUE as well: a server builds one (xmpp.NewNegotiator /          *)
(* websocket.Negotiator with its configuration function) and negotiates every         *)
(* connection with it.  The header of a session carries that session's own addresses  *)
(* and the language the application configured; nothing of the sessions negotiated    *)
(* before.  Before the configuration function has been called for a session the       *)
(* library knows only what the function returned when the Negotiator was built; that  *)
(* is the language of the session's first header also when the function answers       *)
(* differently for every session (mode "persession").                                 *)
(* A scenario: emissions that differ only in their addresses, one after the other     *)
(* through one Negotiator; expected: what each of them yields on its own.             *)
SharedEmitScenario(mode, es) == [mode |-> mode, sess |-> es]
ExpSharedEmit(sx) == [i \in DOMAIN sx.sess |-> Recovered(sx.sess[i])]
SharedEmitScenarios ==
  LET P == {<<[B0 EXCEPT !.r = <<1>>], A0>>, <<B0, [A0 EXCEPT !.r = <<1, 2>>]>>, <<[B0 EXCEPT !.l = "me"], [A0 EXCEPT !.l = ""]>>}
      AS == [1..2 -> P] \cup [1..3 -> P]
  IN {SharedEmitScenario(m, [i \in DOMAIN as |-> Norm(EmitVec(ro, s, f, as[i][1], as[i][2], lg))]) :
        m \in {"const", "persession"}, ro \in Roles, s \in BOOLEAN, f \in Framings, lg \in {<<1>>, <<1, 3>>}, as \in AS}

-----------------------------------------------------------------------------
(* Part (b)                                                                         *)

Versions == {"absent", "1.0", "0.9", "1.1", "2.0", "garbage"}
(* name: stream   = <stream:stream/> in the streams namespace (the TCP stream-open)  *)
(*       open     = <open/> in the framing namespace (the WebSocket stream-open)     *)
(*       othername / otherns = another local name / the right local name elsewhere   *)
(*       error    = a stream error in place of a header                              *)
Names == {"stream", "open", "othername", "otherns"}
Conds == {"host-unknown", "not-authorized", "see-other-host"}

HdrVec(role, framing, name, xmlns, version, id, to, from, pre, cond) ==
  [role |-> role, framing |-> framing, name |-> name, xmlns |-> xmlns, version |-> version, id |-> id,
   to |-> to, from |-> from, pre |-> pre, cond |-> cond]

AcceptVectors(pres, addrs) ==
  {h \in {HdrVec(ro, f, n, ns, ve, i, t, fr, p, "") :
             ro \in Roles, f \in Framings, n \in Names, ns \in {"client", "server", "other", "absent"},
             ve \in Versions, i \in {"absent", "empty", "set"}, t \in addrs, fr \in addrs, p \in pres} :
     h.name = "open" => h.xmlns = "absent"}     \* <open/> declares no content namespace
  \cup {HdrVec(ro, f, "error", "", "", "", "", "", p, c) : ro \in Roles, f \in Framings, p \in pres, c \in Conds}

IsOpenElement(v) == (v.framing = "tcp" /\ v.name = "stream") \/ (v.framing = "ws" /\ v.name = "open")
(* the content namespace is the default namespace declared on <stream:stream/>; the  *)
(* WebSocket <open/> declares none (RFC 7395)                                        *)
NsSupported(v) == v.framing = "ws" \/ v.xmlns \in {"client", "server"}
IdOK(v) == v.role = "recv" \/ v.id = "set"
MayAccept(v) == v.name # "error" /\ IsOpenElement(v) /\ NsSupported(v) /\ v.version = "1.0" /\ IdOK(v)

(* Expected verdict of the property: "reject" where a necessary condition fails,     *)
(* "streamerror" (the error itself is returned) for a stream error, else no opinion. *)
(* (an XML declaration or whitespace in front may itself be refused: then any error)   *)
Expect(v) == IF v.name = "error" THEN (IF v.pre = "none" THEN "streamerror" ELSE "error")
             ELSE IF MayAccept(v) THEN "any" ELSE "reject"

VARIABLES v, pc, verdict
bvars == <<v, pc, verdict>>

AcceptInit(V) == v \in V /\ pc = "pre" /\ verdict = "none"

Reject(why) == pc' = "done" /\ verdict' = why /\ UNCHANGED v
Goto(p) == pc' = p /\ UNCHANGED <<v, verdict>>

(* decl.Skip and the whitespace rule of the negotiating reader *)
SkipPre == pc = "pre" /\ (Goto("error") \/ (v.pre # "none" /\ Reject("reject")))
(* a stream error is decoded and returned as the error *)
CheckError == pc = "error" /\ IF v.name = "error" THEN Reject("streamerror") ELSE Goto("name")
CheckName == pc = "name" /\ IF IsOpenElement(v) THEN Goto("attrs") ELSE Reject("reject")
(* FromStartElement: addresses that do not parse may be refused; so may an           *)
(* unparsable version (it cannot be 1.0 either way)                                  *)
ParseAttrs ==
  /\ pc = "attrs"
  /\ \/ Goto("version")
     \/ ("invalid" \in {v.to, v.from} \/ v.version = "garbage") /\ Reject("reject")
CheckVersion ==
  /\ pc = "version"
  /\ IF v.version = "1.0" \/ ("AcceptOldVersion" \in Dev /\ v.version = "0.9") THEN Goto("ns") ELSE Reject("reject")
CheckNs == pc = "ns" /\ IF NsSupported(v) THEN Goto("id") ELSE Reject("reject")
CheckId == pc = "id" /\ IF IdOK(v) THEN (Reject("accept") \/ Reject("reject")) ELSE Reject("reject")

AcceptNext == SkipPre \/ CheckError \/ CheckName \/ ParseAttrs \/ CheckVersion \/ CheckNs \/ CheckId

C12_AcceptOnlyIf == verdict = "accept" => MayAccept(v)
C12_StreamErrorReturned ==
  (pc = "done" /\ v.name = "error") => verdict = "streamerror" \/ (v.pre # "none" /\ verdict = "reject")
(* the verdict of the step rules always lies within the expectation emitted for the vector *)
C12_VerdictMatchesExpectation ==
  pc = "done" => CASE Expect(v) = "reject" -> verdict = "reject"
                   [] Expect(v) = "streamerror" -> verdict = "streamerror"
                   [] Expect(v) = "error" -> verdict \in {"streamerror", "reject"}
                   [] OTHER -> verdict \in {"accept", "reject"}
=============================================================================
