CONSTANTS
  Mechs = {"M1","M2","M3"}
  MaxPeer = 4
  MaxSteps = 3
  Roles = {"client","server"}
  MaxSess = 2
  Dev = {}
SPECIFICATION Spec
INVARIANT C03_ClientAuthn
INVARIANT C03_ServerAuthn
INVARIANT C03_MechanismMutual
PROPERTY C03_StepOnlySelected
PROPERTY C03_NoStepAfterError
PROPERTY C03_AuthnStable
PROPERTY C03_SessionFresh
CHECK_DEADLOCK FALSE
