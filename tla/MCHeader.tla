------------------------------ MODULE MCHeader ------------------------------
(* Design checks of Header.tla: part (a) over every emission vector with every       *)
(* permitted encoding, part (b) over every acceptance vector and every run of the    *)
(* step rules, part (b') over every sequence of headers across one / two restarts.   *)
EXTENDS Header

NoSeq == hs = 0 /\ k = 0 /\ spc = "" /\ sverdict = "" /\ info = 0 /\ estab = 0

InitA == EmitInit(EmitVectors(MaxStr)) /\ v = 0 /\ pc = "" /\ verdict = "" /\ NoSeq
SpecA == InitA /\ [][EmitNext /\ UNCHANGED <<bvars, svars>>]_<<avars, bvars, svars>>

InitB == AcceptInit(AcceptVectors({"none", "decl", "space"}, {"absent", "valid", "invalid"})) /\ x = 0 /\ wire = 0 /\ NoSeq
SpecB == InitB /\ [][AcceptNext /\ UNCHANGED <<avars, svars>>]_<<avars, bvars, svars>>
(* (non-vacuity runs of the version and look-alike dimensions: those vectors only) *)
InitBV == (v \in VersionVectors \/ v \in LookVectors) /\ pc = "pre" /\ verdict = "none" /\ x = 0 /\ wire = 0 /\ NoSeq
SpecBV == InitBV /\ [][AcceptNext /\ UNCHANGED <<avars, svars>>]_<<avars, bvars, svars>>

(* sequences across restarts: the first header is a complete / bare one, every restart *)
(* continues with any header of SeqCont                                                 *)
NoAB == x = 0 /\ wire = 0 /\ v = 0 /\ pc = "" /\ verdict = ""
InitS == SeqInit(Heads) /\ NoAB
SpecS == InitS /\ [][SeqNext /\ UNCHANGED <<avars, bvars>>]_<<avars, bvars, svars>>
(* (non-vacuity runs: one restart, the attribute-presence family with unchanged addresses) *)
TinyCont(s) == IF Len(s) = 1 THEN {h \in SmallHdrs({s[1].role}, {s[1].framing}, {"none"}) : h.to = "valid" /\ h.from \in {"valid", "absent"}} ELSE {}
SpecSV == InitS /\ [][(SeqStep \/ SRestart(TinyCont)) /\ UNCHANGED <<avars, bvars>>]_<<avars, bvars, svars>>
=============================================================================
