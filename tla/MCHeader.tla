------------------------------ MODULE MCHeader ------------------------------
(* Design checks of Header.tla: part (a) over every emission vector with every       *)
(* permitted encoding, part (b) over every acceptance vector and every run of the    *)
(* step rules.                                                                       *)
EXTENDS Header

InitA == EmitInit(EmitVectors(MaxStr)) /\ v = 0 /\ pc = "" /\ verdict = ""
SpecA == InitA /\ [][EmitNext /\ UNCHANGED bvars]_<<avars, bvars>>

InitB == AcceptInit(AcceptVectors({"none", "decl", "space"}, {"absent", "valid", "invalid"})) /\ x = 0 /\ wire = 0
SpecB == InitB /\ [][AcceptNext /\ UNCHANGED avars]_<<avars, bvars>>
(* (non-vacuity runs of the version and look-alike dimensions: those vectors only) *)
InitBV == (v \in VersionVectors \/ v \in LookVectors) /\ pc = "pre" /\ verdict = "none" /\ x = 0 /\ wire = 0
SpecBV == InitBV /\ [][AcceptNext /\ UNCHANGED avars]_<<avars, bvars>>
=============================================================================
