------------------------------ MODULE EmitMux ------------------------------
(* Pipeline B of C14: TLC evaluates the reference function Dispatch of Mux.tla on the *)
(* vector domain and writes inputs together with the expected outcome.               *)
(* Patterns are referred to by their index in PatU (written to mux_universe.json).   *)
EXTENDS Mux, Json, SequencesExt

CONSTANTS Tier,  \* "quick" | "thorough"
          Part   \* 0 = every group, 1..4 = a part of the groups (run in parallel; 4 = nested routing)

NameSeq == << Nm("", ""), Nm("", "x"), Nm("", "y"), Nm("A", ""), Nm("A", "x"), Nm("A", "y"),
              Nm("B", ""), Nm("B", "x"), Nm("B", "y") >>
KT == << <<"top", "">>, <<"iq", "get">>, <<"iq", "set">>, <<"iq", "result">>, <<"iq", "error">>,
         <<"msg", "normal">>, <<"msg", "chat">>, <<"pres", "">>, <<"pres", "unavailable">> >>
(* pattern 82: a top-level namespace-only pattern for the multiplexer's OWN stanza namespace (mux.Handle accepts it: *)
(* it refuses stanza NAMES only); it matches every stanza, which is a top-level element like any other              *)
NPat == 82
PatU == [i \in 1..NPat |-> IF i = 82 THEN Pat("top", "", "NS", "")
                           ELSE Pat(KT[((i - 1) \div 9) + 1][1], KT[((i - 1) \div 9) + 1][2],
                                    NameSeq[((i - 1) % 9) + 1].sp, NameSeq[((i - 1) % 9) + 1].lo)]
Idx(p) == CHOOSE i \in 1..NPat : PatU[i] = p

Bit(m, i) == (m \div (2 ^ (i - 1))) % 2 = 1
Own(kt, m) == {(kt - 1) * 9 + i : i \in {j \in 1..9 : Bit(m, j)}}
(* the same nine names registered for another type of the same kind, for the        *)
(* top-level table and for another stanza kind: all of them must be ignored          *)
OtherKT(kt) == CASE kt = 1 -> {2, 6}  [] kt = 2 -> {3, 1, 6} [] kt = 3 -> {2, 1, 8}
                 [] kt = 4 -> {5, 1, 6} [] kt = 5 -> {4, 1, 8} [] kt = 6 -> {7, 1, 2}
                 [] kt = 7 -> {6, 1, 8} [] kt = 8 -> {9, 1, 6} [] OTHER -> {8, 1, 2}
Others(kt) == UNION {Own(o, 511) : o \in OtherKT(kt)}
TableIdx(kt, m, oth) == Own(kt, m) \cup (IF oth = 1 THEN Others(kt) ELSE {})
TableOf(ix) == {PatU[i] : i \in ix}

InNames == <<Nm("A", "x"), Nm("A", "y"), Nm("B", "x"), Nm("B", "y"), Nm("C", "z")>>
KidAlpha == <<Nm("A", "x"), Nm("A", "y"), Nm("B", "x"), Nm("B", "y"), Nm("C", "z"), Txt>>
KidSeqsN(n) == {s \in UNION {[1..m -> 1..6] : m \in 0..n} :
                  \A i \in 1..(Len(s) - 1) : ~(s[i] = 6 /\ s[i + 1] = 6)}
Kids(s) == [i \in 1..Len(s) |-> KidAlpha[s[i]]]
Code(s) == IF Len(s) = 0 THEN 0 ELSE IF Len(s) = 1 THEN s[1] ELSE IF Len(s) = 2 THEN s[1] * 7 + s[2]
           ELSE s[1] * 49 + s[2] * 7 + s[3]

WType(kt) == IF kt = 8 THEN "" ELSE KT[kt][2]      \* type attribute as written
TopEl(n) == El("top", n.sp, n.lo, "", "", "", <<>>)
St(kt, t, from, kids) == El(KT[kt][1], "NS", KT[kt][1], t, "i1", from, kids)

ProgOf(c, L) == CASE c = 0 -> 0 [] c = 1 -> 1 [] c = 2 -> L [] c = 3 -> L + 1 [] c = 4 -> 2 [] OTHER -> L - 1
NProg == IF Tier = "quick" THEN 4 ELSE 6
(* programs derived from the vector's coordinates (every combination is swept separately) *)
DerivedProgs(e, seed) == [i \in 1..Max(1, Len(e.kids)) |-> ProgOf((seed + 3 * i) % NProg, Len(Tokens(e)))]

OutAlt(a) == [inv |-> [i \in 1..Len(a.inv) |-> [h |-> Idx(a.inv[i].h), seen |-> a.inv[i].seen, eof |-> a.inv[i].eof]],
              wire |-> a.wire]
(* the table itself is not repeated in every vector: the driver rebuilds it from      *)
(* (kt, mask, oth) with the index sets written to mux_universe.json                  *)
VecX(kt, m, oth, ex, e, pr) ==
  [kt |-> kt, mask |-> m, oth |-> oth, extra |-> SetToSeq(ex), el |-> e, progs |-> pr,
   alts |-> SetToSeq({OutAlt(a) : a \in Alternatives(TableOf(TableIdx(kt, m, oth) \cup ex), e, pr)})]
Vec(kt, m, oth, e, pr) == VecX(kt, m, oth, {}, e, pr)

(* vector groups are SEQUENCES indexed by a mixed-radix code (no big sets to normalise) *)
D(i, div, mod) == ((i - 1) \div div) % mod
KS1 == SetToSeq(KidSeqsN(1))
KS2 == SetToSeq(KidSeqsN(2))
KS3 == SetToSeq(KidSeqsN(3))
KSq(n) == IF n = 1 THEN KS1 ELSE IF n = 2 THEN KS2 ELSE KS3

VTop == [i \in 1..(512 * 2 * 5) |-> Vec(1, D(i, 1, 512), D(i, 512, 2), TopEl(InNames[D(i, 1024, 5) + 1]), <<>>)]
VIq == [i \in 1..(512 * 2 * 5 * 4) |->
          LET m == D(i, 1, 512)  kt == D(i, 5120, 4) + 2
          IN Vec(kt, m, D(i, 512, 2), St(kt, WType(kt), IF m % 2 = 0 THEN "f" ELSE "", <<InNames[D(i, 1024, 5) + 1]>>), <<>>)]
VIqEmpty == [i \in 1..1024 |-> Vec(4, D(i, 1, 512), D(i, 512, 2), St(4, "result", "f", <<>>), <<>>)]
TwoMasks == <<0, 1, 16, 17, 273, 511>>
VIqTwo == [i \in 1..(6 * 5 * 5 * 2) |->
             LET kt == IF D(i, 150, 2) = 0 THEN 2 ELSE 4
             IN Vec(kt, TwoMasks[D(i, 1, 6) + 1], 1,
                    St(kt, WType(kt), "f", <<InNames[D(i, 6, 5) + 1], InNames[D(i, 30, 5) + 1]>>), <<>>)]
StanzaBase(kt, n) ==
  [i \in 1..(512 * Len(KSq(n))) |->
     LET m == D(i, 1, 512)  s == KSq(n)[D(i, 512, Len(KSq(n))) + 1]
         e == St(kt, WType(kt), "f", Kids(s))
     IN Vec(kt, m, (m + Code(s)) % 2, e, DerivedProgs(e, m + Code(s)))]
(* message without a type attribute / with an unknown one is a normal message *)
VMsgType == [i \in 1..(512 * 2 * Len(KS1)) |->
               LET m == D(i, 1, 512)  t == IF D(i, 512, 2) = 0 THEN "" ELSE "bogus"
                   e == St(6, t, "f", Kids(KS1[D(i, 1024, Len(KS1)) + 1]))
               IN Vec(6, m, 1, e, DerivedProgs(e, m))]
SweepMasks == <<0, 1, 16, 17, 3, 146, 273, 511>>
Pow(b, n) == IF n = 0 THEN 1 ELSE IF n = 1 THEN b ELSE IF n = 2 THEN b * b ELSE b * b * b
Sweep(kt, n, np) ==
  [i \in 1..(8 * Len(KSq(n)) * Pow(np, n)) |->
     LET s == KSq(n)[D(i, 8, Len(KSq(n))) + 1]
         e == St(kt, WType(kt), "f", Kids(s))
         c == D(i, 8 * Len(KSq(n)), Pow(np, n))
     IN Vec(kt, SweepMasks[D(i, 1, 8) + 1], 1, e,
            [j \in 1..Max(1, Len(s)) |-> ProgOf((c \div Pow(np, j - 1)) % np, Len(Tokens(e)))])]

(* registration attempts: pattern (kt, ni) possibly already registered with handler   *)
(* "h1"; the attempt brings "h2", a nil interface value or a nil func; afterwards an  *)
(* element that matches the pattern exactly shows which handler the table holds.      *)
Concrete(n) == Nm(IF n.sp = "" THEN "A" ELSE n.sp, IF n.lo = "" THEN "x" ELSE n.lo)
Forms == <<"h2", "nil", "nilfunc">>
VReg == [i \in 1..(9 * 9 * 2 * 3) |->
           LET kt == D(i, 1, 9) + 1  ni == D(i, 9, 9) + 1  pre == D(i, 81, 2)  form == Forms[D(i, 162, 3) + 1]
               p == PatU[(kt - 1) * 9 + ni]
               t0 == IF pre = 1 THEN [q \in {p} |-> "h1"] ELSE [q \in {} |-> "h1"]
               h == IF form = "h2" THEN "h2" ELSE "nil"
               t1 == RegApply(t0, p, h)
               e == IF kt = 1 THEN TopEl(Concrete(NameSeq[ni])) ELSE St(kt, WType(kt), "f", <<Concrete(NameSeq[ni])>>)
               d == Dispatch(DOMAIN t1, e, <<0>>)
           IN [kt |-> kt, ni |-> ni, pre |-> pre, form |-> form, el |-> e,
               refused |-> ~RegOK(t0, p, h),
               inv |-> [j \in 1..Len(d.inv) |-> [h |-> Idx(d.inv[j].h), hid |-> t1[d.inv[j].h]]],
               wire |-> d.wire]]

(* the stanza namespace as a top-level namespace-only pattern: it takes every stanza (whole, from its start element) *)
(* before the stanza tables are consulted, and no other top-level element                                          *)
VNSTop == [i \in 1..(8 * 8 * 5) |->
             LET kt == D(i, 1, 8) + 2  m == SweepMasks[D(i, 8, 8) + 1]
                 e == St(kt, WType(kt), "f", <<InNames[D(i, 64, 5) + 1]>>)
             IN VecX(kt, m, i % 2, {82}, e, DerivedProgs(e, m + i))]
          \o [i \in 1..(8 * 5) |-> VecX(1, SweepMasks[D(i, 1, 8) + 1], i % 2, {82}, TopEl(InNames[D(i, 8, 5) + 1]), <<>>)]
          \o [i \in 1..8 |-> VecX(D(i, 1, 8) + 2, 0, 0, {82}, St(D(i, 1, 8) + 2, WType(D(i, 1, 8) + 2), "f", <<>>), <<2>>)]
(* nested routing: the handler of invocation `at` of the outer message / presence routes an inner stanza (its own  *)
(* reader and encoder) through the same multiplexer, before or after it reads what it was handed; the expectation *)
(* is Mux!NestedAt: every handler - also those of the outer stanza's later children - obtains ITS stanza whole    *)
St2(kt, t, kids) == El(KT[kt][1], "NS", KT[kt][1], t, "i2", "f", kids)
InnerSeq == << St2(6, "normal", Kids(<<4>>)), St2(6, "", Kids(<<5, 1>>)), St2(6, "normal", <<>>), St2(8, "", Kids(<<2, 6, 3>>)),
               St2(2, "get", Kids(<<1>>)), St2(7, "chat", Kids(<<1, 4>>)) >>
HasElem(s) == \E i \in 1..Len(s) : s[i] # 6
NestOuter == IF Tier = "quick" THEN SelectSeq(KS2, HasElem) \o << <<1, 4, 2>>, <<1, 6, 4>>, <<5, 1, 1>> >>
             ELSE SelectSeq(KS3, HasElem)
AtWhen == << <<1, "pre">>, <<1, "post">>, <<2, "pre">>, <<2, "post">>, <<3, "pre">> >>
NAtWhen == IF Tier = "quick" THEN 4 ELSE 5
OutAltN(a) == [inv |-> [i \in 1..Len(a.inv) |-> [h |-> Idx(a.inv[i].h), seen |-> a.inv[i].seen, eof |-> a.inv[i].eof]],
               wire |-> a.wire, wire2 |-> a.wire2]
VNest == [i \in 1..(2 * 8 * Len(NestOuter) * Len(InnerSeq) * NAtWhen) |->
            LET kt == IF D(i, 1, 2) = 0 THEN 6 ELSE 8
                m == SweepMasks[D(i, 2, 8) + 1]
                s == NestOuter[D(i, 16, Len(NestOuter)) + 1]
                b == InnerSeq[D(i, 16 * Len(NestOuter), Len(InnerSeq)) + 1]
                aw == AtWhen[D(i, 16 * Len(NestOuter) * Len(InnerSeq), NAtWhen) + 1]
                e == St(kt, WType(kt), "f", Kids(s))
                pa == DerivedProgs(e, m + Code(s) + i)
                pb == DerivedProgs(b, i)
            IN [kt |-> kt, mask |-> m, oth |-> 1, extra |-> <<>>, el |-> e, progs |-> pa,
                nest |-> [at |-> aw[1], when |-> aw[2], el |-> b, progs |-> pb],
                alts |-> << OutAltN(NestedAt(TableOf(TableIdx(kt, m, 1)), e, pa, aw[1], aw[2], b, pb)) >>]]
Deep == IF Tier = "quick" THEN 2 ELSE 3
Groups == << VTop, VIq, VIqEmpty, VIqTwo, StanzaBase(6, Deep), StanzaBase(8, Deep), StanzaBase(7, 1),
             StanzaBase(9, 1), VMsgType, Sweep(6, 2, NProg), Sweep(8, 2, NProg),
             IF Tier = "quick" THEN <<>> ELSE Sweep(6, 3, 4), VNSTop, VNest >>

InPart(g) == Part = 0 \/ (Part = 1 /\ g \in {1, 2, 3, 4, 7, 8, 9, 13}) \/ (Part = 2 /\ g \in {5, 10})
             \/ (Part = 3 /\ g \in {6, 11, 12}) \/ (Part = 4 /\ g = 14)
ASSUME JsonSerialize("mux_universe.json",
                     [pats |-> PatU, others |-> [kt \in 1..9 |-> SetToSeq(Others(kt))],
                      \* the ways the driver makes the multiplexer of a vector (Mux!Ctors): the expectation does not depend on it
                      ctors |-> <<"new", "zero", "late", "afteruse">>])
ASSUME \A g \in 1..14 : InPart(g) => ndJsonSerialize("mux_vectors_" \o ToString(g) \o ".ndjson", Groups[g])
ASSUME Part \in {0, 1} => ndJsonSerialize("mux_reg.ndjson", VReg)
ASSUME PrintT(<<"EMITTED", [g \in 1..14 |-> IF InPart(g) THEN Len(Groups[g]) ELSE 0]>>)

ENext == UNCHANGED vars
=============================================================================
