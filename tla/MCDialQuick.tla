----------------------------- MODULE MCDialQuick ----------------------------
(* The scenario universe of the quick tier (kept out of MCDial.tla: TLC evaluates every     *)
(* constant definition of a module at start-up, and the deviation runs need only the tiny   *)
(* universe).                                                                               *)
EXTENDS MCDial

SrvSmall == SrvProduct(ConfigsAll \cup ConfigsIDN, SmallTls, SmallPlain)
SrvCancel == WithCancel(SrvProduct({Base, Cfg("dialserver", TRUE, FALSE, FALSE, "custom", FALSE)}, SmallTls, SmallPlain))
SrvBase == SrvProduct({Base}, AnsUpTo(KTls, 2), AnsUpTo(KPlain, 2))
WsQuick == WsProduct(Docs(LinkTypes, 2) \cup Docs(LinkFew, 3)) \cup WsOther
PartsQuick == <<SrvBase, SrvSmall, SrvCancel, WsQuick>>
SpecQuick == InitOver(PartsQuick) /\ [][Next]_vars
=============================================================================
