------------------------------ MODULE TrFaults ------------------------------
(* Trace validation of fault-injected handshakes of the real library (harness/cmd/faults). *)
EXTENDS Faults, Json

Trace == ndJsonDeserialize("trace.ndjson")
VARIABLES l, t0
tvars == <<vars, l, t0>>
Starts == {i \in 1..Len(Trace) : Trace[i].ev = "reset"}
EndOf(i) == Trace[i].end
IsEv(e) == l < EndOf(t0) /\ Trace[l].ev = e /\ l' = l + 1

TInit == /\ t0 \in Starts /\ l = t0
         /\ steps = <<>> /\ inStep = FALSE /\ broken = FALSE /\ cancelled = FALSE /\ silent = FALSE /\ ctxd = FALSE
         /\ stuck = FALSE /\ aborts = FALSE /\ inAbort = FALSE
         /\ ready = FALSE /\ result = "idle"
TrReset == /\ l = t0 /\ IsEv("reset") /\ result' = "none" /\ silent' = Trace[l].silent /\ ctxd' = Trace[l].ctxd
           /\ stuck' = Trace[l].stuck /\ aborts' = Trace[l].aborts
           /\ UNCHANGED <<steps, inStep, broken, cancelled, inAbort, ready>>
TrNegotiate == IsEv("negotiate") /\ StepBegin
TrNegRet == IsEv("negret") /\ StepEnd(Trace[l].ok)
TrFault == IsEv("fault") /\ (Fault \/ (broken /\ UNCHANGED vars))
TrCancel == IsEv("cancel") /\ Cancel
TrReturn ==
  /\ IsEv("return")
  /\ IF Trace[l].ok THEN ReturnOK /\ Trace[l].ready
     ELSE ReturnErr /\ ~Trace[l].ready
(* the call's decision to give up on a stream-level abort leaves no event of its own *)
Silent == AbortBegin /\ UNCHANGED l
TrEnd == IsEv("end") /\ result \in {"ok", "err"} /\ UNCHANGED vars

Inv == C04_FaultImpliesError /\ C04_NoSwallow /\ C04_ErrNotReady /\ C04_OkMeansReady /\ C04_NoStall

TNext ==
  /\ l < EndOf(t0)
  /\ \/ TrReset \/ TrNegotiate \/ TrNegRet \/ TrFault \/ TrCancel \/ TrReturn \/ TrEnd \/ Silent
  /\ UNCHANGED t0
  /\ Inv'

TSpec == TInit /\ [][TNext]_tvars
HW == TLCSet(t0, IF TLCGet(t0) < l THEN l ELSE TLCGet(t0))
Rejected == {i \in Starts : TLCGet(i) # EndOf(i)}
Accepted ==
  \/ Rejected = {}
  \/ PrintT(<<"REJECTED", {<<Trace[i].t, TLCGet(i)>> : i \in Rejected}>>) /\ FALSE
ASSUME \A i \in Starts : TLCSet(i, 0)
=============================================================================
