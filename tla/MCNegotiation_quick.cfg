CONSTANTS
  Pool <- PoolQuick
  InitBitsSet <- InitBitsAll
  MaxCfg = 2
  MaxRounds = 2
  MaxList = 2
  Roles = {"init","recv"}
  Dev = {}
SPECIFICATION Spec
VIEW View
INVARIANT C01_Eligible
INVARIANT C01_ForcedOnlyTLS
INVARIANT C01_ReadyComplete
INVARIANT C01_OkMeansReady
INVARIANT C02_NoReadyInClear
INVARIANT C04_NoSwallow
INVARIANT C04_ErrNotReady
PROPERTY C01_BitsMonotone
PROPERTY C12_EstabStable
CHECK_DEADLOCK FALSE
