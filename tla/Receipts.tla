------------------------------ MODULE Receipts ------------------------------
(***************************************************************************)
(* Delivery receipts part of C06 (receipts/receipts.go):                   *)
(* Handler.SendMessage / SendMessageElement register the message id, send  *)
(* the message and wait for the receipt or the context; HandleMessage      *)
(* looks the id of an incoming receipt up and signals the waiting call, or *)
(* reports it to Unhandled.  Property: one outcome per call; success only  *)
(* for a receipt with the call's id, each receipt wakes at most one call   *)
(* and a receipt nobody waits for is reported as unhandled; no panic       *)
(* (send on a closed channel); the handler never blocks the serve loop for *)
(* good; no call stays blocked once its context ended or its receipt has   *)
(* been taken - in every interleaving of sends, receipts and cancellation, *)
(* and in both CONFIGURATIONS of the handler: with the optional Unhandled  *)
(* callback set, and the default &receipts.Handler{} without it (a receipt *)
(* nobody waits for is then dropped silently - and must leave the handler  *)
(* as usable as before: the next receipt, the next send still go through). *)
(*                                                                         *)
(* Two layers, as in MUC.tla: the OBSERVER (O...) states the property over *)
(* the events visible from outside and is what recorded runs of the real   *)
(* code are validated against (TrReceipts); the MECHANISM models the table *)
(* and the per-request channel (repaired algorithm; Dev re-introduces the  *)
(* defects of the pinned code) and is model-checked against the observer.  *)
(***************************************************************************)
EXTENDS Integers, Sequences, FiniteSets, TLC

CONSTANTS Reqs,      \* message ids = names of the calls
          Unknown,   \* an id nobody uses
          MaxEnv,    \* bound on environment steps (MC only)
          Dev

None == "-"
Ids == Reqs \cup {Unknown}

VARIABLES
  \* observer
  st, res,            \* per call: idle|pending|done, outcome
  cancelled, wire,    \* contexts cancelled; message seen on the wire
  outClosed,          \* the application closed the output stream (later sends fail)
  inflight,           \* receipts sent by the peer, not yet processed by the serve loop: [id, live];
                      \* live: the call with that id was waiting at some time since the receipt arrived
  credit,             \* per id: receipts taken by the handler for a waiting call (not reported unhandled)
  oks,                \* per id: successful returns
  unh,                \* Unhandled callbacks since the last processed stanza
  hasUnh,             \* configuration: the handler has an Unhandled callback
  viol, nenv,
  \* mechanism
  table, tok, closed, pc, hpc

ovars == <<st, res, cancelled, wire, outClosed, inflight, credit, oks, unh, hasUnh, viol, nenv>>
mvars == <<table, tok, closed, pc, hpc>>
vars == <<ovars, mvars>>

OInit ==
  /\ st = [i \in Reqs |-> "idle"] /\ res = [i \in Reqs |-> None]
  /\ cancelled = {} /\ wire = {} /\ outClosed = FALSE /\ inflight = <<>>
  /\ credit = [i \in Ids |-> 0] /\ oks = [i \in Reqs |-> 0] /\ unh = <<>> /\ viol = {} /\ nenv = 0
  /\ hasUnh \in BOOLEAN
MInit ==
  /\ table = {} /\ tok = [i \in Reqs |-> 0] /\ closed = {} /\ pc = [i \in Reqs |-> "idle"] /\ hpc = "idle"
Init == OInit /\ MInit

Pending(i) == st[i] = "pending"

-----------------------------------------------------------------------------
(* OBSERVER *)
OCall(i) ==
  /\ st[i] = "idle" /\ st' = [st EXCEPT ![i] = "pending"]
  /\ inflight' = [k \in 1..Len(inflight) |-> IF inflight[k].id = i THEN [inflight[k] EXCEPT !.live = TRUE] ELSE inflight[k]]
  /\ UNCHANGED <<res, cancelled, wire, outClosed, credit, oks, unh, viol, hasUnh>>
OWire(i) ==
  /\ st[i] # "idle" /\ wire' = wire \cup {i}
  /\ UNCHANGED <<st, res, cancelled, outClosed, inflight, credit, oks, unh, viol, hasUnh>>
OCancel(i) ==
  /\ cancelled' = cancelled \cup {i}
  /\ UNCHANGED <<st, res, wire, outClosed, inflight, credit, oks, unh, viol, hasUnh>>
OCloseOut ==
  /\ outClosed' = TRUE
  /\ UNCHANGED <<st, res, cancelled, wire, inflight, credit, oks, unh, viol, hasUnh>>
Waiting(id) == id \in Reqs /\ Pending(id) /\ id \in wire /\ id \notin cancelled /\ credit[id] = 0
OPeer(id) ==
  /\ inflight' = Append(inflight, [id |-> id, live |-> id \in Reqs /\ st[id] = "pending", due |-> Waiting(id)])
  /\ UNCHANGED <<st, res, cancelled, wire, outClosed, credit, oks, unh, viol, hasUnh>>
OUnhandled(id) ==
  /\ hasUnh                       \* there is a callback to report it to
  /\ unh' = Append(unh, id)
  /\ UNCHANGED <<st, res, cancelled, wire, outClosed, inflight, credit, oks, viol, hasUnh>>
(* the serve loop has finished with the oldest receipt: it was reported unhandled (once, with *)
(* its id), or taken for the call with that id (credit), or - only a handler without an       *)
(* Unhandled callback may do that - dropped silently (taken = FALSE, nothing reported)        *)
(* a receipt that was SENT while its call was waiting - the message on the wire, its context not cancelled, no   *)
(* receipt taken for it yet (entry.due) - and whose call is still waiting like that when the serve loop has      *)
(* finished with it, is the call's reply: it may neither be reported unhandled nor be dropped                    *)
Owed(e) == e.due /\ e.id \notin cancelled /\ credit[e.id] = 0
OHandled(id, taken) ==
  /\ inflight # <<>> /\ Head(inflight).id = id
  /\ inflight' = Tail(inflight)
  /\ IF unh # <<>>
     THEN /\ credit' = credit
          /\ viol' = viol \cup (IF unh = <<id>> THEN {} ELSE {"C06_UnhandledOnce"})
                          \cup (IF Owed(Head(inflight)) THEN {"C06_WaitingCallGetsReceipt"} ELSE {})
     ELSE IF taken
     THEN /\ credit' = [credit EXCEPT ![id] = @ + 1]
          /\ viol' = viol \cup (IF Head(inflight).live /\ credit[id] = 0 THEN {} ELSE {"C06_UnclaimedToHandler"})
     ELSE /\ credit' = credit
          /\ viol' = viol \cup (IF hasUnh THEN {"C06_UnclaimedToHandler"} ELSE {})
                          \cup (IF Owed(Head(inflight)) THEN {"C06_WaitingCallGetsReceipt"} ELSE {})
  /\ unh' = <<>>
  /\ UNCHANGED <<st, res, cancelled, wire, outClosed, oks, hasUnh>>

InFlight(id) == \E k \in 1..Len(inflight) : inflight[k].id = id
RetGood(i, o) ==
  CASE o = "ok" -> credit[i] > oks[i] \/ InFlight(i)
    [] o = "ctx" -> i \in cancelled
    [] o = "senderr" -> outClosed /\ i \notin wire
    [] OTHER -> FALSE
ORet(i, o) ==
  /\ Pending(i)
  /\ st' = [st EXCEPT ![i] = "done"] /\ res' = [res EXCEPT ![i] = o]
  /\ oks' = IF o = "ok" THEN [oks EXCEPT ![i] = @ + 1] ELSE oks
  /\ viol' = viol \cup (IF RetGood(i, o) THEN {} ELSE {IF o = "ok" THEN "C06_OwnReceiptOnly" ELSE "C06_Outcome"})
  /\ UNCHANGED <<cancelled, wire, outClosed, inflight, credit, unh, hasUnh>>

(* nothing can move without the environment *)
StallClauses ==
  (IF inflight # <<>> THEN {"C06_ServeStall"} ELSE {})
  \cup {"C06_CallReturns" : i \in {i \in Reqs : Pending(i) /\ (i \in cancelled \/ credit[i] > 0)}}
  \cup {"C06_OwnReceiptOnly" : i \in {i \in Reqs : oks[i] > credit[i]}}
OQuiet ==
  /\ viol' = viol \cup StallClauses
  /\ UNCHANGED <<st, res, cancelled, wire, outClosed, inflight, credit, oks, unh, hasUnh>>
Quiescent == (\A i \in Reqs : ~Pending(i)) /\ inflight = <<>>

-----------------------------------------------------------------------------
(* MECHANISM *)
Call(i) ==
  /\ OCall(i) /\ nenv' = nenv + 1
  /\ pc[i] = "idle" /\ pc' = [pc EXCEPT ![i] = "reg"]
  /\ table' = IF "RegisterAfterSend" \in Dev THEN table ELSE table \cup {i}
  /\ UNCHANGED <<tok, closed, hpc>>
Cancel(i) == st[i] # "idle" /\ i \notin cancelled /\ OCancel(i) /\ nenv' = nenv + 1 /\ UNCHANGED mvars
CloseOut == ~outClosed /\ OCloseOut /\ nenv' = nenv + 1 /\ UNCHANGED mvars
Peer(id) == Len(inflight) < 2 /\ OPeer(id) /\ nenv' = nenv + 1 /\ UNCHANGED mvars

SendOK(i) ==
  /\ pc[i] = "reg" /\ ~outClosed /\ OWire(i)
  /\ IF "RegisterAfterSend" \in Dev        \* deviation: the entry is made only once the message has been sent
     THEN pc' = [pc EXCEPT ![i] = "sent"] /\ UNCHANGED table
     ELSE pc' = [pc EXCEPT ![i] = "wait"] /\ UNCHANGED table
  /\ UNCHANGED <<nenv, tok, closed, hpc>>
LateRegister(i) ==
  /\ pc[i] = "sent" /\ pc' = [pc EXCEPT ![i] = "wait"] /\ table' = table \cup {i}
  /\ UNCHANGED <<ovars, tok, closed, hpc>>
SendFail(i) ==       \* the send failed: the registration is withdrawn (the pinned code leaked it)
  /\ pc[i] = "reg" /\ outClosed /\ pc' = [pc EXCEPT ![i] = "senderr"]
  /\ table' = IF "LeakOnSendError" \in Dev THEN table ELSE table \ {i}
  /\ UNCHANGED <<ovars, tok, closed, hpc>>
Wake(i) ==
  /\ pc[i] = "wait" /\ tok[i] = 1 /\ pc' = [pc EXCEPT ![i] = "ok"] /\ tok' = [tok EXCEPT ![i] = 0]
  /\ UNCHANGED <<ovars, table, closed, hpc>>
CtxWake(i) ==
  /\ pc[i] = "wait" /\ i \in cancelled /\ pc' = [pc EXCEPT ![i] = "ctx"]
  /\ table' = table \ {i}
  /\ closed' = IF "CloseOnCancel" \in Dev THEN closed \cup {i} ELSE closed
  /\ UNCHANGED <<ovars, tok, hpc>>
Ret(i) ==
  /\ pc[i] \in {"ok", "ctx", "senderr"} /\ ORet(i, pc[i]) /\ pc' = [pc EXCEPT ![i] = "done"]
  /\ UNCHANGED <<nenv, table, tok, closed, hpc>>

(* HandleMessage: look the id up under the lock ... *)
LookupHit ==
  /\ hpc = "idle" /\ inflight # <<>> /\ Head(inflight).id \in table
  /\ table' = table \ {Head(inflight).id} /\ hpc' = "signal"
  /\ UNCHANGED <<ovars, tok, closed, pc>>
LookupMiss ==
  /\ hpc = "idle" /\ inflight # <<>> /\ Head(inflight).id \notin table
  /\ (IF hasUnh THEN OUnhandled(Head(inflight).id) /\ UNCHANGED nenv ELSE UNCHANGED ovars)
  /\ hpc' = "missed" /\ UNCHANGED <<table, tok, closed, pc>>
FinishMiss ==
  /\ hpc = "missed" /\ OHandled(Head(inflight).id, FALSE) /\ hpc' = "idle" /\ UNCHANGED <<nenv, table, tok, closed, pc>>
(* ... then signal the call.  Repaired: the channel has room for the one signal and is never  *)
(* closed.  Pinned (CloseOnCancel): unbuffered rendezvous with the call's select, and the     *)
(* cancelled call closes the channel: the send panics.                                        *)
Signal ==
  /\ hpc = "signal"
  /\ LET i == Head(inflight).id IN
     IF "CloseOnCancel" \in Dev
     THEN \/ /\ i \in closed /\ viol' = viol \cup {"C06_NoPanic"} /\ hpc' = "idle"
             /\ inflight' = Tail(inflight) /\ unh' = <<>>
             /\ UNCHANGED <<st, res, cancelled, wire, outClosed, credit, oks, hasUnh, nenv, table, tok, closed, pc>>
          \/ /\ i \notin closed /\ pc[i] = "wait" /\ pc' = [pc EXCEPT ![i] = "ok"]
             /\ OHandled(i, TRUE) /\ hpc' = "idle" /\ UNCHANGED <<nenv, table, tok, closed>>
     ELSE /\ tok' = [tok EXCEPT ![i] = 1] /\ OHandled(i, TRUE) /\ hpc' = "idle"
          /\ UNCHANGED <<nenv, table, closed, pc>>

LibNext ==
  \/ \E i \in Reqs : SendOK(i) \/ SendFail(i) \/ LateRegister(i) \/ Wake(i) \/ CtxWake(i) \/ Ret(i)
  \/ LookupHit \/ LookupMiss \/ FinishMiss \/ Signal
Next ==
  \/ /\ nenv < MaxEnv
     /\ \/ \E i \in Reqs : Call(i) \/ Cancel(i)
        \/ \E id \in Ids : Peer(id)
        \/ CloseOut
  \/ LibNext
Spec == Init /\ [][Next]_vars

C06_Receipts_Safe == viol = {}
C06_Receipts_NoStall == ~ENABLED LibNext => StallClauses = {}
=============================================================================
