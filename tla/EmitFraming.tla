---------------------------- MODULE EmitFraming ----------------------------
(* Pipeline B of XFRAME: the scenario universe of MCFraming.tla for the driver (harness/cmd/framing).  *)
(* The `quick` universe is written out scenario by scenario.  The deeper universes (deep3, deep4) are *)
(* products - every configuration with a compliant negotiation x every well-formed established        *)
(* script up to a length - and are written as their factors (building the product as one set of fat   *)
(* records costs TLC a quarter of a minute; checks/framingcommon.py multiplies them out exactly as     *)
(* UniverseOf does, and the thorough tier compares the counts with TLC's own initial states).          *)
EXTENDS MCFraming, Json, SequencesExt

WsCfg == CHOOSE c \in Live : c.kind = "ws"
TcpCfg == CHOOSE c \in Live : c.kind = "c2s"
ASSUME \A c \in Live : EstScripts(c, EstAlpha(c), 3) = EstScripts(IF c.kind = "ws" THEN WsCfg ELSE TcpCfg, EstAlpha(IF c.kind = "ws" THEN WsCfg ELSE TcpCfg), 3)
ASSUME PrintT(<<"SCENARIOS", Cardinality(UniverseOf("quick")), Cardinality(Cfgs), Cardinality(Live)>>)
ASSUME JsonSerialize("framing-scenarios.json",
         [quick |-> SetToSeq(UniverseOf("quick")),
          live |-> SetToSeq({[cfg |-> c, good |-> GoodNeg(c), deep4 |-> c \in Deep4Cfgs] : c \in Live}),
          estws |-> SetToSeq(EstScripts(WsCfg, EstAlpha(WsCfg), 4)),
          esttcp |-> SetToSeq(EstScripts(TcpCfg, EstAlpha(TcpCfg), 4))])
(* nothing to explore: the work is done by the assumptions above *)
ESpec == InitWith(CHOOSE s \in UniverseOf("tiny") : TRUE) /\ [][FALSE]_vars
=============================================================================
