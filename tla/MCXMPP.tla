------------------------------- MODULE MCXMPP -------------------------------
(* Bounded instances of XMPP.tla for the design check (pipeline A). *)
EXTENDS XMPP

RECURSIVE SeqsUpTo(_, _)
SeqsUpTo(S, n) == IF n = 0 THEN {<<>>} ELSE SeqsUpTo(S, n - 1) \cup {Append(s, x) : s \in SeqsUpTo(S, n - 1), x \in S}

NonTerm == {Item(t, Unknown) : t \in {"stanza", "get", "herr", "resp"}} \cup {Item("resp", i) : i \in Reqs}
Term    == {Item(t, Unknown) : t \in Terminal}
(* nothing is read after a terminal item: it comes last *)
ScriptsUpTo(n) == SeqsUpTo(NonTerm, n) \cup {Append(s, x) : s \in SeqsUpTo(NonTerm, n - 1), x \in Term}
Scripts2 == ScriptsUpTo(2)
Scripts3 == ScriptsUpTo(3)
(* liveness: scripts in which the peer ends the stream *)
ScriptsEnd2 == {Append(s, x) : s \in SeqsUpTo(NonTerm, 1), x \in Term}

(* quick tier: plain stanzas are left to the larger configurations *)
NonTermQ == NonTerm \ {Item("stanza", Unknown)}
ScriptsQ == SeqsUpTo(NonTermQ, 2) \cup {Append(s, x) : s \in SeqsUpTo(NonTermQ, 1), x \in Term}
(* liveness: one requester, a closer, every kind of script of length <= 2 *)
ScriptsL == ScriptsQ
ProgramsL == { <<"close", "tx">>, <<"tx">> }
ProgramsR == { <<"close", "tx">>, <<"tx", "close">> }

ProgramsMC == { <<>>, <<"tx">>, <<"close">>, <<"tx", "close">>, <<"close", "tx">>, <<"close", "close">>, <<"updaddr">> }
ProgramsDl == ProgramsMC \cup { <<"deadline", "close">>, <<"deadline">>, <<"updaddr", "tx">> }
ProgramsQ == { <<"close", "tx">>, <<"updaddr", "tx">> }
ProgramsSmall == { <<"tx">>, <<"close">>, <<"close", "tx">>, <<"updaddr">> }
=============================================================================
