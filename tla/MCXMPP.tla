------------------------------- MODULE MCXMPP -------------------------------
(* Bounded instances of XMPP.tla for the design check (pipeline A). *)
EXTENDS XMPP

RECURSIVE SeqsUpTo(_, _)
SeqsUpTo(S, n) == IF n = 0 THEN {<<>>} ELSE SeqsUpTo(S, n - 1) \cup {Append(s, x) : s \in SeqsUpTo(S, n - 1), x \in S}

NonTerm == {Item(t, Unknown) : t \in {"stanza", "get", "herr", "resp"}} \cup {Item("resp", i) : i \in Reqs}
Term    == {Item(t, Unknown) : t \in Terminal}
(* nothing is read after a terminal item: it comes last *)
ScriptsUpTo(n) == SeqsUpTo(NonTerm, n) \cup {Append(s, x) : s \in SeqsUpTo(NonTerm, n - 1), x \in Term}
Scripts2 == ScriptsUpTo(2)
Scripts3 == ScriptsUpTo(3)
(* liveness: scripts in which the peer ends the stream *)
ScriptsEnd2 == {Append(s, x) : s \in SeqsUpTo(NonTerm, 1), x \in Term}

(* quick tier: plain stanzas are left to the larger configurations *)
NonTermQ == NonTerm \ {Item("stanza", Unknown)}
ScriptsQ == SeqsUpTo(NonTermQ, 2) \cup {Append(s, x) : s \in SeqsUpTo(NonTermQ, 1), x \in Term}
(* liveness: one requester, a closer, every kind of script of length <= 2 *)
ScriptsL == ScriptsQ
ProgramsL == { <<"close", "tx">>, <<"tx">> }
ProgramsR == { <<"close", "tx">>, <<"tx", "close">> }

(* hand-picked scripts for the quick tier *)
R1 == CHOOSE i \in Reqs : TRUE
I(t) == Item(t, Unknown)
ScriptsT == { <<>>, <<I("close")>>, <<I("streamerr")>>, <<I("eof")>>, <<I("herr")>>, <<I("stanza"), I("eof")>>,
              <<Item("resp", R1), I("close")>>, <<I("get"), I("close")>>, <<Item("resp", R1), Item("resp", R1)>>,
              <<I("resp"), I("close")>>, <<I("get"), Item("resp", R1)>>, <<Item("resp", R1), I("streamerr")>> }
(* two requesters: responses for both *)
R2 == IF Cardinality(Reqs) > 1 THEN CHOOSE i \in Reqs : i # R1 ELSE R1
ScriptsT2 == ScriptsT \cup { <<Item("resp", R2), Item("resp", R1)>>, <<Item("resp", R2), I("close")>>,
                             <<Item("resp", R1), Item("resp", R2), I("streamerr")>> }
ScriptsLT == { <<Item("resp", R1), I("close")>>, <<I("get"), I("streamerr")>>, <<I("close")>>, <<I("herr")>>,
               <<I("resp"), I("close")>> }
ScriptsLQ == { <<Item("resp", R1), I("close")>>, <<I("get"), I("streamerr")>> }
ProgramsLT == { <<"close", "tx">> }
ProgramsRQ == { <<"close", "tx">>, <<"deadline", "close">> }

ProgramsMC == { <<>>, <<"tx">>, <<"close">>, <<"tx", "close">>, <<"close", "tx">>, <<"close", "close">>, <<"updaddr">> }
ProgramsDl == ProgramsMC \cup { <<"deadline", "close">>, <<"deadline">>, <<"updaddr", "tx">> }
ProgramsQ == { <<"close", "tx">>, <<"updaddr", "tx">> }
ProgramsSmall == { <<"tx">>, <<"close">>, <<"close", "tx">>, <<"updaddr">> }
=============================================================================
