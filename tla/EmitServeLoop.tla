--------------------------- MODULE EmitServeLoop ---------------------------
(* Pipeline B of C07 / C08: TLC evaluates the reference functions of ServeLoop.tla on *)
(* the vector domain and writes the inputs together with the acceptable outcomes.    *)
EXTENDS ServeLoop, Json, SequencesExt

CONSTANTS Tier,   \* "quick" | "thorough"
          Which   \* "c07" | "c08"

D(i, div, mod) == ((i - 1) \div div) % mod

---------------------------------------------------------------------------
(* C07 *)
Types7 == <<"get", "set", "result", "error", "", "bogus">>
Ids7 == <<"none", "", "a", "a&<'\">b">>
Froms7 == <<"none", "own", "peer">>
Pays7 == <<"none", "child", "childtext", "iqchild">>
Reads7 == <<"none", "one", "all", "over">>
WSeq7 == <<"none", "reply", "errreply", "otherid", "get", "set", "kth", "first", "nested",
           "notype", "bogustype", "foreign">>
Rets7 == <<"ok", "err">>
ModeSeq7 == <<"plain", "muxreg", "muxunreg">>
NSs == <<"client", "server">>

(* every vector is followed by a sentinel request: it must still be answered unless   *)
(* the stream was terminated by a stream error                                        *)
Sentinel == [e |-> El7("iq", "get", "zz", "peer", "child"), p |-> Prog7("all", "reply", "ok")]

Vec7(e, p, mode, ns) ==
  [e |-> e, p |-> p, mode |-> mode, ns |-> ns, writes |-> Writes(p.w, e),
   sentinel |-> Writes(Sentinel.p.w, Sentinel.e),
   acc |-> SetToSeq(C07_RepliesSeq(<<[e |-> e, p |-> p], Sentinel>>, mode))]

(* quick: every (type, id, writes, return, mode) of an iq, each with twelve derived      *)
(* combinations of (from, payload, read, namespace)                                   *)
NBase7 == 6 * 4 * 12 * 2 * 3
V7Quick == [i \in 1..(NBase7 * 12) |->
   LET t == D(i, 1, 6)  id == D(i, 6, 4)  w == D(i, 24, 12)  r == D(i, 288, 2)  m == D(i, 576, 3)
       j == D(i, NBase7, 12)
       c == t + id + w + r + m
   IN Vec7(El7("iq", Types7[t + 1], Ids7[id + 1], Froms7[((c + j) % 3) + 1], Pays7[((c \div 3 + j) % 4) + 1]),
           Prog7(Reads7[((c + 2 * j + j \div 3) % 4) + 1], WSeq7[w + 1], Rets7[r + 1]),
           ModeSeq7[m + 1], NSs[(j % 2) + 1])]
V7Full == [i \in 1..(6 * 4 * 3 * 4 * 4 * 12 * 2 * 3 * 2) |->
   Vec7(El7("iq", Types7[D(i, 1, 6) + 1], Ids7[D(i, 6, 4) + 1], Froms7[D(i, 24, 3) + 1], Pays7[D(i, 72, 4) + 1]),
        Prog7(Reads7[D(i, 288, 4) + 1], WSeq7[D(i, 1152, 12) + 1], Rets7[D(i, 13824, 2) + 1]),
        ModeSeq7[D(i, 27648, 3) + 1], NSs[D(i, 82944, 2) + 1])]
(* other stanzas and foreign elements never trigger an automatic reply *)
Kinds7 == << <<"msg", "chat">>, <<"pres", "">>, <<"other", "">>, <<"msg", "error">> >>
V7Other == [i \in 1..(4 * 2 * 12 * 2 * 3 * 2) |->
   Vec7(El7(Kinds7[D(i, 1, 4) + 1][1], Kinds7[D(i, 1, 4) + 1][2], IF D(i, 4, 2) = 0 THEN "none" ELSE "a", "peer", "child"),
        Prog7(Reads7[((i % 4)) + 1], WSeq7[D(i, 8, 12) + 1], Rets7[D(i, 96, 2) + 1]),
        ModeSeq7[D(i, 192, 3) + 1], NSs[D(i, 576, 2) + 1])]

ASSUME Which = "c07" =>
  /\ ndJsonSerialize("c07_vectors_1.ndjson", IF Tier = "quick" THEN V7Quick ELSE V7Full)
  /\ ndJsonSerialize("c07_vectors_2.ndjson", V7Other)
  /\ PrintT(<<"EMITTED", Len(IF Tier = "quick" THEN V7Quick ELSE V7Full), Len(V7Other)>>)

---------------------------------------------------------------------------
(* C08 *)
CONSTANTS Part    \* 0 = everything, 1..2 = one half of the C08 vectors (run in parallel)

S(n) == <<"s", n>>
E(n) == <<"e", n>>
T == <<"t">>
W == <<"w">>
B0 == <<>>
B1 == <<S("b"), T, E("b")>>
B2 == <<S("a"), S("b"), S("c"), E("c"), E("b"), T, E("a"), S("d"), E("d")>>
B3 == <<T, S("a"), E("a"), T>>
B4 == <<W, S("a"), T, E("a"), W>>
Ins(b, i, tok) == SubSeq(b, 1, i - 1) \o <<tok>> \o SubSeq(b, i, Len(b))

PlainQ == <<Elem("stanza", "own", B0), Elem("stanza", "peer", B2), Elem("foreign", "own", B1), Top("ws")>>
PlainT == PlainQ \o <<Elem("stanza", "ownfull", B3), Elem("stanza", "none", B4)>>
Plain == IF Tier = "quick" THEN PlainQ ELSE PlainT
PrefixIdx == SetToSeq(UNION {[1..n -> 1..Len(Plain)] : n \in 0..(IF Tier = "quick" THEN 2 ELSE 3)})
PrefixOf(ix) == [i \in 1..Len(ix) |-> Plain[ix[i]]]

StopToks == << <<"c", "comment">>, <<"c", "pi">>, <<"c", "directive">>, <<"c", "serr">>, <<"c", "restart">>,
               <<"c", "otherstream">>, <<"bad">> >>
Places == << <<1, 1>>, <<1, 2>>, <<1, 4>>, <<2, 1>>, <<2, 4>>, <<2, 7>>, <<2, 10>> >>   \* (shape, position)
Shape(i) == IF i = 1 THEN B1 ELSE B2
Nested == [i \in 1..49 |->
             Elem(IF i % 5 = 0 THEN "foreign" ELSE "stanza", IF i % 3 = 0 THEN "own" ELSE "peer",
                  Ins(Shape(Places[D(i, 7, 7) + 1][1]), Places[D(i, 7, 7) + 1][2], StopToks[D(i, 1, 7) + 1]))]
TopTerms == << Top("text"), Top("comment"), Top("pi"), Top("directive"), Top("restart"), Top("otherstream"),
               Top("close"), Top("eof"), Top("badtop"), SErr("host-unknown"), SErr("not-well-formed") >>
Terms == Nested \o TopTerms \o <<Top("none")>>       \* "none": no terminating item at all
Posts == << <<>>, <<Elem("stanza", "peer", B1)>> >>

P8(n, m) == Prog8(n, m)
Cycles == << <<P8(0, "stop")>>, <<P8(1, "stop")>>, <<P8(1, "ignore")>>, <<P8(2, "stop")>>, <<P8(2, "ignore")>>,
             <<P8(4, "stop")>>, <<P8(4, "ignore")>>, <<P8(7, "stop")>>, <<P8(7, "ignore")>>, <<P8(13, "stop")>>,
             <<P8(13, "ignore")>>, <<P8(0, "stop"), P8(13, "ignore")>>, <<P8(13, "stop"), P8(1, "ignore")>>,
             <<P8(4, "ignore"), P8(0, "stop"), P8(13, "stop")>> >>

Vec8(items, cyc) ==
  LET inv == C08_Invocations(items)
  IN [items |-> items, progs |-> cyc,
      inv |-> [i \in 1..Len(inv) |->
                 LET x == C08_Events(inv[i], cyc[((i - 1) % Len(cyc)) + 1])
                 IN [kind |-> inv[i].kind, from |-> inv[i].from, ev |-> x.ev, free |-> x.free,
                     win |-> Window(SelectSeq(UpToFirst(items), LAMBDA it : it.k = "el")[i])]],
      out |-> SetToSeq(C08_Outcomes(items))]

NT == Len(Terms)
NV8 == Len(PrefixIdx) * NT * 2 * Len(Cycles)
V8(lo, hi) == [j \in 1..(hi - lo + 1) |->
   LET i == j + lo - 1
       pre == PrefixOf(PrefixIdx[D(i, 1, Len(PrefixIdx)) + 1])
       t == Terms[D(i, Len(PrefixIdx), NT) + 1]
       post == Posts[D(i, Len(PrefixIdx) * NT, 2) + 1]
       cyc == Cycles[D(i, Len(PrefixIdx) * NT * 2, Len(Cycles)) + 1]
   IN Vec8(pre \o (IF t.k = "none" THEN <<>> ELSE <<t>>) \o post, cyc)]

ASSUME Which = "c08" =>
  LET half == NV8 \div 2
      lo == IF Part = 2 THEN half + 1 ELSE 1
      hi == IF Part = 1 THEN half ELSE NV8
  IN /\ ndJsonSerialize("c08_vectors_" \o ToString(Part) \o ".ndjson", V8(lo, hi))
     /\ PrintT(<<"EMITTED", hi - lo + 1>>)

ENext == UNCHANGED <<c7vars, c8vars>>
=============================================================================
