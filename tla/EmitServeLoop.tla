--------------------------- MODULE EmitServeLoop ---------------------------
(* Pipeline B of C07 / C08: TLC evaluates the reference functions of ServeLoop.tla on *)
(* the vector domain and writes the inputs together with the acceptable outcomes.    *)
EXTENDS ServeLoop, Json, SequencesExt

CONSTANTS Tier,   \* "quick" | "thorough"
          Which,  \* "c07" | "c08"
          Seed,   \* VERIF_SEED: shifts the rotation of the derived dimensions against the exhaustive ones
          Part,   \* which slice of the vectors this run emits: 1..NParts (slices are emitted side by side)
          NParts

D(i, div, mod) == ((i - 1) \div div) % mod

---------------------------------------------------------------------------
(* C07 *)
Types7 == <<"get", "set", "result", "error", "", "bogus">>
Ids7 == <<"none", "", "a", "a&<'\">b">>
Froms7 == <<"none", "own", "peer", "ownfull", "domain">>
Tos7 == <<"full", "none", "bare">>
ENS7 == <<"own", "own", "other">>
Pays7 == <<"none", "child", "childtext", "iqchild">>
Reads7 == <<"none", "one", "all", "over">>
WSeq7 == <<"none", "reply", "errreply", "otherid", "get", "set", "kth", "first", "nested",
           "notype", "bogustype", "foreign">>
Rets7 == <<"ok", "err", "stanzaerr">>
Muts7 == <<"none", "type", "name", "id", "from", "clear">>
ModeSeq7 == <<"plain", "muxreg", "muxunreg">>
(* the kinds of session: initiated client and server streams, the WebSocket framing,  *)
(* received client and server streams, a client stream made by the library's own     *)
(* negotiator that ends with a resource binding                                      *)
Sess7 == << Sess("c2s", "custom", "same", FALSE), Sess("s2s", "custom", "same", FALSE), Sess("ws", "lib", "same", FALSE),
            Sess("rc2s", "custom", "other", FALSE), Sess("rs2s", "custom", "other", FALSE), Sess("c2s", "lib", "same", TRUE) >>
ASSUME \A i \in 1..Len(Sess7) : ValidSess(Sess7[i])

(* every vector is followed by a sentinel request: it must still be answered unless   *)
(* the stream was terminated by a stream error                                        *)
Sentinel == [e |-> El7("iq", "get", "zz", "peer", "full", "own", "child"), p |-> Prog7("all", "reply", "ok", "none")]

(* The reply rule does not concern how the stream ends: on the TCP framing the peer   *)
(* sends its closing tag after the sentinel, on the WebSocket framing (whose closing  *)
(* element is outside this property) the transport just ends.                         *)
Vec7(e, p, mode, s) ==
  [e |-> e, p |-> p, mode |-> mode, sess |-> s, local |-> Local(s), was |-> Was(s),
   ens |-> ElemNS(s.kind, e), decl |-> Declares(s.kind, e), hdrdiffers |-> HeaderDiffers(s.kind, e),
   end |-> IF Framing(s.kind) = "ws" THEN "eof" ELSE "tag",
   writes |-> Writes(p.w, e), sentinel |-> Writes(Sentinel.p.w, Sentinel.e),
   acc |-> SetToSeq(C07_RepliesSeq(<<[e |-> e, p |-> p], Sentinel>>, mode))]

(* quick: every (type, id, writes, return, mode) of an iq, each with K7 derived       *)
(* combinations of (session, from, to, namespace, payload, read, mutation): for every *)
(* base the 30 (session, from) pairs once and every mutation of the start element 5   *)
(* times, the other dimensions rotating against them                                  *)
NBase7 == 6 * 4 * 12 * 3 * 3
K7 == 30
N7Quick == NBase7 * K7
V7QuickAt(i) ==
   LET t == D(i, 1, 6)  id == D(i, 6, 4)  w == D(i, 24, 12)  r == D(i, 288, 3)  m == D(i, 864, 3)
       j == D(i, NBase7, K7)
       c == t + id + w + r + m + Seed
   IN Vec7(El7("iq", Types7[t + 1], Ids7[id + 1], Froms7[((j + c \div 6) % 5) + 1], Tos7[((j \div 3 + c) % 3) + 1],
               ENS7[((j \div 6 + c) % 3) + 1], Pays7[((c \div 3 + j) % 4) + 1]),
           Prog7(Reads7[((c + 2 * j + j \div 3) % 4) + 1], WSeq7[w + 1], Rets7[r + 1], Muts7[((j \div 5 + c) % 6) + 1]),
           ModeSeq7[m + 1], Sess7[((j + c) % 6) + 1])
(* thorough: the full product of the element and program dimensions, each with 15     *)
(* derived (session, from, to, namespace) combinations                                *)
NFull7 == 6 * 4 * 4 * 4 * 12 * 3 * 3
N7Full == NFull7 * 15
V7FullAt(i) ==
   LET j == D(i, NFull7, 15)
       c == D(i, 1, 6) + D(i, 6, 4) + D(i, 24, 4) + D(i, 96, 4) + D(i, 384, 12) + D(i, 4608, 3) + D(i, 13824, 3) + Seed
   IN Vec7(El7("iq", Types7[D(i, 1, 6) + 1], Ids7[D(i, 6, 4) + 1], Froms7[((j + c \div 6) % 5) + 1], Tos7[((j \div 3 + c) % 3) + 1],
               ENS7[((j \div 6 + c) % 3) + 1], Pays7[D(i, 24, 4) + 1]),
           Prog7(Reads7[D(i, 96, 4) + 1], WSeq7[D(i, 384, 12) + 1], Rets7[D(i, 4608, 3) + 1], Muts7[((j + c \div 2) % 6) + 1]),
           ModeSeq7[D(i, 13824, 3) + 1], Sess7[((j + c) % 6) + 1])
(* other stanzas and foreign elements never trigger an automatic reply *)
Kinds7 == << <<"msg", "chat">>, <<"pres", "">>, <<"other", "">>, <<"msg", "error">> >>
V7Other == [i \in 1..(4 * 2 * 12 * 3 * 3 * 6) |->
   LET k == Kinds7[D(i, 1, 4) + 1] IN
   Vec7(El7(k[1], k[2], IF D(i, 4, 2) = 0 THEN "none" ELSE "a", Froms7[(i % 5) + 1], Tos7[(i % 3) + 1],
            IF k[1] # "other" /\ i % 7 = 0 THEN "other" ELSE "own", "child"),
        Prog7(Reads7[((i % 4)) + 1], WSeq7[D(i, 8, 12) + 1], Rets7[D(i, 96, 3) + 1], Muts7[(i % 6) + 1]),
        ModeSeq7[D(i, 288, 3) + 1], Sess7[((D(i, 864, 6) + Seed) % 6) + 1])]

(* error VALUES a handler may return: io.EOF itself, an error wrapping it, io.ErrUnexpectedEOF, a wrapped stanza    *)
(* error, a stream error value bare and wrapped - every (type, id, writes, mode) of an iq with each of them, KR       *)
(* derived combinations of the other dimensions each (thorough: payload and read exhaustive as well)                 *)
RetsV7 == <<"eof", "weof", "ueof", "wstanzaerr", "streamerr", "wstreamerr">>
KR == IF Tier = "quick" THEN 4 ELSE 2
NRetBase == IF Tier = "quick" THEN 6 * 4 * 12 * 6 * 3 ELSE 6 * 4 * 12 * 6 * 3 * 4 * 4
V7Ret == [i \in 1..(NRetBase * KR) |->
   LET t == D(i, 1, 6)  id == D(i, 6, 4)  w == D(i, 24, 12)  r == D(i, 288, 6)  m == D(i, 1728, 3)
       j == D(i, NRetBase, KR) + D(i, 5184, 16) * KR
       c == t + id + w + r + m + Seed
   IN Vec7(El7("iq", Types7[t + 1], Ids7[id + 1], Froms7[((3 * j + c) % 5) + 1], Tos7[((j + c) % 3) + 1],
               ENS7[((j \div 2 + c) % 3) + 1], Pays7[IF Tier = "quick" THEN ((c + j) % 4) + 1 ELSE D(i, 5184, 4) + 1]),
           Prog7(Reads7[IF Tier = "quick" THEN ((c \div 2 + j) % 4) + 1 ELSE D(i, 20736, 4) + 1], WSeq7[w + 1], RetsV7[r + 1],
                 Muts7[((j + c \div 3) % 6) + 1]),
           ModeSeq7[m + 1], Sess7[((5 * j + c) % 6) + 1])]

N7 == IF Tier = "quick" THEN N7Quick ELSE N7Full
V7At(i) == IF Tier = "quick" THEN V7QuickAt(i) ELSE V7FullAt(i)
SliceLo(n) == ((Part - 1) * n) \div NParts + 1
SliceHi(n) == (Part * n) \div NParts

ASSUME Which = "c07" =>
  LET lo == SliceLo(N7)  hi == SliceHi(N7)
  IN /\ ndJsonSerialize("c07_vectors_" \o ToString(Part) \o ".ndjson", [j \in 1..(hi - lo + 1) |-> V7At(lo + j - 1)])
     /\ (Part = 1 => ndJsonSerialize("c07_vectors_99.ndjson", V7Other))
     /\ (Part = NParts => ndJsonSerialize("c07_vectors_98.ndjson", V7Ret))
     /\ PrintT(<<"EMITTED", hi - lo + 1, IF Part = 1 THEN Len(V7Other) ELSE 0, IF Part = NParts THEN Len(V7Ret) ELSE 0>>)

---------------------------------------------------------------------------
(* C08 *)
S(n) == <<"s", n>>
E(n) == <<"e", n>>
T == <<"t">>
W == <<"w">>
B0 == <<>>
B1 == <<S("b"), T, E("b")>>
B2 == <<S("a"), S("b"), S("c"), E("c"), E("b"), T, E("a"), S("d"), E("d")>>
B3 == <<T, S("a"), E("a"), T>>
B4 == <<W, S("a"), T, E("a"), W>>
Ins(b, i, tok) == SubSeq(b, 1, i - 1) \o <<tok>> \o SubSeq(b, i, Len(b))

(* continuing items: stanzas from the own bare address, another entity, an address the *)
(* session does not have (any more); a foreign element; a keep-alive; the local side  *)
(* closing its output stream                                                          *)
PlainQ == <<Elem("stanza", "own", B0), Elem("stanza", "peer", B2), Elem("foreign", "own", B1), Top("ws"),
            Top("lclose"), Elem("stanza", "was", B1)>>
PlainT == PlainQ \o <<Elem("stanza", "ownfull", B3), Elem("stanza", "none", B4)>>
Plain == IF Tier = "quick" THEN PlainQ ELSE PlainT
PrefixIdx == SetToSeq(UNION {[1..n -> 1..Len(Plain)] : n \in 0..(IF Tier = "quick" THEN 2 ELSE 3)})
PrefixOf(ix) == [i \in 1..Len(ix) |-> Plain[ix[i]]]

StopToks == << <<"c", "comment">>, <<"c", "pi">>, <<"c", "directive">>, <<"c", "serr">>, <<"c", "restart">>,
               <<"c", "otherstream">>, <<"bad">> >>
Places == << <<1, 1>>, <<1, 2>>, <<1, 4>>, <<2, 1>>, <<2, 4>>, <<2, 7>>, <<2, 10>> >>   \* (shape, position)
Shape(i) == IF i = 1 THEN B1 ELSE B2
Nested == [i \in 1..49 |->
             Elem(IF i % 5 = 0 THEN "foreign" ELSE "stanza", IF i % 3 = 0 THEN "own" ELSE "peer",
                  Ins(Shape(Places[D(i, 7, 7) + 1][1]), Places[D(i, 7, 7) + 1][2], StopToks[D(i, 1, 7) + 1]))]
TopTerms == << Top("text"), Top("utext"), Top("mtext"), Top("comment"), Top("pi"), Top("directive"), Top("restart"), Top("otherstream"),
               Top("close"), Top("eof"), Top("badtop"), SErr("host-unknown"), SErr("not-well-formed") >>
Terms == Nested \o TopTerms \o <<Top("none")>>       \* "none": no terminating item at all
Posts == << <<>>, <<Elem("stanza", "peer", B1)>> >>

P8(n, m) == Prog8(n, m)
Cycles == << <<P8(0, "stop")>>, <<P8(1, "stop")>>, <<P8(1, "ignore")>>, <<P8(2, "stop")>>, <<P8(2, "ignore")>>,
             <<P8(4, "stop")>>, <<P8(4, "ignore")>>, <<P8(7, "stop")>>, <<P8(7, "ignore")>>, <<P8(13, "stop")>>,
             <<P8(13, "ignore")>>, <<P8(0, "stop"), P8(13, "ignore")>>, <<P8(13, "stop"), P8(1, "ignore")>>,
             <<P8(4, "ignore"), P8(0, "stop"), P8(13, "stop")>>,
             <<P8(0, "stopeof")>>, <<P8(1, "stopeof")>>, <<P8(2, "stopeof")>>, <<P8(4, "stopeof"), P8(13, "stopeof")>> >>

(* every way a session of the two stanza namespaces can get its own address *)
Setups8 == SetToSeq({s \in AllSess : s.kind # "ws"})
NS8 == Len(Setups8)

(* wn: the number of read attempts a waiting requester makes on the response it is handed (items of kind "resp");  *)
(* resps: how many responses are handed over before the session ends                                               *)
Vec8W(items, cyc, s, wn) ==
  LET inv == C08_Invocations(items, s)
  IN [sess |-> s, local |-> Local(s), was |-> Was(s), items |-> items, progs |-> cyc, wn |-> wn,
      resps |-> Len(SelectSeq(UpToFirst(items), LAMBDA it : it.k = "el" /\ it.kind = "resp")),
      inv |-> [i \in 1..Len(inv) |->
                 LET x == C08_Events(inv[i], cyc[((i - 1) % Len(cyc)) + 1])
                 IN [kind |-> inv[i].kind, from |-> inv[i].from, ev |-> x.ev, free |-> x.free,
                     win |-> Window(SelectSeq(UpToFirst(items), ToHandler)[i])]],
      out |-> SetToSeq(C08_Outcomes(items))]
Vec8(items, cyc, s) == Vec8W(items, cyc, s, 0)

NT == Len(Terms)
NV8 == Len(PrefixIdx) * NT * 2 * Len(Cycles)
V8(lo, hi) == [j \in 1..(hi - lo + 1) |->
   LET i == j + lo - 1
       pre == PrefixOf(PrefixIdx[D(i, 1, Len(PrefixIdx)) + 1])
       t == Terms[D(i, Len(PrefixIdx), NT) + 1]
       post == Posts[D(i, Len(PrefixIdx) * NT, 2) + 1]
       cyc == Cycles[D(i, Len(PrefixIdx) * NT * 2, Len(Cycles)) + 1]
   IN Vec8(pre \o (IF t.k = "none" THEN <<>> ELSE <<t>>) \o post, cyc, Setups8[((i + Seed) % NS8) + 1])]

(* responses to pending requests (handed to the waiting requester, not to the handler): a plain one before every   *)
(* terminator (group A), and one with a stream-level construct at depth 1 / 2 / 3 / at its end behind every short   *)
(* prefix (group B); the requester's number of reads rotates                                                        *)
RespPlain == Elem("resp", "peer", B1)
PlainR == Plain \o <<RespPlain>>
NPR == Len(PlainR)
PrefixWithResp == <<<<NPR>>>> \o [i \in 1..NPR |-> <<NPR, i>>] \o [i \in 1..(NPR - 1) |-> <<i, NPR>>]
PrefixShort == <<<<>>>> \o [i \in 1..NPR |-> <<i>>] \o PrefixWithResp
PrefixROf(ix) == [i \in 1..Len(ix) |-> PlainR[ix[i]]]
PlacesR == << <<1, 1>>, <<1, 2>>, <<2, 4>>, <<2, 10>> >>
NestedResp == [i \in 1..28 |-> Elem("resp", "peer", Ins(Shape(PlacesR[D(i, 7, 4) + 1][1]), PlacesR[D(i, 7, 4) + 1][2], StopToks[D(i, 1, 7) + 1]))]
WReads == <<0, 1, 2, 3, 5, 13>>
NRA == Len(PrefixWithResp) * NT * 2 * Len(Cycles)
NRB == Len(PrefixShort) * 28 * 2 * Len(Cycles)
V8RA(i) ==
   LET pre == PrefixROf(PrefixWithResp[D(i, 1, Len(PrefixWithResp)) + 1])
       t == Terms[D(i, Len(PrefixWithResp), NT) + 1]
       post == Posts[D(i, Len(PrefixWithResp) * NT, 2) + 1]
       cyc == Cycles[D(i, Len(PrefixWithResp) * NT * 2, Len(Cycles)) + 1]
   IN Vec8W(pre \o (IF t.k = "none" THEN <<>> ELSE <<t>>) \o post, cyc, Setups8[((i + Seed) % NS8) + 1], WReads[((i + i \div 5) % 6) + 1])
V8RB(i) ==
   LET pre == PrefixROf(PrefixShort[D(i, 1, Len(PrefixShort)) + 1])
       t == NestedResp[D(i, Len(PrefixShort), 28) + 1]
       post == Posts[D(i, Len(PrefixShort) * 28, 2) + 1]
       cyc == Cycles[D(i, Len(PrefixShort) * 28 * 2, Len(Cycles)) + 1]
   IN Vec8W(pre \o <<t>> \o post, cyc, Setups8[((i + Seed) % NS8) + 1], WReads[((i + i \div 7) % 6) + 1])
NVR == NRA + NRB
V8R(lo, hi) == [j \in 1..(hi - lo + 1) |-> LET i == j + lo - 1 IN IF i <= NRA THEN V8RA(i) ELSE V8RB(i - NRA)]

ASSUME Which = "c08" =>
  LET lo == SliceLo(NV8)  hi == SliceHi(NV8)
      rlo == SliceLo(NVR)  rhi == SliceHi(NVR)
  IN /\ ndJsonSerialize("c08_vectors_" \o ToString(Part) \o ".ndjson", V8(lo, hi))
     /\ ndJsonSerialize("c08_vectors_9" \o ToString(Part) \o ".ndjson", V8R(rlo, rhi))
     /\ PrintT(<<"EMITTED", hi - lo + 1, rhi - rlo + 1>>)
     /\ PrintT(<<"SETUPS", NS8>>)

ENext == UNCHANGED <<c7vars, c8vars>>
=============================================================================
