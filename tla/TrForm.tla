------------------------------ MODULE TrForm ------------------------------
(* Trace validation of recorded data form life cycles (harness/cmd/codec form) against *)
(* Form.tla. One initial state per trace, register t0 = furthest line consumed.        *)
EXTENDS Form, Json

Trace == ndJsonDeserialize("trace.ndjson")
VARIABLES l, t0
tvars == <<fvars, l, t0>>

Starts == {i \in 1..Len(Trace) : Trace[i].ev = "reset"}
EndOf(i) == Trace[i].end
E == Trace[l]
IsEv(e) == l < EndOf(t0) /\ Trace[l].ev = e /\ Trace[l].panic = "" /\ l' = l + 1

TInit == t0 \in Starts /\ l = t0 /\ cfg = <<>> /\ vals = [v \in Vars |-> NoVal] /\ nops = 0 /\ last = [op |-> "idle"]
         /\ ftype = "form"                                  \* every trace starts with form.New

FieldRec(x) == F(x.ft, x.var, x.req, x.def)
TrReset ==
  /\ l = t0 /\ IsEv("reset")
  /\ LET c == [i \in 1..Len(E.cfg) |-> FieldRec(E.cfg[i])] IN c \in Configs /\ cfg' = c
  /\ last' = [op |-> "new"] /\ UNCHANGED <<vals, nops, ftype>>

(* every action of Form.tla takes what the operation returned as a parameter and decides whether it is acceptable *)
TVOf(x) == TV(x.k, x.v)
TrSet ==
  /\ IsEv("set") /\ E.var \in Vars /\ TVOf(E.tv) \in SetValues
  /\ Set(E.var, TVOf(E.tv), E.err)
  /\ last'.ok = E.ok
TrGet ==
  /\ IsEv("get") /\ E.var \in Vars /\ Get(E.var, IF E.ok THEN TVOf(E.tv) ELSE NoVal)
  /\ Holds(E.ok => TVOf(E.tv) # NoVal)
TrRaw ==
  /\ IsEv("raw") /\ E.var \in Vars /\ Raw(E.var, IF E.ok THEN E.v ELSE <<>>)
  /\ last'.ok = E.ok
(* the submission as the driver decoded it: [var, ft, vals] per field, in order: the fields of the form it names, *)
(* each with an acceptable value list (no demand on the fields of an ambiguous name)                              *)
TrSubmit ==
  /\ IsEv("submit")
  /\ \E idx \in Asc(1, Len(cfg)) :
       /\ Len(idx) = Len(E.fields)
       /\ Holds(\A k \in 1..Len(idx) :
                   /\ E.fields[k].var = cfg[idx[k]].var /\ E.fields[k].ft = cfg[idx[k]].ft
                   /\ Free(cfg, idx[k]) \/ E.fields[k].vals \in SubmitAcc(cfg, vals, cfg[idx[k]]))
       /\ Submit(E.ok, idx)
  /\ last'.op = "submit"
  /\ Accepts(E.toks)
  /\ E.type = <<"submit">>                                \* whatever the type of the form it was made from
(* the form's own encoding is well-formed and carries the form's type (one of the four) *)
TrEncode == /\ IsEv("tokenreader") /\ Encode /\ Accepts(E.toks)
            /\ (ftype \in ValidTypes => E.type = DocTypeAttr[ftype])
(* the driver decoded the form's own encoding with the type attribute DocTypeAttr[E.ty] *)
TrUnmarshal ==
  /\ IsEv("unmarshal") /\ E.ty \in FormTypes
  /\ IF E.err = "" THEN Unmarshal(E.ty, [i \in 1..Len(E.fields) |-> FieldRec(E.fields[i])])
     ELSE UnmarshalRefused(E.ty)

Inv == C19_StoredFits /\ C19_SetIffFits /\ C19_GetAfterSet /\ C19_GetReportsIt /\ C19_SubmitShape /\ C19_DecodedFormsUsable
       /\ C19_SubmitLossless /\ C19_NoPanic

TNext ==
  /\ l < EndOf(t0)
  /\ TrReset \/ TrSet \/ TrGet \/ TrRaw \/ TrSubmit \/ TrEncode \/ TrUnmarshal
  /\ UNCHANGED t0
  /\ Inv'
TSpec == TInit /\ [][TNext]_tvars

HW == TLCSet(t0, IF TLCGet(t0) < l THEN l ELSE TLCGet(t0))
Rejected == {i \in Starts : TLCGet(i) # EndOf(i)}
Accepted ==
  \/ Rejected = {}
  \/ PrintT(<<"REJECTED", {<<Trace[i].t, TLCGet(i)>> : i \in Rejected}>>) /\ FALSE
ASSUME \A i \in Starts : TLCSet(i, 0)
=============================================================================
