------------------------------ MODULE TrForm ------------------------------
(* Trace validation of recorded data form life cycles (harness/cmd/codec form) against *)
(* Form.tla. One initial state per trace, register t0 = furthest line consumed.        *)
EXTENDS Form, Json

Trace == ndJsonDeserialize("trace.ndjson")
VARIABLES l, t0
tvars == <<fvars, l, t0>>

Starts == {i \in 1..Len(Trace) : Trace[i].ev = "reset"}
EndOf(i) == Trace[i].end
E == Trace[l]
IsEv(e) == l < EndOf(t0) /\ Trace[l].ev = e /\ Trace[l].panic = "" /\ l' = l + 1

TInit == t0 \in Starts /\ l = t0 /\ cfg = <<>> /\ vals = [v \in Vars |-> NoVal] /\ nops = 0 /\ last = [op |-> "idle"]
         /\ ftype = "form"                                  \* every trace starts with form.New

FieldRec(x) == F(x.ft, x.var, x.req, x.def)
TrReset ==
  /\ l = t0 /\ IsEv("reset")
  /\ LET c == [i \in 1..Len(E.cfg) |-> FieldRec(E.cfg[i])] IN c \in Configs /\ cfg' = c
  /\ last' = [op |-> "new"] /\ UNCHANGED <<vals, nops, ftype>>

TVOf(x) == TV(x.k, x.v)
TrSet ==
  /\ IsEv("set") /\ E.var \in Vars /\ TVOf(E.tv) \in SetValues
  /\ Set(E.var, TVOf(E.tv))
  /\ last'.ok = E.ok /\ last'.err = E.err
TrGet ==
  /\ IsEv("get") /\ E.var \in Vars /\ Get(E.var)
  /\ last'.ok = E.ok /\ (E.ok => last'.tv = TVOf(E.tv))
TrRaw ==
  /\ IsEv("raw") /\ E.var \in Vars /\ Raw(E.var)
  /\ last'.ok = E.ok /\ (E.ok => last'.v = E.v)
(* the submission as the driver decoded it: [var, vals] per field, in order *)
TrSubmit ==
  /\ IsEv("submit") /\ Submit
  /\ last'.ok = E.ok
  /\ Accepts(E.toks)
  /\ E.type = <<"submit">>                                \* whatever the type of the form it was made from
  /\ Len(E.fields) = Len(last'.fields)
  /\ \A i \in 1..Len(E.fields) :
       /\ E.fields[i].var = last'.fields[i].var /\ E.fields[i].ft = last'.fields[i].ft
       /\ E.fields[i].vals \in SubmitAcc(cfg, vals, last'.fields[i])
(* the form's own encoding is well-formed and carries the form's type (one of the four) *)
TrEncode == /\ IsEv("tokenreader") /\ Encode /\ Accepts(E.toks)
            /\ (ftype \in ValidTypes => E.type = DocTypeAttr[ftype])
(* the driver decoded the form's own encoding with the type attribute DocTypeAttr[E.ty] *)
TrUnmarshal ==
  /\ IsEv("unmarshal") /\ E.ty \in FormTypes
  /\ IF E.err = "" THEN /\ Unmarshal(E.ty)
                         /\ [i \in 1..Len(E.fields) |-> FieldRec(E.fields[i])] = cfg'
     ELSE UnmarshalRefused(E.ty)

Inv == C19_StoredFits /\ C19_SetIffFits /\ C19_GetAfterSet /\ C19_GetReportsIt /\ C19_SubmitShape /\ C19_DecodedFormsUsable

TNext ==
  /\ l < EndOf(t0)
  /\ TrReset \/ TrSet \/ TrGet \/ TrRaw \/ TrSubmit \/ TrEncode \/ TrUnmarshal
  /\ UNCHANGED t0
  /\ Inv'
TSpec == TInit /\ [][TNext]_tvars

HW == TLCSet(t0, IF TLCGet(t0) < l THEN l ELSE TLCGet(t0))
Rejected == {i \in Starts : TLCGet(i) # EndOf(i)}
Accepted ==
  \/ Rejected = {}
  \/ PrintT(<<"REJECTED", {<<Trace[i].t, TLCGet(i)>> : i \in Rejected}>>) /\ FALSE
ASSUME \A i \in Starts : TLCSet(i, 0)
=============================================================================
