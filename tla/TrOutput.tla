------------------------------ MODULE TrOutput ------------------------------
(* Trace validation of recorded schedules of the real session's output side        *)
(* (harness/cmd/output) against Output.                                            *)
EXTENDS Output, Json

Trace == ndJsonDeserialize("trace.ndjson")
VARIABLES l, t0
tvars == <<vars, l, t0>>
Starts == {i \in 1..Len(Trace) : Trace[i].ev = "reset"}
EndOf(i) == Trace[i].end
IsEv(e) == l < EndOf(t0) /\ Trace[l].ev = e /\ l' = l + 1

TInit ==
  /\ t0 \in Starts /\ l = t0
  /\ prog = [p \in Procs |-> <<>>] /\ cur = [p \in Procs |-> NoCall]
  /\ lock = "free" /\ outClosed = FALSE /\ inClosed = FALSE /\ wire = <<>>
  /\ rets = [p \in Procs |-> <<>>] /\ peer = <<>> /\ avail = 0 /\ failArmed = FALSE /\ dl = "none" /\ broken = FALSE
  /\ sv = [phase |-> "init", reason |-> "none", owner |-> "none", pending |-> 0]
  /\ sh = [got |-> "none", stale |-> "no"]

ProgOf(r, p) == IF \E i \in 1..Len(r.progs) : r.progs[i].p = p
                THEN r.progs[CHOOSE i \in 1..Len(r.progs) : r.progs[i].p = p].calls
                ELSE <<>>
TrReset ==
  /\ l = t0 /\ IsEv("reset")
  /\ prog' = [p \in Procs |-> ProgOf(Trace[l], p)]
  /\ peer' = Trace[l].script \o <<"eof">>
  /\ sv' = [sv EXCEPT !.phase = "idle"]
  /\ failArmed' = Trace[l].failclose
  /\ UNCHANGED <<cur, lock, outClosed, inClosed, wire, rets, avail, dl, broken, sh>>

TrCall == IsEv("call") /\ Begin(Trace[l].p) /\ cur'[Trace[l].p].k = Trace[l].k
TrRet ==
  /\ IsEv("ret")
  /\ LET p == Trace[l].p IN
     /\ cur[p].k = Trace[l].k /\ cur[p].st = "returning" /\ cur[p].class = Trace[l].class
     /\ Ret(p)
TrWrite ==
  /\ IsEv("write")
  /\ LET p == Trace[l].p
         w == Trace[l].what IN
     \/ w = "elem" /\ TxWrite(p)
     \/ w = "close" /\ CloseWrite(p)
     \/ w = "closefail" /\ CloseWriteFail(p)
     \/ w = "err" /\ ErrWrite(p)
(* The driver ends the peer's byte stream ("eof") only when every goroutine is blocked: a   *)
(* Serve that still waits for input then, after the close deadline has passed, has outlived *)
(* the deadline (C10).                                                                      *)
TrPeer == /\ IsEv("peer") /\ PeerFeed /\ peer[avail'] = Trace[l].item
          /\ (Trace[l].item = "eof" /\ dl = "passed" => sv.phase = "done")
TrDeadline == \/ IsEv("deadline") /\ Deadline
              \/ IsEv("deadline_set") /\ DeadlineSet
              \/ IsEv("deadline_reset") /\ DeadlineReset
              \/ IsEv("deadline_old") /\ OldDeadlineGoesBy
TrHandler == IsEv("handler") /\ ServeItem(sv.owner) /\ Head(peer) = Trace[l].item
(* hook events: for the serve process they mark the start of the calls Serve issues *)
HookKind(pt) == CASE pt = "senderr.enter" -> "senderr"
                  [] pt = "closeinput.enter" -> "closeinput"
                  [] pt = "close.enter" -> "close"
                  [] pt = "tokenwriter.enter" -> "tx"
                  [] OTHER -> "none"
TrHook ==
  /\ IsEv("hook")
  /\ LET p == Trace[l].p
         k == HookKind(Trace[l].point) IN
     IF p = sv.owner /\ sv.phase \in {"reading", "closing"} /\ k # "none"
     THEN Begin(p) /\ cur'[p].k = k
     ELSE UNCHANGED vars
TrServeRet ==
  /\ IsEv("serve_ret") /\ ServeRet(Trace[l].p, Trace[l].class)
  /\ Trace[l].out /\ Trace[l].in                       \* C10: both directions marked closed
(* the wire as re-parsed at the end: one complete, pure top-level element per        *)
(* successful transmit call, in wire order, the close tag last.                      *)
RECURSIVE Collapse(_)
Collapse(w) == IF Len(w) <= 1 THEN w
               ELSE IF w[1].p = w[2].p /\ w[1].what = "elem" /\ w[2].what = "elem" /\ w[1].c = w[2].c
                    THEN Collapse(Tail(w)) ELSE <<w[1]>> \o Collapse(Tail(w))
TrParsed ==
  /\ IsEv("parsed")
  /\ LET its == Trace[l].items
         cw == Collapse(wire) IN
     /\ Len(its) = Len(cw)
     /\ \A i \in 1..Len(its) :
          /\ its[i].what = cw[i].what /\ its[i].pure
          /\ (its[i].complete \/ (broken /\ i = Len(its)))   \* cut short only by the transport failure
          /\ (its[i].what = "elem" => its[i].owner = cw[i].p)
  /\ \A p \in Procs : cur[p] = NoCall                   \* nobody is left inside a call
  /\ sv.phase \in {"idle", "done"}                       \* a Serve that was started has returned (the driver ends the
                                                        \* peer's byte stream when everybody is blocked)
  /\ UNCHANGED vars

Silent ==
  /\ \/ \E p \in Procs : Acquire(p) \/ CloseInput(p) \/ ServeStart(p) \/ ServeAbort(p) \/ ServeDeadline(p)
     \/ \E p \in Procs : TxRefuse(p) \/ TxDone(p) \/ TxcFail(p) \/ TxBroken(p) \/ CloseDone(p) \/ Rx(p)   \* end of a call's body
     \/ \E p \in Procs : \E c \in {"nil", "eof", "closed"} : StaleOp(p, c)     \* a dead token-writer handle used again: nothing happens
     \/ \E p \in Procs : broken /\ CloseWriteFail(p)     \* the failing write never reaches the transport
     \/ \E p \in Procs : p = sv.owner /\ cur[p].k \in {"tx", "senderr", "closeinput", "close"} /\ Ret(p) \* calls Serve issued itself
     \/ \E p \in Procs : p = sv.owner /\ ServeItem(p) /\ Head(peer) \in {"close", "streamerr", "eof"}
  /\ UNCHANGED l

Inv == /\ C10_OneCloseTag /\ C10_NothingAfterClose /\ C10_ClosedIffTag /\ C10_SendersRefused
       /\ C10_BothClosedAfterServe /\ C10_ServeReturnsForCause /\ C10_ServeRetTellsCause /\ C05_Contiguous /\ C05_NoStrayWrites /\ C05_StaleHandleDead

TNext ==
  /\ l < EndOf(t0)
  /\ \/ TrReset \/ TrCall \/ TrRet \/ TrWrite \/ TrPeer \/ TrDeadline \/ TrHandler \/ TrHook \/ TrServeRet
     \/ TrParsed \/ Silent
  /\ UNCHANGED t0
  /\ Inv'

TSpec == TInit /\ [][TNext]_tvars
HW == TLCSet(t0, IF TLCGet(t0) < l THEN l ELSE TLCGet(t0))
Rejected == {i \in Starts : TLCGet(i) # EndOf(i)}
Accepted ==
  \/ Rejected = {}
  \/ PrintT(<<"REJECTED", {<<Trace[i].t, TLCGet(i)>> : i \in Rejected}>>) /\ FALSE
ASSUME \A i \in Starts : TLCSet(i, 0)
=============================================================================
