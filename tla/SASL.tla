------------------------------- MODULE SASL -------------------------------
(***************************************************************************)
(* SASL negotiation of one XMPP session (RFC 6120 section 6), both roles,  *)
(* structured like sasl.go:                                                *)
(*                                                                         *)
(*   negotiateClient : selectmechanism -> CSelect                          *)
(*                     client.Step(nil) -> CStart                          *)
(*                     <auth/>          -> CAuth                           *)
(*                     the single read when the mechanism is done          *)
(*                                      -> CRecvFinal                      *)
(*                     challenge loop   -> CRecvLoop, CStep                *)
(*                     return Authn     -> Finish                          *)
(*   negotiateServer : List             -> SAdvertise                      *)
(*                     read + dispatch (auth/response/abort/other)         *)
(*                                      -> SRecv                           *)
(*                     permissions callback inside the mechanism -> SPerm  *)
(*                     server.Step      -> SStep                           *)
(*                     <success/>, return Authn -> Finish                  *)
(*                                                                         *)
(* The mechanism is abstract: every Step returns (more, err) chosen by the *)
(* environment; the permission verdict is a free boolean consulted inside  *)
(* a server step.  The peer is an environment that hands the session one   *)
(* item at a time (the session consumes it in the same step).              *)
(*                                                                         *)
(* Rules are written as property C03 requires.  Where the property is      *)
(* silent the session is free: it may give up at any point (Abort), may    *)
(* keep reading after a refused request, may or may not act on an          *)
(* undecodable payload, and what it writes besides <auth/> and <success/>  *)
(* is not constrained.  Behaviour of the pinned code that deviates exists  *)
(* only as the named, default-off switch in Dev.                           *)
(***************************************************************************)
EXTENDS Integers, Sequences, FiniteSets, TLC

CONSTANTS Mechs,      \* mechanism names of the pool (MC: configuration lists are drawn from it)
          MaxPeer,    \* bound on peer items (MC only)
          MaxSteps,   \* bound on mechanism steps per negotiator (MC only)
          Roles,      \* subset of {"client","server"}
          MaxSess,    \* sessions negotiated, one after the other, with the same feature value (MC only)
          Dev         \* enabled deviations (empty = the property's rules)

None == "none"
Unk  == "UNK"         \* a mechanism name nobody implements

ToSet(s) == {s[i] : i \in 1..Len(s)}

(* Payloads.  What stands between the tags of <challenge/>, <success/>, <auth/> and      *)
(* <response/> is base64 (RFC 4648 section 4, with padding; RFC 6120 6.4.2: a single "="  *)
(* stands for the empty payload).  A payload is modelled as the string it is, over        *)
(*    1 = a character of the base64 alphabet     2 = the pad character "="                *)
(*    3 = a character outside the alphabet       4 = a blank, 5 = a line feed             *)
(* and classified by the grammar alone:                                                   *)
(*    empty    nothing                  eq   the single "="                               *)
(*    ok       groups of four alphabet characters, the last one padded with at most two   *)
(*    lenient  blanks / line feeds inside or around what is otherwise empty, eq or ok     *)
(*             (RFC 4648 3.3 lets a decoder ignore them only if told so; left to the      *)
(*             session)                                                                   *)
(*    bad      everything else: characters outside the alphabet, a length that is not a   *)
(*             multiple of four, padding in the wrong place or too much of it             *)
B64 == 1
Pad == 2
Outside == 3
Ws  == {4, 5}
PSyms == 1..5
Strict(q) ==
  /\ Len(q) > 0 /\ Len(q) % 4 = 0
  /\ \A i \in 1..Len(q) : q[i] \in {B64, Pad}
  /\ \A i \in 1..Len(q) : q[i] = Pad => i >= Len(q) - 1 /\ q[Len(q)] = Pad
NoWs(p) == SelectSeq(p, LAMBDA c : c \notin Ws)
PClass(p) ==
  IF p = <<>> THEN "empty"
  ELSE IF p = <<Pad>> THEN "eq"
  ELSE IF Strict(p) THEN "ok"
  ELSE IF (\E i \in 1..Len(p) : p[i] \in Ws) /\ (NoWs(p) \in {<<>>, <<Pad>>} \/ Strict(NoWs(p))) THEN "lenient"
  ELSE "bad"
Undecodable(x) == PClass(x.p) = "bad"
MayBeRefused(x) == PClass(x.p) \in {"bad", "lenient"}

(* one payload of every class: the alphabet of the exhaustive trees *)
Payloads == {<<1, 1, 1, 1>>, <<>>, <<Pad>>, <<Outside, Outside, Outside, Outside>>, <<1, 1, 4, 1, 1>>}
(* The shapes, by length class (0, "=", 1, 2, 3, 4, 5 and more) and by alphabet: every    *)
(* string of up to three characters over {alphabet, pad, outside}; of four characters     *)
(* everything over {alphabet, pad} and one outside character at every place; longer ones  *)
(* around the next group boundary; blanks and line feeds at every place of short strings. *)
Rep(n, c) == [i \in 1..n |-> c]
InsertAt(q, i, c) == SubSeq(q, 1, i) \o <<c>> \o SubSeq(q, i + 1, Len(q))
ReplaceAt(q, i, c) == [q EXCEPT ![i] = c]
Shapes ==
  UNION {[1..n -> {B64, Pad, Outside}] : n \in 0..3}
  \cup [1..4 -> {B64, Pad}]
  \cup {ReplaceAt(Rep(4, B64), i, Outside) : i \in 1..4} \cup {Rep(4, Outside)}
  \cup {Rep(n, B64) : n \in 5..9} \cup {Rep(64, B64), Rep(65, B64)}
  \cup {Rep(n, B64) \o <<Pad>> : n \in {4, 6, 7}} \cup {Rep(n, B64) \o <<Pad, Pad>> : n \in {5, 6}}
  \cup {ReplaceAt(Rep(8, B64), i, c) : i \in {1, 4, 5, 8}, c \in {Outside, Pad}}
  \cup UNION {{InsertAt(q, i, w) : i \in 0..Len(q), w \in Ws} :
                q \in {<<>>, <<Pad>>, <<B64>>, <<Outside>>, Rep(3, B64), Rep(4, B64), <<1, 1, 2, 2>>}}

(* What a peer can put on the wire at one step (also emitted for the driver).       *)
Item(k, p, m) == [k |-> k, p |-> p, m |-> m]
ClientAlphabetOver(P) ==    \* sent TO a client
  {Item(kk, pp, "") : kk \in {"challenge", "success"}, pp \in P}
  \cup {Item(kk, <<>>, "") : kk \in {"failure", "foreign", "other", "chardata", "end", "eof"}}
  \cup {Item("xsuccess", <<>>, ""), Item("xchallenge", <<1, 1, 1, 1>>, "")}
ClientAlphabet == ClientAlphabetOver(Payloads)
ServerAlphabetFor(names) == \* sent TO a server; names: mechanism attribute values tried
  {Item("auth", pp, mm) : pp \in Payloads, mm \in names}
  \cup {Item("response", pp, "") : pp \in Payloads}
  \cup {Item(kk, <<>>, "") : kk \in {"abort", "failure", "foreign", "other", "chardata", "end", "eof"}}
  \cup {Item("xauth", <<1, 1, 1, 1>>, mm) : mm \in names \ {""}} \cup {Item("xresponse", <<1, 1, 1, 1>>, "")}
(* every answer of a server / every request of a client with every shape; a <failure/>    *)
(* normally holds a condition element (p = <<>>), here also text of every shape            *)
ShapedClient == {Item(kk, pp, "") : kk \in {"challenge", "success"}, pp \in Shapes}
                \cup {Item("failure", pp, "") : pp \in {q \in Shapes : Len(q) <= 2}}
ShapedServer == {Item("auth", pp, "M1") : pp \in Shapes} \cup {Item("response", pp, "") : pp \in Shapes}
(* Real multi-step mechanisms: the receiver's i-th message of the mechanism travels   *)
(* in a <challenge/> or in a <success/> - chosen independently of what the mechanism *)
(* makes of the message (wants more / is complete) - and after the last message the  *)
(* receiver sends a tail of further (empty) elements, one whenever the initiator     *)
(* reads; then the byte stream ends.  n = 0: a mechanism without receiver messages   *)
(* (PLAIN), n = 2: the SCRAM family.                                                 *)
AnswerKinds == {"challenge", "success"}
Tails == {<<>>, <<"success">>, <<"failure">>, <<"challenge">>, <<"challenge", "success">>,
          <<"success", "success">>, <<"failure", "success">>}
KindPlans(n) == [n : {n}, kinds : [1..n -> AnswerKinds], tail : Tails]
(*  foreign  = an element outside the SASL namespace                                *)
(*  xsuccess, xchallenge, xauth, xresponse = elements outside the SASL namespace    *)
(*             that are NAMED like SASL elements (another SASL profile's namespace, *)
(*             the stream's content namespace inherited, ...): foreign elements     *)
(*             like any other - no rule below knows these kinds                     *)
(*  other    = a SASL-namespace element with another name (client side: <auth/>,    *)
(*             server side: <challenge/>)                                           *)
(*  chardata = character data in place of an element                                *)
(*  end      = the stream's closing tag; eof = the byte stream ends                 *)
(*  auth with m = "" carries no mechanism attribute                                 *)

VARIABLES
  role,         \* "client" | "server"
  local,        \* the session's configured mechanisms, in preference order
  adv,          \* the names advertised on this stream (client: by the peer, server: by us)
  pc,           \* control point of negotiateClient / negotiateServer
  selected,     \* name of the mechanism in use / None
  stepIdx,      \* steps made on the current negotiator
  mechDone,     \* the last step returned more = false without error
  mechErr,      \* the last step returned an error
  successSeen,  \* client: the peer has signalled success for the exchange as it stands: a <success/>
                \* after which the mechanism has not gone on
  earlySuccess, \* client: a <success/> has been seen on which the mechanism went on (a premature one)
  permitted,    \* server: "none" | "yes" | "no": verdicts of the permission callback for the
                \* current negotiator
  authn,        \* the Authn bit has been returned
  npeer,        \* peer items consumed (bounds MC)
  sess          \* number of the session being negotiated with this feature value (1, 2, ...)

(* role and local are the FEATURE VALUE (what xmpp.SASL / xmpp.SASLServer were given: the    *)
(* mechanisms, credentials and the permission callback); an application builds it once and  *)
(* negotiates every connection with it.  Everything else belongs to one session.            *)
vars == <<role, local, adv, pc, selected, stepIdx, mechDone, mechErr, successSeen, earlySuccess, permitted,
          authn, npeer, sess>>

-----------------------------------------------------------------------------
NewNegotiator(m) ==
  /\ selected' = m /\ stepIdx' = 0 /\ mechDone' = FALSE /\ mechErr' = FALSE /\ permitted' = "none"

(* One invocation of Negotiator.Step: never after an error (the negotiator panics), *)
(* only on a mechanism that was selected.                                           *)
Step(more, err) ==
  /\ selected # None /\ ~mechErr
  /\ stepIdx' = stepIdx + 1
  /\ mechErr' = err
  /\ mechDone' = (~err /\ ~more)

Running == pc \notin {"done", "fail"}

(* The session gives up (any error path; the property never forbids failing).       *)
Abort ==
  /\ Running
  /\ pc' = "fail"
  /\ UNCHANGED <<sess, role, local, adv, selected, stepIdx, mechDone, mechErr, successSeen, earlySuccess, permitted,
                 authn, npeer>>

(* The Authn mask is returned.                                                      *)
Finish ==
  /\ pc = "finish"
  /\ authn' = TRUE /\ pc' = "done"
  /\ UNCHANGED <<sess, role, local, adv, selected, stepIdx, mechDone, mechErr, successSeen, earlySuccess, permitted, npeer>>

(* The session is over (authenticated or failed); the next connection is negotiated *)
(* with the same feature value.  Nothing of the previous exchange survives: every   *)
(* session authenticates on its own (A: what the peer of a client advertises).      *)
NewSession(A) ==
  /\ ~Running /\ sess' = sess + 1
  /\ pc' = (IF role = "client" THEN "c_select" ELSE "s_adv")
  /\ adv' = (IF role = "client" THEN A ELSE <<>>)
  /\ authn' = FALSE /\ npeer' = 0
  /\ IF "KeepStateAcrossSessions" \in Dev
     THEN UNCHANGED <<selected, stepIdx, mechDone, mechErr, successSeen, earlySuccess, permitted>>
     ELSE /\ selected' = None /\ stepIdx' = 0 /\ mechDone' = FALSE /\ mechErr' = FALSE
          /\ successSeen' = FALSE /\ earlySuccess' = FALSE /\ permitted' = "none"
  /\ UNCHANGED <<role, local>>

-----------------------------------------------------------------------------
(* Initiating side (negotiateClient)                                                *)

(* The property asks for a mechanism both sides offered; it does not ask for a      *)
(* particular preference order.                                                     *)
CSelect(m) ==
  /\ role = "client" /\ pc = "c_select"
  /\ m \in ToSet(local) \cap ToSet(adv)
  /\ selected' = m /\ pc' = "c_start"
  /\ UNCHANGED <<sess, role, local, adv, stepIdx, mechDone, mechErr, successSeen, earlySuccess, permitted, authn, npeer>>

CStart(more, err) ==
  /\ role = "client" /\ pc = "c_start"
  /\ Step(more, err)
  /\ pc' = (IF err THEN "fail" ELSE "c_auth")
  /\ UNCHANGED <<sess, role, local, adv, selected, successSeen, earlySuccess, permitted, authn, npeer>>

(* <auth mechanism=selected/> is written                                            *)
CAuth ==
  /\ role = "client" /\ pc = "c_auth"
  /\ pc' = (IF mechDone THEN "c_final" ELSE "c_loop")
  /\ UNCHANGED <<sess, role, local, adv, selected, stepIdx, mechDone, mechErr, successSeen, earlySuccess, permitted,
                 authn, npeer>>

(* The receiver signals success with <success/>, empty or holding base64 (RFC 6120   *)
(* 6.4.6).  A <success/> whose content is not a payload at all is no such signal: it *)
(* never stands for the empty one, whatever its length.                              *)
SuccessSignal(x) == x.k = "success" /\ ~Undecodable(x)

(* The mechanism is complete: only <success/> can end the exchange well.  After one  *)
(* that is malformed the session fails or goes on waiting for the signal.            *)
CRecvFinal(x) ==
  /\ role = "client" /\ pc = "c_final"
  /\ npeer' = npeer + 1
  /\ IF SuccessSignal(x)
     THEN /\ successSeen' = TRUE
          /\ pc' \in (IF MayBeRefused(x) THEN {"finish", "fail"} ELSE {"finish"})
     ELSE IF x.k = "success"
     THEN /\ successSeen' = successSeen
          /\ pc' \in {"fail", "c_final"} \cup (IF "MalformedSuccessCounts" \in Dev THEN {"finish"} ELSE {})
     ELSE successSeen' = successSeen /\ pc' = "fail"
  /\ UNCHANGED <<sess, role, local, adv, selected, stepIdx, mechDone, mechErr, earlySuccess, permitted, authn>>

(* The mechanism wants more: <challenge/> and <success/> payloads are handed to it  *)
(* (what a session hands to the mechanism for a payload it cannot decode, if it goes *)
(* on at all, is its business: the mechanism judges the data).                       *)
CRecvLoop(x) ==
  /\ role = "client" /\ pc = "c_loop"
  /\ npeer' = npeer + 1
  /\ IF x.k \in {"challenge", "success"}
     THEN /\ successSeen' = (successSeen \/ SuccessSignal(x))
          /\ pc' \in (IF MayBeRefused(x) THEN {"c_step", "fail"} ELSE {"c_step"})
     ELSE successSeen' = successSeen /\ pc' = "fail"
  /\ UNCHANGED <<sess, role, local, adv, selected, stepIdx, mechDone, mechErr, earlySuccess, permitted, authn>>

(* After a step: an error fails; more => next round; done => authenticated only if  *)
(* the peer has signalled success, otherwise its <success/> is still to come.  The  *)
(* session may also insist on a further <success/> (the property allows both).      *)
(* A <success/> on which the mechanism goes on was PREMATURE: it says nothing about *)
(* the exchange that is completed later ("premature or repeated success ... never   *)
(* produces an authenticated session"), so it is no longer the receiver's signal    *)
(* once the step has returned more - the signal has to come with the element on     *)
(* which the mechanism completes, or after it.  Whatever element kinds the          *)
(* mechanism's messages travel in: kind and step are independent.                   *)
CStep(more, err) ==
  /\ role = "client" /\ pc = "c_step"
  /\ Step(more, err)
  /\ successSeen' = (successSeen /\ ~more /\ ~err)
  /\ earlySuccess' = (earlySuccess \/ (successSeen /\ more))
  /\ pc' \in (IF err THEN {"fail"}
              ELSE IF more THEN {"c_loop"}
              ELSE IF successSeen THEN {"finish", "c_final"}
              ELSE IF "ExitWithoutSuccess" \in Dev THEN {"finish"}
              ELSE IF earlySuccess /\ "PrematureSuccessCounts" \in Dev THEN {"finish"}   \* a flag that is only ever set
              ELSE {"c_final"})
  /\ UNCHANGED <<sess, role, local, adv, selected, permitted, authn, npeer>>

-----------------------------------------------------------------------------
(* Receiving side (negotiateServer)                                                 *)

SAdvertise(L) ==
  /\ role = "server" /\ pc = "s_adv"
  /\ adv' = L /\ pc' = "s_read"
  /\ UNCHANGED <<sess, role, local, selected, stepIdx, mechDone, mechErr, successSeen, earlySuccess, permitted,
                 authn, npeer>>

StepOrFail(x) == IF MayBeRefused(x) THEN {"s_step", "fail"} ELSE {"s_step"}

(* Dispatch on the element read.  <auth/> starts a NEW negotiator for a mechanism   *)
(* that we configured and advertised, anything else named there is refused without  *)
(* a step; <response/> continues the exchange in progress, if there is one;         *)
(* everything else makes no progress (the session may fail or keep reading).        *)
SRecv(x) ==
  /\ role = "server" /\ pc = "s_read"
  /\ npeer' = npeer + 1
  /\ CASE x.k = "auth" /\ x.m \in ToSet(local) \cap ToSet(adv) ->
            NewNegotiator(x.m) /\ pc' \in StepOrFail(x)
       [] x.k = "auth" /\ x.m \notin ToSet(local) \cap ToSet(adv) ->
            NewNegotiator(None) /\ pc' = "s_read"
       [] x.k = "response" /\ selected # None /\ ~mechErr /\ ~mechDone ->
            /\ pc' \in StepOrFail(x)
            /\ UNCHANGED <<selected, stepIdx, mechDone, mechErr, permitted>>
       [] x.k \in {"eof", "end"} ->
            pc' = "fail" /\ UNCHANGED <<selected, stepIdx, mechDone, mechErr, permitted>>
       [] OTHER ->
            pc' = "s_read" /\ UNCHANGED <<selected, stepIdx, mechDone, mechErr, permitted>>
  /\ UNCHANGED <<sess, role, local, adv, successSeen, earlySuccess, authn>>

(* The mechanism consults the application's permission callback during a step.     *)
SPerm(v) ==
  /\ role = "server" /\ pc = "s_step"
  /\ permitted' = (IF v /\ permitted # "no" THEN "yes" ELSE "no")
  /\ UNCHANGED <<sess, role, local, adv, pc, selected, stepIdx, mechDone, mechErr, successSeen, earlySuccess, authn, npeer>>

(* After a step: an error ends this attempt; more => <challenge/> and next round;   *)
(* done => authenticated only if the callback accepted the credentials.             *)
SStep(more, err) ==
  /\ role = "server" /\ pc = "s_step"
  /\ Step(more, err)
  /\ pc' = (IF err THEN "s_read"
            ELSE IF more THEN "s_read"
            ELSE IF permitted = "yes" \/ "SkipPermission" \in Dev THEN "finish"
            ELSE "fail")
  /\ UNCHANGED <<sess, role, local, adv, selected, successSeen, earlySuccess, permitted, authn, npeer>>

-----------------------------------------------------------------------------
(* Bounded environment of the design check                                          *)

RECURSIVE Perms(_)
Perms(S) == IF S = {} THEN {<<>>}
            ELSE UNION {{<<x>> \o p : p \in Perms(S \ {x})} : x \in S}
(* all ordered lists without repetition over subsets of S *)
OrderedSublists(S) == UNION {Perms(T) : T \in SUBSET S}

Init ==
  /\ role \in Roles
  /\ local \in (OrderedSublists(Mechs) \ {<<>>})
  /\ IF role = "client"
     THEN adv \in OrderedSublists(Mechs \cup {Unk}) /\ pc = "c_select"
     ELSE adv = <<>> /\ pc = "s_adv"
  /\ selected = None /\ stepIdx = 0 /\ mechDone = FALSE /\ mechErr = FALSE
  /\ successSeen = FALSE /\ earlySuccess = FALSE /\ permitted = "none" /\ authn = FALSE /\ npeer = 0 /\ sess = 1

StepChoice(A(_, _)) ==
  /\ stepIdx < MaxSteps
  /\ \E more \in BOOLEAN, err \in BOOLEAN : (err => ~more) /\ A(more, err)

Next ==
  \/ Abort \/ Finish \/ CAuth
  \/ \E m \in Mechs : CSelect(m)
  \/ StepChoice(CStart) \/ StepChoice(CStep) \/ StepChoice(SStep)
  \/ npeer < MaxPeer /\ \E x \in ClientAlphabet : CRecvFinal(x) \/ CRecvLoop(x)
  \/ \E L \in OrderedSublists(Mechs) : SAdvertise(L)
  \/ npeer < MaxPeer /\ \E x \in ServerAlphabetFor(Mechs \cup {Unk, ""}) : SRecv(x)
  \/ \E v \in BOOLEAN : SPerm(v)
  \/ sess < MaxSess /\ \E A \in (IF role = "client" THEN OrderedSublists(Mechs \cup {Unk}) ELSE {<<>>}) : NewSession(A)

Spec == Init /\ [][Next]_vars

-----------------------------------------------------------------------------
(* Properties (C03)                                                                 *)

C03_ClientAuthn == role = "client" /\ (authn \/ pc = "finish") => mechDone /\ ~mechErr /\ successSeen
C03_ServerAuthn == role = "server" /\ (authn \/ pc = "finish") => mechDone /\ ~mechErr /\ permitted = "yes"
C03_MechanismMutual == selected # None => selected \in ToSet(local) \cap ToSet(adv)
(* a step is made only on a selected mechanism ... *)
C03_StepOnlySelected == [][stepIdx' > stepIdx => selected' # None]_vars
(* ... and never on a negotiator that has returned an error (stepIdx' = 0: a new one) *)
C03_NoStepAfterError == [][mechErr => stepIdx' = stepIdx \/ stepIdx' = 0]_vars
(* (within a session) *)
C03_AuthnStable == [][authn /\ sess' = sess => authn']_vars
(* a session starts from nothing: no mechanism selected, no step made, no verdict, no       *)
(* <success/> seen, not authenticated - whatever happened in the sessions negotiated with   *)
(* this feature value before.  Together with the invariants above (which hold in every      *)
(* session): every session is authenticated only by its own completed, accepted exchange.   *)
C03_SessionFresh ==
  [][sess' # sess => /\ selected' = None /\ stepIdx' = 0 /\ ~mechDone' /\ ~mechErr'
                     /\ ~successSeen' /\ ~earlySuccess' /\ permitted' = "none" /\ ~authn']_vars
=============================================================================
