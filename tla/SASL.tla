------------------------------- MODULE SASL -------------------------------
(***************************************************************************)
(* SASL negotiation of one XMPP session (RFC 6120 section 6), both roles,  *)
(* structured like sasl.go:                                                *)
(*                                                                         *)
(*   negotiateClient : selectmechanism -> CSelect                          *)
(*                     client.Step(nil) -> CStart                          *)
(*                     <auth/>          -> CAuth                           *)
(*                     the single read when the mechanism is done          *)
(*                                      -> CRecvFinal                      *)
(*                     challenge loop   -> CRecvLoop, CStep                *)
(*                     return Authn     -> Finish                          *)
(*   negotiateServer : List             -> SAdvertise                      *)
(*                     read + dispatch (auth/response/abort/other)         *)
(*                                      -> SRecv                           *)
(*                     permissions callback inside the mechanism -> SPerm  *)
(*                     server.Step      -> SStep                           *)
(*                     <success/>, return Authn -> Finish                  *)
(*                                                                         *)
(* The mechanism is abstract: every Step returns (more, err) chosen by the *)
(* environment; the permission verdict is a free boolean consulted inside  *)
(* a server step.  The peer is an environment that hands the session one   *)
(* item at a time (the session consumes it in the same step).              *)
(*                                                                         *)
(* Rules are written as property C03 requires.  Where the property is      *)
(* silent the session is free: it may give up at any point (Abort), may    *)
(* keep reading after a refused request, may or may not act on an          *)
(* undecodable payload, and what it writes besides <auth/> and <success/>  *)
(* is not constrained.  Behaviour of the pinned code that deviates exists  *)
(* only as the named, default-off switch in Dev.                           *)
(***************************************************************************)
EXTENDS Integers, Sequences, FiniteSets, TLC

CONSTANTS Mechs,      \* mechanism names of the pool (MC: configuration lists are drawn from it)
          MaxPeer,    \* bound on peer items (MC only)
          MaxSteps,   \* bound on mechanism steps per negotiator (MC only)
          Roles,      \* subset of {"client","server"}
          MaxSess,    \* sessions negotiated, one after the other, with the same feature value (MC only)
          Dev         \* enabled deviations (empty = the property's rules)

None == "none"
Unk  == "UNK"         \* a mechanism name nobody implements

ToSet(s) == {s[i] : i \in 1..Len(s)}
Payloads == {"ok", "empty", "eq", "bad"}     \* decodable | "" | "=" | not base64

(* What a peer can put on the wire at one step (also emitted for the driver).       *)
ClientAlphabet ==          \* sent TO a client
  {[k |-> kk, p |-> pp, m |-> ""] : kk \in {"challenge", "success"}, pp \in Payloads}
  \cup {[k |-> kk, p |-> "", m |-> ""] : kk \in {"failure", "foreign", "other", "chardata", "end", "eof"}}
ServerAlphabetFor(names) == \* sent TO a server; names: mechanism attribute values tried
  {[k |-> "auth", p |-> pp, m |-> mm] : pp \in Payloads, mm \in names}
  \cup {[k |-> "response", p |-> pp, m |-> ""] : pp \in Payloads}
  \cup {[k |-> kk, p |-> "", m |-> ""] : kk \in {"abort", "failure", "foreign", "other", "chardata", "end", "eof"}}
(*  foreign  = an element outside the SASL namespace                                *)
(*  other    = a SASL-namespace element with another name (client side: <auth/>,    *)
(*             server side: <challenge/>)                                           *)
(*  chardata = character data in place of an element                                *)
(*  end      = the stream's closing tag; eof = the byte stream ends                 *)
(*  auth with m = "" carries no mechanism attribute                                 *)

VARIABLES
  role,         \* "client" | "server"
  local,        \* the session's configured mechanisms, in preference order
  adv,          \* the names advertised on this stream (client: by the peer, server: by us)
  pc,           \* control point of negotiateClient / negotiateServer
  selected,     \* name of the mechanism in use / None
  stepIdx,      \* steps made on the current negotiator
  mechDone,     \* the last step returned more = false without error
  mechErr,      \* the last step returned an error
  successSeen,  \* client: the peer has sent <success/>
  permitted,    \* server: "none" | "yes" | "no": verdicts of the permission callback for the
                \* current negotiator
  authn,        \* the Authn bit has been returned
  npeer,        \* peer items consumed (bounds MC)
  sess          \* number of the session being negotiated with this feature value (1, 2, ...)

(* role and local are the FEATURE VALUE (what xmpp.SASL / xmpp.SASLServer were given: the    *)
(* mechanisms, credentials and the permission callback); an application builds it once and  *)
(* negotiates every connection with it.  Everything else belongs to one session.            *)
vars == <<role, local, adv, pc, selected, stepIdx, mechDone, mechErr, successSeen, permitted,
          authn, npeer, sess>>

-----------------------------------------------------------------------------
NewNegotiator(m) ==
  /\ selected' = m /\ stepIdx' = 0 /\ mechDone' = FALSE /\ mechErr' = FALSE /\ permitted' = "none"

(* One invocation of Negotiator.Step: never after an error (the negotiator panics), *)
(* only on a mechanism that was selected.                                           *)
Step(more, err) ==
  /\ selected # None /\ ~mechErr
  /\ stepIdx' = stepIdx + 1
  /\ mechErr' = err
  /\ mechDone' = (~err /\ ~more)

Running == pc \notin {"done", "fail"}

(* The session gives up (any error path; the property never forbids failing).       *)
Abort ==
  /\ Running
  /\ pc' = "fail"
  /\ UNCHANGED <<sess, role, local, adv, selected, stepIdx, mechDone, mechErr, successSeen, permitted,
                 authn, npeer>>

(* The Authn mask is returned.                                                      *)
Finish ==
  /\ pc = "finish"
  /\ authn' = TRUE /\ pc' = "done"
  /\ UNCHANGED <<sess, role, local, adv, selected, stepIdx, mechDone, mechErr, successSeen, permitted, npeer>>

(* The session is over (authenticated or failed); the next connection is negotiated *)
(* with the same feature value.  Nothing of the previous exchange survives: every   *)
(* session authenticates on its own (A: what the peer of a client advertises).      *)
NewSession(A) ==
  /\ ~Running /\ sess' = sess + 1
  /\ pc' = (IF role = "client" THEN "c_select" ELSE "s_adv")
  /\ adv' = (IF role = "client" THEN A ELSE <<>>)
  /\ authn' = FALSE /\ npeer' = 0
  /\ IF "KeepStateAcrossSessions" \in Dev
     THEN UNCHANGED <<selected, stepIdx, mechDone, mechErr, successSeen, permitted>>
     ELSE /\ selected' = None /\ stepIdx' = 0 /\ mechDone' = FALSE /\ mechErr' = FALSE
          /\ successSeen' = FALSE /\ permitted' = "none"
  /\ UNCHANGED <<role, local>>

-----------------------------------------------------------------------------
(* Initiating side (negotiateClient)                                                *)

(* The property asks for a mechanism both sides offered; it does not ask for a      *)
(* particular preference order.                                                     *)
CSelect(m) ==
  /\ role = "client" /\ pc = "c_select"
  /\ m \in ToSet(local) \cap ToSet(adv)
  /\ selected' = m /\ pc' = "c_start"
  /\ UNCHANGED <<sess, role, local, adv, stepIdx, mechDone, mechErr, successSeen, permitted, authn, npeer>>

CStart(more, err) ==
  /\ role = "client" /\ pc = "c_start"
  /\ Step(more, err)
  /\ pc' = (IF err THEN "fail" ELSE "c_auth")
  /\ UNCHANGED <<sess, role, local, adv, selected, successSeen, permitted, authn, npeer>>

(* <auth mechanism=selected/> is written                                            *)
CAuth ==
  /\ role = "client" /\ pc = "c_auth"
  /\ pc' = (IF mechDone THEN "c_final" ELSE "c_loop")
  /\ UNCHANGED <<sess, role, local, adv, selected, stepIdx, mechDone, mechErr, successSeen, permitted,
                 authn, npeer>>

(* The mechanism is complete: only <success/> can end the exchange well.  Whether a *)
(* <success/> whose payload cannot be decoded counts is left to the session.        *)
CRecvFinal(x) ==
  /\ role = "client" /\ pc = "c_final"
  /\ npeer' = npeer + 1
  /\ IF x.k = "success"
     THEN /\ successSeen' = TRUE
          /\ pc' \in (IF x.p = "bad" THEN {"finish", "fail"} ELSE {"finish"})
     ELSE successSeen' = successSeen /\ pc' = "fail"
  /\ UNCHANGED <<sess, role, local, adv, selected, stepIdx, mechDone, mechErr, permitted, authn>>

(* The mechanism wants more: <challenge/> and <success/> payloads are handed to it. *)
CRecvLoop(x) ==
  /\ role = "client" /\ pc = "c_loop"
  /\ npeer' = npeer + 1
  /\ IF x.k \in {"challenge", "success"}
     THEN /\ successSeen' = (successSeen \/ x.k = "success")
          /\ pc' \in (IF x.p = "bad" THEN {"c_step", "fail"} ELSE {"c_step"})
     ELSE successSeen' = successSeen /\ pc' = "fail"
  /\ UNCHANGED <<sess, role, local, adv, selected, stepIdx, mechDone, mechErr, permitted, authn>>

(* After a step: an error fails; more => next round; done => authenticated only if  *)
(* the peer has signalled success, otherwise its <success/> is still to come.  The  *)
(* session may also insist on a further <success/> (the property allows both).      *)
CStep(more, err) ==
  /\ role = "client" /\ pc = "c_step"
  /\ Step(more, err)
  /\ pc' \in (IF err THEN {"fail"}
              ELSE IF more THEN {"c_loop"}
              ELSE IF successSeen THEN {"finish", "c_final"}
              ELSE IF "ExitWithoutSuccess" \in Dev THEN {"finish"}
              ELSE {"c_final"})
  /\ UNCHANGED <<sess, role, local, adv, selected, successSeen, permitted, authn, npeer>>

-----------------------------------------------------------------------------
(* Receiving side (negotiateServer)                                                 *)

SAdvertise(L) ==
  /\ role = "server" /\ pc = "s_adv"
  /\ adv' = L /\ pc' = "s_read"
  /\ UNCHANGED <<sess, role, local, selected, stepIdx, mechDone, mechErr, successSeen, permitted,
                 authn, npeer>>

StepOrFail(x) == IF x.p = "bad" THEN {"s_step", "fail"} ELSE {"s_step"}

(* Dispatch on the element read.  <auth/> starts a NEW negotiator for a mechanism   *)
(* that we configured and advertised, anything else named there is refused without  *)
(* a step; <response/> continues the exchange in progress, if there is one;         *)
(* everything else makes no progress (the session may fail or keep reading).        *)
SRecv(x) ==
  /\ role = "server" /\ pc = "s_read"
  /\ npeer' = npeer + 1
  /\ CASE x.k = "auth" /\ x.m \in ToSet(local) \cap ToSet(adv) ->
            NewNegotiator(x.m) /\ pc' \in StepOrFail(x)
       [] x.k = "auth" /\ x.m \notin ToSet(local) \cap ToSet(adv) ->
            NewNegotiator(None) /\ pc' = "s_read"
       [] x.k = "response" /\ selected # None /\ ~mechErr /\ ~mechDone ->
            /\ pc' \in StepOrFail(x)
            /\ UNCHANGED <<selected, stepIdx, mechDone, mechErr, permitted>>
       [] x.k \in {"eof", "end"} ->
            pc' = "fail" /\ UNCHANGED <<selected, stepIdx, mechDone, mechErr, permitted>>
       [] OTHER ->
            pc' = "s_read" /\ UNCHANGED <<selected, stepIdx, mechDone, mechErr, permitted>>
  /\ UNCHANGED <<sess, role, local, adv, successSeen, authn>>

(* The mechanism consults the application's permission callback during a step.     *)
SPerm(v) ==
  /\ role = "server" /\ pc = "s_step"
  /\ permitted' = (IF v /\ permitted # "no" THEN "yes" ELSE "no")
  /\ UNCHANGED <<sess, role, local, adv, pc, selected, stepIdx, mechDone, mechErr, successSeen, authn, npeer>>

(* After a step: an error ends this attempt; more => <challenge/> and next round;   *)
(* done => authenticated only if the callback accepted the credentials.             *)
SStep(more, err) ==
  /\ role = "server" /\ pc = "s_step"
  /\ Step(more, err)
  /\ pc' = (IF err THEN "s_read"
            ELSE IF more THEN "s_read"
            ELSE IF permitted = "yes" \/ "SkipPermission" \in Dev THEN "finish"
            ELSE "fail")
  /\ UNCHANGED <<sess, role, local, adv, selected, successSeen, permitted, authn, npeer>>

-----------------------------------------------------------------------------
(* Bounded environment of the design check                                          *)

RECURSIVE Perms(_)
Perms(S) == IF S = {} THEN {<<>>}
            ELSE UNION {{<<x>> \o p : p \in Perms(S \ {x})} : x \in S}
(* all ordered lists without repetition over subsets of S *)
OrderedSublists(S) == UNION {Perms(T) : T \in SUBSET S}

Init ==
  /\ role \in Roles
  /\ local \in (OrderedSublists(Mechs) \ {<<>>})
  /\ IF role = "client"
     THEN adv \in OrderedSublists(Mechs \cup {Unk}) /\ pc = "c_select"
     ELSE adv = <<>> /\ pc = "s_adv"
  /\ selected = None /\ stepIdx = 0 /\ mechDone = FALSE /\ mechErr = FALSE
  /\ successSeen = FALSE /\ permitted = "none" /\ authn = FALSE /\ npeer = 0 /\ sess = 1

StepChoice(A(_, _)) ==
  /\ stepIdx < MaxSteps
  /\ \E more \in BOOLEAN, err \in BOOLEAN : (err => ~more) /\ A(more, err)

Next ==
  \/ Abort \/ Finish \/ CAuth
  \/ \E m \in Mechs : CSelect(m)
  \/ StepChoice(CStart) \/ StepChoice(CStep) \/ StepChoice(SStep)
  \/ npeer < MaxPeer /\ \E x \in ClientAlphabet : CRecvFinal(x) \/ CRecvLoop(x)
  \/ \E L \in OrderedSublists(Mechs) : SAdvertise(L)
  \/ npeer < MaxPeer /\ \E x \in ServerAlphabetFor(Mechs \cup {Unk, ""}) : SRecv(x)
  \/ \E v \in BOOLEAN : SPerm(v)
  \/ sess < MaxSess /\ \E A \in (IF role = "client" THEN OrderedSublists(Mechs \cup {Unk}) ELSE {<<>>}) : NewSession(A)

Spec == Init /\ [][Next]_vars

-----------------------------------------------------------------------------
(* Properties (C03)                                                                 *)

C03_ClientAuthn == role = "client" /\ (authn \/ pc = "finish") => mechDone /\ ~mechErr /\ successSeen
C03_ServerAuthn == role = "server" /\ (authn \/ pc = "finish") => mechDone /\ ~mechErr /\ permitted = "yes"
C03_MechanismMutual == selected # None => selected \in ToSet(local) \cap ToSet(adv)
(* a step is made only on a selected mechanism ... *)
C03_StepOnlySelected == [][stepIdx' > stepIdx => selected' # None]_vars
(* ... and never on a negotiator that has returned an error (stepIdx' = 0: a new one) *)
C03_NoStepAfterError == [][mechErr => stepIdx' = stepIdx \/ stepIdx' = 0]_vars
(* (within a session) *)
C03_AuthnStable == [][authn /\ sess' = sess => authn']_vars
(* a session starts from nothing: no mechanism selected, no step made, no verdict, no       *)
(* <success/> seen, not authenticated - whatever happened in the sessions negotiated with   *)
(* this feature value before.  Together with the invariants above (which hold in every      *)
(* session): every session is authenticated only by its own completed, accepted exchange.   *)
C03_SessionFresh ==
  [][sess' # sess => /\ selected' = None /\ stepIdx' = 0 /\ ~mechDone' /\ ~mechErr'
                     /\ ~successSeen' /\ permitted' = "none" /\ ~authn']_vars
=============================================================================
