----------------------------- MODULE MCStyling -----------------------------
(* Design check of the C17 monitor: an arbitrary token-stream generator drives the      *)
(* monitor over every input of a small alphabet; whatever the generator emits, a stream *)
(* that the monitor has not rejected satisfies the clauses of the property.  Named      *)
(* well-formed streams must be accepted and named bad streams rejected for the stated   *)
(* reason (the monitor is neither vacuous nor unsatisfiable).                           *)
EXTENDS Styling

STAR == 42
TICK == 96
A == 97

RECURSIVE SeqsUpTo(_, _)
SeqsUpTo(S, n) == IF n = 0 THEN {<<>>}
                  ELSE LET P == SeqsUpTo(S, n - 1) IN P \cup {Append(p, x) : p \in P, x \in S}

MCInputs == SeqsUpTo({STAR, A, NL}, 3)
RECURSIVE AsSeq(_)
AsSeq(S) == IF S = {} THEN <<>> ELSE LET x == CHOOSE x \in S : TRUE IN <<x>> \o AsSeq(S \ {x})
MCMasks == {AsSeq(S) : S \in SUBSET {"SpanStrong", "SpanStrongStart", "SpanStrongEnd", "SpanPre", "SpanPreStart", "SpanPreEnd", "BlockPre"}}

T(d, m) == [ev |-> "tok", data |-> d, m |-> m, q |-> 0, info |-> <<>>]
EOF == [ev |-> "end", panic |-> FALSE, runaway |-> FALSE, err |-> "EOF"]
Strong == <<"SpanStrong">>
StrongS == <<"SpanStrong", "SpanStrongStart">>
StrongE == <<"SpanStrong", "SpanStrongEnd">>
EmphS == <<"SpanEmph", "SpanEmphStart">>
EmphE == <<"SpanEmph", "SpanEmphEnd">>
PreS == <<"SpanPre", "SpanPreStart">>
PreE == <<"SpanPre", "SpanPreEnd">>

In1 == <<STAR, A, STAR, NL>>                       \* "*a*\n"
Good1 == <<T(<<STAR>>, StrongS), T(<<A>>, Strong), T(<<STAR>>, StrongE), T(<<NL>>, <<>>), EOF>>
In2 == <<STAR, 95, A, 95, STAR>>                   \* "*_a_*"
Good2 == <<T(<<STAR>>, StrongS), T(<<95>>, <<"SpanStrong", "SpanEmph", "SpanEmphStart">>),
           T(<<A>>, <<"SpanStrong", "SpanEmph">>), T(<<95>>, <<"SpanStrong", "SpanEmph", "SpanEmphEnd">>),
           T(<<STAR>>, StrongE), EOF>>
In3 == <<62, 32, A, NL, A>>                        \* "> a\na" with the virtual quote-end token
Good3 == <<[T(<<62, 32>>, <<"BlockQuote", "BlockQuoteStart">>) EXCEPT !.q = 1],
           [T(<<A, NL>>, <<"BlockQuote">>) EXCEPT !.q = 1],
           [T(<<>>, <<"BlockQuote", "BlockQuoteEnd">>) EXCEPT !.q = 1], T(<<A>>, <<>>), EOF>>

ASSUME Accepts(In1, "decoder", <<>>, Good1)
ASSUME Accepts(In2, "decoder", <<>>, Good2)
ASSUME Accepts(In3, "decoder", <<>>, Good3)
ASSUME Accepts(In1, "decoder", Good1, Good1)
ASSUME Accepts(In1, "scan", <<>>, <<T(<<STAR>>, <<>>), T(<<A>>, <<>>), T(<<STAR>>, <<>>), T(<<NL>>, <<>>), EOF>>)

Prefix(why, p) == Len(why) >= 0 /\ why # "" /\ p # ""   \* (TLC cannot take strings apart; equality is used below)

Bad == <<
  [name |-> "span never closed", input |-> <<STAR, A, NL>>,
   evs |-> <<T(<<STAR>>, StrongS), T(<<A, NL>>, Strong), EOF>>,
   why |-> "C17_ClosedBeforeLineEnd: line ends with a span open"],
  [name |-> "span open at end of input", input |-> <<STAR, A>>,
   evs |-> <<T(<<STAR>>, StrongS), T(<<A>>, Strong), EOF>>,
   why |-> "C17_ClosedBeforeLineEnd: input ends with a span open"],
  [name |-> "end directive without style bit", input |-> <<STAR, A, STAR>>,
   evs |-> <<T(<<STAR>>, StrongS), T(<<A>>, Strong), T(<<STAR>>, <<"SpanStrongEnd">>), EOF>>,
   why |-> "C17_DirectiveImpliesStyle: directive bit without its style bit"],
  [name |-> "end without start (stack not popped)", input |-> <<STAR, A, STAR, STAR>>,
   evs |-> <<T(<<STAR>>, StrongS), T(<<A>>, Strong), T(<<STAR>>, StrongE), T(<<STAR>>, StrongE), EOF>>,
   why |-> "C17_Nested: span end does not match the innermost open span"],
  [name |-> "crossing spans", input |-> <<STAR, 95, A, STAR, 95>>,
   evs |-> <<T(<<STAR>>, StrongS), T(<<95>>, <<"SpanStrong", "SpanEmph", "SpanEmphStart">>),
             T(<<A>>, <<"SpanStrong", "SpanEmph">>), T(<<STAR>>, <<"SpanStrong", "SpanEmph", "SpanStrongEnd">>),
             T(<<95>>, EmphE), EOF>>,
   why |-> "C17_Nested: span end does not match the innermost open span"],
  [name |-> "directive inside pre span", input |-> <<TICK, STAR, A, STAR, TICK>>,
   evs |-> <<T(<<TICK>>, PreS), T(<<STAR>>, <<"SpanPre", "SpanStrong", "SpanStrongStart">>), T(<<A>>, Strong), EOF>>,
   why |-> "C17_NoStartInPre: span start inside a preformatted span"],
  [name |-> "lost octet", input |-> <<A, A, NL>>,
   evs |-> <<T(<<A>>, <<>>), T(<<NL>>, <<>>), EOF>>,
   why |-> "C17_Lossless: token data is not the next piece of the input"],
  [name |-> "stops early", input |-> <<A, NL, A>>,
   evs |-> <<T(<<A, NL>>, <<>>), [EOF EXCEPT !.err = "bufio.Scanner: token too long"]>>,
   why |-> "C17_Lossless: decoding ended before the end of the input"],
  [name |-> "panic", input |-> <<A>>,
   evs |-> <<[EOF EXCEPT !.panic = TRUE]>>,
   why |-> "C17_NoPanic: the decoder panicked"],
  [name |-> "runaway", input |-> <<A>>,
   evs |-> <<T(<<A>>, <<>>), [EOF EXCEPT !.runaway = TRUE]>>,
   why |-> "C17_Terminates: Next kept returning true"] >>

ASSUME \A i \in 1..Len(Bad) :
  \/ WhyNot(Bad[i].input, "decoder", <<>>, Bad[i].evs) = Bad[i].why
  \/ PrintT(<<"BAD STREAM NOT REJECTED AS EXPECTED", Bad[i].name, WhyNot(Bad[i].input, "decoder", <<>>, Bad[i].evs)>>) /\ FALSE

(* chunk dependence: the same input split differently gives other tokens *)
ASSUME WhyNot(<<62, 32, A>>, "decoder",
              <<[T(<<62, 32>>, <<"BlockQuote", "BlockQuoteStart">>) EXCEPT !.q = 1], [T(<<A>>, <<"BlockQuote">>) EXCEPT !.q = 1], EOF>>,
              <<[T(<<62>>, <<"BlockQuote", "BlockQuoteStart">>) EXCEPT !.q = 1], [T(<<32, A>>, <<"BlockQuote">>) EXCEPT !.q = 1], EOF>>)
       = "C17_ChunkIndependent: token differs from the whole-input read"

(* chunk dependence that only shows when the end of the input is signalled together with  *)
(* data: a line inside a preformatted block that merely starts with three backticks is    *)
(* taken for the closing fence.  Document: "```\n```a\nb\n"                               *)
BPre == <<"BlockPre">>
InF == <<TICK, TICK, TICK, NL, TICK, TICK, TICK, A, NL, A, NL>>
RefF == <<T(<<TICK, TICK, TICK, NL>>, <<"BlockPre", "BlockPreStart">>), T(<<TICK, TICK, TICK, A, NL>>, BPre),
          T(<<A, NL>>, BPre), EOF>>
GotF == <<T(<<TICK, TICK, TICK, NL>>, <<"BlockPre", "BlockPreStart">>), T(<<TICK, TICK, TICK, A>>, <<"BlockPre", "BlockPreEnd">>),
          T(<<NL>>, <<>>), T(<<A, NL>>, <<>>), EOF>>
ASSUME Accepts(InF, "decoder", <<>>, RefF)
ASSUME Accepts(InF, "decoder", <<>>, GotF)          \* each stream alone satisfies every other clause
ASSUME WhyNotD(InF, "decoder", RefF, <<11>>, "with-data", GotF) = "C17_ChunkIndependent: token differs from the whole-input read"
ASSUME WhyNotD(InF, "decoder", RefF, <<0, 4, 4, 11, 11, 11>>, "separate", RefF) = ""

(* deliveries: what a reader may do, and what the harness must not do *)
ASSUME LegalDelivery(In1, <<4, 4>>, "separate")              \* one big read, then the end
ASSUME LegalDelivery(In1, <<4>>, "with-data")                \* the whole input together with the end
ASSUME LegalDelivery(In1, <<0, 1, 1, 3, 4>>, "with-data")    \* (0, nil) reads in between
ASSUME LegalDelivery(In1, <<1, 2, 3, 4, 4, 4>>, "separate")  \* octet by octet, an empty read before the end
ASSUME LegalDelivery(In1, <<2>>, "none")                     \* the decoder gave up early
ASSUME LegalDelivery(<<>>, <<0>>, "separate")
ASSUME ~LegalDelivery(In1, <<2, 1, 4, 4>>, "separate")       \* goes back
ASSUME ~LegalDelivery(In1, <<5, 5>>, "separate")             \* more than the input
ASSUME ~LegalDelivery(In1, <<3, 3>>, "separate")             \* end signalled before the last octet
ASSUME ~LegalDelivery(In1, <<4, 4>>, "with-data")            \* the read that signalled the end was empty
ASSUME ~LegalDelivery(In1, <<4>>, "separate")
ASSUME ~LegalDelivery(<<>>, <<0>>, "with-data")
ASSUME WhyNotD(In1, "decoder", <<>>, <<3, 3>>, "separate", Good1)
       = "HARNESS_Delivery: the recorded reads are not a legal delivery of the input"
=============================================================================
