----------------------------- MODULE MCStyling -----------------------------
(* Design check of the C17 monitor: an arbitrary token-stream generator drives the      *)
(* monitor over every input of a small alphabet; whatever the generator emits, a stream *)
(* that the monitor has not rejected satisfies the clauses of the property.  Named      *)
(* well-formed streams must be accepted and named bad streams rejected for the stated   *)
(* reason (the monitor is neither vacuous nor unsatisfiable).                           *)
EXTENDS Styling

STAR == 42
TICK == 96
A == 97

RECURSIVE SeqsUpTo(_, _)
SeqsUpTo(S, n) == IF n = 0 THEN {<<>>}
                  ELSE LET P == SeqsUpTo(S, n - 1) IN P \cup {Append(p, x) : p \in P, x \in S}

MCInputs == SeqsUpTo({STAR, A, NL}, 3)
RECURSIVE AsSeq(_)
AsSeq(S) == IF S = {} THEN <<>> ELSE LET x == CHOOSE x \in S : TRUE IN <<x>> \o AsSeq(S \ {x})
MCMasks == {AsSeq(S) : S \in SUBSET {"SpanStrong", "SpanStrongStart", "SpanStrongEnd", "SpanPre", "SpanPreStart", "SpanPreEnd", "BlockPre"}}

T(d, m) == [ev |-> "tok", data |-> d, m |-> m, q |-> 0, info |-> <<>>]
EOF == [ev |-> "end", panic |-> FALSE, runaway |-> FALSE, err |-> "EOF"]
Strong == <<"SpanStrong">>
StrongS == <<"SpanStrong", "SpanStrongStart">>
StrongE == <<"SpanStrong", "SpanStrongEnd">>
EmphS == <<"SpanEmph", "SpanEmphStart">>
EmphE == <<"SpanEmph", "SpanEmphEnd">>
PreS == <<"SpanPre", "SpanPreStart">>
PreE == <<"SpanPre", "SpanPreEnd">>

In1 == <<STAR, A, STAR, NL>>                       \* "*a*\n"
Good1 == <<T(<<STAR>>, StrongS), T(<<A>>, Strong), T(<<STAR>>, StrongE), T(<<NL>>, <<>>), EOF>>
In2 == <<STAR, 95, A, 95, STAR>>                   \* "*_a_*"
Good2 == <<T(<<STAR>>, StrongS), T(<<95>>, <<"SpanStrong", "SpanEmph", "SpanEmphStart">>),
           T(<<A>>, <<"SpanStrong", "SpanEmph">>), T(<<95>>, <<"SpanStrong", "SpanEmph", "SpanEmphEnd">>),
           T(<<STAR>>, StrongE), EOF>>
In3 == <<62, 32, A, NL, A>>                        \* "> a\na" with the virtual quote-end token
Good3 == <<[T(<<62, 32>>, <<"BlockQuote", "BlockQuoteStart">>) EXCEPT !.q = 1],
           [T(<<A, NL>>, <<"BlockQuote">>) EXCEPT !.q = 1],
           [T(<<>>, <<"BlockQuote", "BlockQuoteEnd">>) EXCEPT !.q = 1], T(<<A>>, <<>>), EOF>>

ASSUME Accepts(In1, "decoder", <<>>, Good1)
ASSUME Accepts(In2, "decoder", <<>>, Good2)
ASSUME Accepts(In3, "decoder", <<>>, Good3)
ASSUME Accepts(In1, "decoder", Good1, Good1)
ASSUME Accepts(In1, "scan", <<>>, <<T(<<STAR>>, <<>>), T(<<A>>, <<>>), T(<<STAR>>, <<>>), T(<<NL>>, <<>>), EOF>>)

Prefix(why, p) == Len(why) >= 0 /\ why # "" /\ p # ""   \* (TLC cannot take strings apart; equality is used below)

Bad == <<
  [name |-> "span never closed", input |-> <<STAR, A, NL>>,
   evs |-> <<T(<<STAR>>, StrongS), T(<<A, NL>>, Strong), EOF>>,
   why |-> "C17_ClosedBeforeLineEnd: line ends with a span open"],
  [name |-> "span open at end of input", input |-> <<STAR, A>>,
   evs |-> <<T(<<STAR>>, StrongS), T(<<A>>, Strong), EOF>>,
   why |-> "C17_ClosedBeforeLineEnd: input ends with a span open"],
  [name |-> "end directive without style bit", input |-> <<STAR, A, STAR>>,
   evs |-> <<T(<<STAR>>, StrongS), T(<<A>>, Strong), T(<<STAR>>, <<"SpanStrongEnd">>), EOF>>,
   why |-> "C17_DirectiveImpliesStyle: directive bit without its style bit"],
  [name |-> "end without start (stack not popped)", input |-> <<STAR, A, STAR, STAR>>,
   evs |-> <<T(<<STAR>>, StrongS), T(<<A>>, Strong), T(<<STAR>>, StrongE), T(<<STAR>>, StrongE), EOF>>,
   why |-> "C17_Nested: span end does not match the innermost open span"],
  [name |-> "crossing spans", input |-> <<STAR, 95, A, STAR, 95>>,
   evs |-> <<T(<<STAR>>, StrongS), T(<<95>>, <<"SpanStrong", "SpanEmph", "SpanEmphStart">>),
             T(<<A>>, <<"SpanStrong", "SpanEmph">>), T(<<STAR>>, <<"SpanStrong", "SpanEmph", "SpanStrongEnd">>),
             T(<<95>>, EmphE), EOF>>,
   why |-> "C17_Nested: span end does not match the innermost open span"],
  [name |-> "directive inside pre span", input |-> <<TICK, STAR, A, STAR, TICK>>,
   evs |-> <<T(<<TICK>>, PreS), T(<<STAR>>, <<"SpanPre", "SpanStrong", "SpanStrongStart">>), T(<<A>>, Strong), EOF>>,
   why |-> "C17_NoStartInPre: span start inside a preformatted span"],
  [name |-> "lost octet", input |-> <<A, A, NL>>,
   evs |-> <<T(<<A>>, <<>>), T(<<NL>>, <<>>), EOF>>,
   why |-> "C17_Lossless: token data is not the next piece of the input"],
  [name |-> "stops early", input |-> <<A, NL, A>>,
   evs |-> <<T(<<A, NL>>, <<>>), [EOF EXCEPT !.err = "bufio.Scanner: token too long"]>>,
   why |-> "C17_Lossless: decoding ended before the end of the input"],
  [name |-> "panic", input |-> <<A>>,
   evs |-> <<[EOF EXCEPT !.panic = TRUE]>>,
   why |-> "C17_NoPanic: the decoder panicked"],
  [name |-> "runaway", input |-> <<A>>,
   evs |-> <<T(<<A>>, <<>>), [EOF EXCEPT !.runaway = TRUE]>>,
   why |-> "C17_Terminates: Next kept returning true"] >>

ASSUME \A i \in 1..Len(Bad) :
  \/ WhyNot(Bad[i].input, "decoder", <<>>, Bad[i].evs) = Bad[i].why
  \/ PrintT(<<"BAD STREAM NOT REJECTED AS EXPECTED", Bad[i].name, WhyNot(Bad[i].input, "decoder", <<>>, Bad[i].evs)>>) /\ FALSE

(* chunk dependence: the same input split differently gives other tokens *)
ASSUME WhyNot(<<62, 32, A>>, "decoder",
              <<[T(<<62, 32>>, <<"BlockQuote", "BlockQuoteStart">>) EXCEPT !.q = 1], [T(<<A>>, <<"BlockQuote">>) EXCEPT !.q = 1], EOF>>,
              <<[T(<<62>>, <<"BlockQuote", "BlockQuoteStart">>) EXCEPT !.q = 1], [T(<<32, A>>, <<"BlockQuote">>) EXCEPT !.q = 1], EOF>>)
       = "C17_ChunkIndependent: token differs from the whole-input read"

(* chunk dependence that only shows when the end of the input is signalled together with  *)
(* data: a line inside a preformatted block that merely starts with three backticks is    *)
(* taken for the closing fence.  Document: "```\n```a\nb\n"                               *)
BPre == <<"BlockPre">>
InF == <<TICK, TICK, TICK, NL, TICK, TICK, TICK, A, NL, A, NL>>
RefF == <<T(<<TICK, TICK, TICK, NL>>, <<"BlockPre", "BlockPreStart">>), T(<<TICK, TICK, TICK, A, NL>>, BPre),
          T(<<A, NL>>, BPre), EOF>>
GotF == <<T(<<TICK, TICK, TICK, NL>>, <<"BlockPre", "BlockPreStart">>), T(<<TICK, TICK, TICK, A>>, <<"BlockPre", "BlockPreEnd">>),
          T(<<NL>>, <<>>), T(<<A, NL>>, <<>>), EOF>>
ASSUME Accepts(InF, "decoder", <<>>, RefF)
ASSUME Accepts(InF, "decoder", <<>>, GotF)          \* each stream alone satisfies every other clause
ASSUME WhyNotD(InF, "decoder", RefF, <<11>>, "with-data", GotF) = "C17_ChunkIndependent: token differs from the whole-input read"
ASSUME WhyNotD(InF, "decoder", RefF, <<0, 4, 4, 11, 11, 11>>, "separate", RefF) = ""

(* deliveries: what a reader may do, and what the harness must not do *)
ASSUME LegalDelivery(In1, <<4, 4>>, "separate")              \* one big read, then the end
ASSUME LegalDelivery(In1, <<4>>, "with-data")                \* the whole input together with the end
ASSUME LegalDelivery(In1, <<0, 1, 1, 3, 4>>, "with-data")    \* (0, nil) reads in between
ASSUME LegalDelivery(In1, <<1, 2, 3, 4, 4, 4>>, "separate")  \* octet by octet, an empty read before the end
ASSUME LegalDelivery(In1, <<2>>, "none")                     \* the decoder gave up early
ASSUME LegalDelivery(<<>>, <<0>>, "separate")
ASSUME ~LegalDelivery(In1, <<2, 1, 4, 4>>, "separate")       \* goes back
ASSUME ~LegalDelivery(In1, <<5, 5>>, "separate")             \* more than the input
ASSUME ~LegalDelivery(In1, <<3, 3>>, "separate")             \* end signalled before the last octet
ASSUME ~LegalDelivery(In1, <<4, 4>>, "with-data")            \* the read that signalled the end was empty
ASSUME ~LegalDelivery(In1, <<4>>, "separate")
ASSUME ~LegalDelivery(<<>>, <<0>>, "with-data")
ASSUME WhyNotD(In1, "decoder", <<>>, <<3, 3>>, "separate", Good1)
       = "HARNESS_Delivery: the recorded reads are not a legal delivery of the input"

(* ------------------------------------------------------------------------------------ *)
(* VERY LONG LINES: documents and token data in the run-length form.                     *)
(* The generator runs over every normal run sequence over {*, a, newline} of <= 2 runs   *)
(* with counts 1, 2, 2^20 + 1 and of 3 runs with counts 1, 2^20 + 1 (MCRInputs):         *)
(* C17_Lossless / C17_WellBracketed hold in the run-length form, and C17_RunsFaithful    *)
(* re-checks the accepted streams octet by octet wherever the document can be written    *)
(* out.                                                                                  *)
MiB == 1048576
BIG == MiB + 1
RCounts == {1, 2, BIG}
ROctets == {STAR, A, NL}
RunSet == {<<o, c>> : o \in ROctets, c \in RCounts}
RECURSIVE RunSeqs(_)
RunSeqs(n) == IF n = 0 THEN {<<>>}
              ELSE LET P == RunSeqs(n - 1) IN
                   P \cup {Append(p, r) : p \in {q \in P : Len(q) = n - 1}, r \in RunSet}
MCRInputs == {r \in RunSeqs(3) : /\ \A i \in 1..(Len(r) - 1) : Octet(r[i]) # Octet(r[i + 1])
                                 /\ (Len(r) = 3 => \A i \in 1..3 : Count(r[i]) # 2)}
MCRMasks == {<<>>, Strong, StrongS, StrongE}

(* the operators of the run-length form against their meaning, exhaustively over short   *)
(* run sequences (counts 0..3, also not normal ones)                                     *)
SmallRuns == {<<o, c>> : o \in {A, NL}, c \in 0..3}
SmallSeqs == UNION {[1..n -> SmallRuns] : n \in 0..3}
ASSUME \A r \in SmallSeqs :
  /\ RLen(r) = Len(RExpand(r))
  /\ RExpand(RNorm(r)) = RExpand(r)
  /\ \A i \in 1..(Len(RNorm(r)) - 1) : Octet(RNorm(r)[i]) # Octet(RNorm(r)[i + 1])
  /\ \A i \in 1..Len(RNorm(r)) : Count(RNorm(r)[i]) > 0
  /\ EndsLineF(TRUE, r) = EndsLine(RExpand(r))
  /\ \A from \in 0..(RLen(r) + 1), len \in 0..(RLen(r) + 1) :
        RExpand(RSub(r, from, len)) = SubSeq(RExpand(r), from + 1, IF from + len > RLen(r) THEN RLen(r) ELSE from + len)
SmallSeqs2 == UNION {[1..n -> SmallRuns] : n \in 0..2}
ASSUME \A a \in SmallSeqs2, b \in SmallSeqs2 :
  /\ (RNorm(a) = RNorm(b)) <=> (RExpand(a) = RExpand(b))          \* equality of octet strings = equality of normal forms
  /\ RExpand(RCat(a, b)) = RExpand(a) \o RExpand(b)               \* concatenation = merge
  /\ \A pos \in 0..RLen(a) :                                      \* "is the next piece" agrees with the octet form
        NextPiece([StartF(TRUE, a, "decoder", <<>>) EXCEPT !.pos = pos], b)
          <=> NextPiece([Start(RExpand(a), "decoder", <<>>) EXCEPT !.pos = pos], RExpand(b))

(* named documents with a line that does not fit into 2^20 octets, in the shapes the     *)
(* driver records: plain, followed by a short line, inside a span, inside a quote        *)
TR(d, m) == T(d, m)
RPlain == <<(<<A, BIG>>)>>
RThen == <<(<<A, BIG>>), (<<NL, 1>>), (<<98, 1>>)>>
RSpan == <<(<<STAR, 1>>), (<<A, BIG>>), (<<STAR, 1>>)>>
RQuote == <<(<<62, 1>>), (<<32, 1>>), (<<A, BIG>>), (<<NL, 1>>), (<<99, 1>>)>>
GoodRPlain == <<TR(RPlain, <<>>), EOF>>
GoodRThen == <<TR(<<(<<A, BIG>>), (<<NL, 1>>)>>, <<>>), TR(<<(<<98, 1>>)>>, <<>>), EOF>>
GoodRSpan == <<TR(<<(<<STAR, 1>>)>>, StrongS), TR(<<(<<A, BIG>>)>>, Strong), TR(<<(<<STAR, 1>>)>>, StrongE), EOF>>
GoodRQuote == <<[TR(<<(<<62, 1>>), (<<32, 1>>)>>, <<"BlockQuote", "BlockQuoteStart">>) EXCEPT !.q = 1],
                [TR(<<(<<A, BIG>>), (<<NL, 1>>)>>, <<"BlockQuote">>) EXCEPT !.q = 1],
                [TR(<<>>, <<"BlockQuote", "BlockQuoteEnd">>) EXCEPT !.q = 1], TR(<<(<<99, 1>>)>>, <<>>), EOF>>
ASSUME AcceptsR(RPlain, "decoder", <<>>, GoodRPlain)
ASSUME AcceptsR(RThen, "decoder", <<>>, GoodRThen)
ASSUME AcceptsR(RSpan, "decoder", <<>>, GoodRSpan)
ASSUME AcceptsR(RQuote, "decoder", <<>>, GoodRQuote)
ASSUME AcceptsR(RThen, "decoder", GoodRThen, GoodRThen)
(* the same tokens, the long one recorded as two adjacent runs of the same octet *)
ASSUME AcceptsR(RThen, "decoder", GoodRThen,
                <<TR(<<(<<A, MiB>>), (<<A, 1>>), (<<NL, 1>>)>>, <<>>), TR(<<(<<98, 1>>)>>, <<>>), EOF>>)
ASSUME AcceptsR(RPlain, "scan", <<>>, GoodRPlain)
ASSUME WhyNotDF(TRUE, RThen, "decoder", GoodRThen, <<4096, 8192, BIG + 2, BIG + 2>>, "separate", GoodRThen) = ""
ASSUME WhyNotDF(TRUE, RThen, "decoder", GoodRThen, <<BIG + 2>>, "with-data", GoodRThen) = ""

TooLong == [EOF EXCEPT !.err = "bufio.Scanner: token too long"]
BadR == <<
  (* code-like deviation: the decoder's token buffer is capped (1 MiB): a line that does  *)
  (* not fit ends decoding, the line and everything after it is never delivered           *)
  [name |-> "token buffer capped: the long line and what follows are never delivered", input |-> RThen,
   ref |-> <<>>, evs |-> <<TooLong>>,
   why |-> "C17_Lossless: decoding ended before the end of the input"],
  [name |-> "token buffer capped, inside a quote: only the quote marker is delivered", input |-> RQuote,
   ref |-> <<>>, evs |-> <<[TR(<<(<<62, 1>>), (<<32, 1>>)>>, <<"BlockQuote", "BlockQuoteStart">>) EXCEPT !.q = 1], TooLong>>,
   why |-> "C17_Lossless: decoding ended before the end of the input"],
  [name |-> "token buffer capped: the long line is delivered cut to 2^20 octets", input |-> RThen,
   ref |-> <<>>, evs |-> <<TR(<<(<<A, MiB>>)>>, <<>>), TR(<<(<<NL, 1>>)>>, <<>>), TR(<<(<<98, 1>>)>>, <<>>), EOF>>,
   why |-> "C17_Lossless: token data is not the next piece of the input"],
  [name |-> "one octet of the long line lost at a buffer boundary", input |-> RThen,
   ref |-> <<>>, evs |-> <<TR(<<(<<A, MiB>>), (<<NL, 1>>)>>, <<>>), TR(<<(<<98, 1>>)>>, <<>>), EOF>>,
   why |-> "C17_Lossless: token data is not the next piece of the input"],
  [name |-> "one octet of the long line duplicated", input |-> RThen,
   ref |-> <<>>, evs |-> <<TR(<<(<<A, BIG + 1>>), (<<NL, 1>>)>>, <<>>), TR(<<(<<98, 1>>)>>, <<>>), EOF>>,
   why |-> "C17_Lossless: token data is not the next piece of the input"],
  [name |-> "one octet inside the long line altered", input |-> RThen,
   ref |-> <<>>, evs |-> <<TR(<<(<<A, 65536>>), (<<0, 1>>), (<<A, BIG - 65537>>), (<<NL, 1>>)>>, <<>>), TR(<<(<<98, 1>>)>>, <<>>), EOF>>,
   why |-> "C17_Lossless: token data is not the next piece of the input"],
  [name |-> "long line split into two tokens when delivered in pieces", input |-> RThen,
   ref |-> GoodRThen, evs |-> <<TR(<<(<<A, MiB>>)>>, <<>>), TR(<<(<<A, 1>>), (<<NL, 1>>)>>, <<>>), TR(<<(<<98, 1>>)>>, <<>>), EOF>>,
   why |-> "C17_ChunkIndependent: token differs from the whole-input read"],
  [name |-> "span around the long line never closed", input |-> RSpan,
   ref |-> <<>>, evs |-> <<TR(<<(<<STAR, 1>>)>>, StrongS), TR(<<(<<A, BIG>>), (<<STAR, 1>>)>>, Strong), EOF>>,
   why |-> "C17_ClosedBeforeLineEnd: input ends with a span open"],
  [name |-> "long line ends with a span open", input |-> <<(<<STAR, 1>>), (<<A, BIG>>), (<<NL, 1>>)>>,
   ref |-> <<>>, evs |-> <<TR(<<(<<STAR, 1>>)>>, StrongS), TR(<<(<<A, BIG>>), (<<NL, 1>>)>>, Strong), EOF>>,
   why |-> "C17_ClosedBeforeLineEnd: line ends with a span open"],
  [name |-> "token data is not a run sequence", input |-> RPlain,
   ref |-> <<>>, evs |-> <<TR(<<(<<A, 0 - 1>>)>>, <<>>), EOF>>,
   why |-> "C17_Lossless: token data is not the next piece of the input"] >>
ASSUME \A i \in 1..Len(BadR) :
  \/ WhyNotR(BadR[i].input, "decoder", BadR[i].ref, BadR[i].evs) = BadR[i].why
  \/ PrintT(<<"BAD STREAM (RUNS) NOT REJECTED AS EXPECTED", BadR[i].name, WhyNotR(BadR[i].input, "decoder", BadR[i].ref, BadR[i].evs)>>) /\ FALSE
(* the split stream alone satisfies every other clause: only chunk independence rejects it *)
ASSUME AcceptsR(RThen, "decoder", <<>>, BadR[7].evs)
ASSUME WhyNotDF(TRUE, RThen, "decoder", <<>>, <<BIG + 1, BIG + 1>>, "separate", GoodRThen)
       = "HARNESS_Delivery: the recorded reads are not a legal delivery of the input"
ASSUME WhyNotDF(TRUE, <<(<<A, BIG>>), <<NL>>>>, "decoder", <<>>, <<BIG + 1, BIG + 1>>, "separate", <<EOF>>)
       = "HARNESS_Runs: the recorded document is not a sequence of <<octet, count>> runs"
=============================================================================
