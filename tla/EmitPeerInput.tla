--------------------------- MODULE EmitPeerInput ---------------------------
(* Pipeline B of C09: TLC enumerates the alphabet of shaped stanzas, the stanza         *)
(* sequences and the helper / reply scenarios of PeerInput.tla and writes them as ndjson.*)
EXTENDS PeerInput, Json, SequencesExt

ASSUME ndJsonSerialize("alphabet.ndjson", SetToSeq({[lab |-> s.lab, node |-> s.node] : s \in Alphabet \cup Alphabet2}))
(* the classes of SeqScenarios are pairwise disjoint (MCPeerInput checks it): they are emitted *)
(* one after the other, the big union is never normalised                                    *)
RECURSIVE Cat(_, _)
Cat(ss, i) == IF i > Len(ss) THEN <<>> ELSE SetToSeq(ss[i]) \o Cat(ss, i + 1)
AllSeqs == Cat(SeqClasses \o <<Singles2>>, 1)
ASSUME ndJsonSerialize("seqs.ndjson", AllSeqs)
ASSUME ndJsonSerialize("replies.ndjson", SetToSeq(ReplyScenarios))
ASSUME PrintT(<<"EMITTED", Cardinality(Alphabet) + Cardinality(Alphabet2), NSeqScenarios + Cardinality(Singles2),
                Cardinality(ReplyScenarios)>>)

EInit == /\ n = 0 /\ cfg = "listen" /\ pos = 0 /\ eof = FALSE /\ served = "running" /\ ncalls = 0 /\ nret = 0
         /\ loc = "clean" /\ cancelled = FALSE
ENext == UNCHANGED vars
=============================================================================
