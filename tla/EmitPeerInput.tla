--------------------------- MODULE EmitPeerInput ---------------------------
(* Pipeline B of C09: TLC enumerates the alphabet of shaped stanzas, the stanza         *)
(* sequences and the helper / reply scenarios of PeerInput.tla and writes them as ndjson.*)
EXTENDS PeerInput, Json, SequencesExt

ASSUME ndJsonSerialize("alphabet.ndjson", SetToSeq({[lab |-> s.lab, node |-> s.node] : s \in Alphabet \cup Alphabet2}))
ASSUME ndJsonSerialize("seqs.ndjson", SetToSeq(SeqScenarios \cup Singles2))
ASSUME ndJsonSerialize("replies.ndjson", SetToSeq(ReplyScenarios))
ASSUME PrintT(<<"EMITTED", Cardinality(Alphabet) + Cardinality(Alphabet2), Cardinality(SeqScenarios) + Cardinality(Singles2),
                Cardinality(ReplyScenarios)>>)

EInit == /\ n = 0 /\ cfg = "listen" /\ pos = 0 /\ eof = FALSE /\ served = "running" /\ ncalls = 0 /\ nret = 0
         /\ loc = "clean" /\ cancelled = FALSE
ENext == UNCHANGED vars
=============================================================================
