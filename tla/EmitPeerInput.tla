--------------------------- MODULE EmitPeerInput ---------------------------
(* Pipeline B of C09: TLC enumerates the alphabet of shaped stanzas, the stanza         *)
(* sequences and the helper / reply scenarios of PeerInput.tla and writes them as ndjson.*)
EXTENDS PeerInput, Json, SequencesExt

ASSUME ndJsonSerialize("alphabet.ndjson", SetToSeq({[lab |-> s.lab, node |-> s.node] : s \in Alphabet \cup Alphabet2 \cup AddrLabelled}))
(* the classes of SeqScenarios are pairwise disjoint (MCPeerInput checks it): they are emitted *)
(* one after the other, the big union is never normalised                                    *)
RECURSIVE Cat(_, _)
Cat(ss, i) == IF i > Len(ss) THEN <<>> ELSE SetToSeq(ss[i]) \o Cat(ss, i + 1)
AllSeqs == Cat(SeqClasses \o <<Singles2>>, 1)
ASSUME ndJsonSerialize("seqs.ndjson", AllSeqs)
(* the reply scenarios on the usual session and the ones that vary the session (disjoint: the  *)
(* latter are not on the usual fresh session or carry labels of their own)                     *)
ASSUME ndJsonSerialize("replies.ndjson", SetToSeq(ReplyScenarios) \o SetToSeq(SessReplyScenarios))
ASSUME PrintT(<<"EMITTED", Cardinality(Alphabet) + Cardinality(Alphabet2) + Cardinality(AddrLabelled), NSeqScenarios + Cardinality(Singles2),
                Cardinality(ReplyScenarios) + Cardinality(SessReplyScenarios)>>)

EInit == /\ n = 0 /\ cfg = "listen" /\ life = "fresh" /\ pos = 0 /\ eof = FALSE /\ served = "idle" /\ nserve = 0 /\ outclosed = FALSE
         /\ ncalls = 0 /\ nret = 0 /\ loc = "clean" /\ cancelled = FALSE
ENext == UNCHANGED vars
=============================================================================
