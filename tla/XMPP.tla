-------------------------------- MODULE XMPP --------------------------------
(***************************************************************************)
(* The life cycle of ONE session, end to end:                              *)
(*                                                                         *)
(*      Negotiating -> Established -> Closing -> Closed                    *)
(*            \-> Failed                                                   *)
(*                                                                         *)
(* composed from abstract versions of the three component specifications:  *)
(*                                                                         *)
(*   Negotiation.tla  -> the negotiating goroutine: features are           *)
(*                       negotiated one at a time when their masks hold    *)
(*                       (NegCall / NegRet), the outcome is ok|err with    *)
(*                       the state bits and the established addresses      *)
(*   Output.tla       -> the established phase: output lock, transmit      *)
(*                       calls, Close, the error path, Serve's shutdown    *)
(*                       (same actions, same variable names: the mapping   *)
(*                       at the end of the module is a refinement mapping) *)
(*   Correlate.tla    -> requests: register, send, wait, lookup / hand-off *)
(*                       by the serve loop, cancellation                   *)
(*                                                                         *)
(* and states the cross-phase properties (X_...) that no single family     *)
(* states.  session.go: negotiateSession, Serve, handleInputStream,        *)
(* sendResp, send, Close, closeInputStream, SetCloseDeadline, UpdateAddr.  *)
(***************************************************************************)
EXTENDS Integers, Sequences, FiniteSets, TLC

CONSTANTS Txs,         \* application goroutines: programs of tx / close / updaddr / deadline calls
          Reqs,        \* requesting goroutines = the ids of their requests
          Programs,    \* MC: possible programs of a Txs goroutine
          PeerScripts, \* MC: possible peer scripts (sequences of items)
          Roles,       \* subset of {"init", "recv"}
          InitBitsSet, \* initial state bits to explore ({"Secure"}: pre-secured transport)
          MaxChunks,   \* bound on wire writes per element
          Dev          \* enabled deviations (empty = what the properties require)

SP      == "s"         \* the goroutine that calls Serve, then tries a read and a write
Procs   == Txs \cup Reqs \cup {SP}
Unknown == "zz"        \* an id nobody waits for
None    == "none"

VARIABLES
  role,
  \* negotiation (abstract Negotiation.tla)
  bits,        \* the session state bits: Secure Authn Ready OutClosed InClosed
  result,      \* outcome of NewSession / ReceiveSession: "none" | "ok" | "err"
  ncur,        \* feature whose Negotiate function runs / "none"
  refused,     \* the application's callback refused what the peer asked for in this step
  addr,        \* the addresses the session reports now
  estab,       \* the addresses at the moment negotiation returned
  \* established phase, output side (Output.tla)
  prog, cur, lock, wire, rets, sv,
  \* peer
  inbox,       \* items delivered to the transport, not yet read by Serve
  script,      \* MC: items the peer will still send
  \* requests (Correlate.tla)
  table, cancelled, outcome,
  rid,         \* id carried by the response the serve loop is working on
  claim,       \* the requester it is offered to
  delivered,   \* history: ids of the responses handed to each requester
  handled,     \* history: number of stanzas given to the handler
  deadline,    \* SetCloseDeadline was called
  \* a session whose negotiation failed, used all the same
  fserve,      \* "no" | "running" | "nil" | "err": Serve on the failed session
  fdeliv       \* stanzas given to the handler by it

nvars == <<role, result, ncur, refused, estab>>
ovars == <<prog, cur, lock, wire, rets, sv>>
pvars == <<inbox, script>>
cvars == <<table, cancelled, outcome, rid, claim, delivered>>
fvars == <<fserve, fdeliv>>
vars  == <<role, bits, result, ncur, refused, addr, estab, prog, cur, lock, wire, rets, sv, inbox, script,
           table, cancelled, outcome, rid, claim, delivered, handled, deadline, fserve, fdeliv>>

NoCall == [k |-> "none", st |-> "none", wrote |-> 0]
ItemKinds == {"stanza", "get", "herr", "resp", "close", "streamerr", "eof"}
Terminal  == {"close", "streamerr", "eof"}
Item(t, id) == [t |-> t, id |-> id]

Features == {"tls", "sasl", "bind"}
Nec(f)  == CASE f = "tls" -> {} [] f = "sasl" -> {"Secure"} [] OTHER -> {"Authn"}
Pro(f)  == CASE f = "tls" -> {"Secure"} [] f = "sasl" -> {"Authn"} [] OTHER -> {"Ready"}
Mask(f) == CASE f = "tls" -> {"Secure"} [] f = "sasl" -> {"Authn"} [] OTHER -> {"Ready"}

ServeProgram == <<"serve", "rx", "tx">>     \* Serve, then a read and a write after the end

Init ==
  /\ role \in Roles
  /\ bits \in InitBitsSet /\ result = "none" /\ ncur = "none" /\ refused = FALSE
  /\ addr = (IF role = "init" THEN [local |-> "bare", remote |-> "dom"] ELSE [local |-> "none", remote |-> "none"])
  /\ estab = [local |-> "none", remote |-> "none"]
  /\ \E f \in [Txs -> Programs] :
        prog = [p \in Procs |-> IF p \in Txs THEN f[p] ELSE IF p \in Reqs THEN <<"req">> ELSE ServeProgram]
  /\ cur = [p \in Procs |-> NoCall] /\ lock = "free" /\ wire = <<>> /\ rets = [p \in Procs |-> <<>>]
  /\ sv = [phase |-> "idle", reason |-> "none", owner |-> "none", pending |-> 0]
  /\ inbox = <<>> /\ script \in PeerScripts
  /\ table = {} /\ cancelled = {} /\ outcome = [i \in Reqs |-> None] /\ claim = None /\ rid = None
  /\ delivered = [i \in Reqs |-> <<>>] /\ handled = 0 /\ deadline = FALSE
  /\ fserve = "no" /\ fdeliv = 0

(* transmit / close / serve / rx returns: the calls that exist in Output.tla *)
OutKind(k) == k \notin {"updaddr", "deadline"}
ORetOut(r) == OutKind(r.k)
NOut(p) == Len(SelectSeq(rets[p], ORetOut))

-----------------------------------------------------------------------------
(* Negotiating.  One goroutine; the application goroutines do not exist yet.        *)

Running == result = "none"

(* a receiving entity learns the addresses from the peer's stream header *)
NegHeader ==
  /\ Running /\ ncur = "none" /\ role = "recv" /\ addr.local = "none"
  /\ addr' = [local |-> "dom", remote |-> "bare"]
  /\ UNCHANGED <<role, bits, result, ncur, refused, estab, ovars, pvars, cvars, handled, deadline, fvars>>

NegCall(f) ==
  /\ Running /\ ncur = "none"
  /\ Nec(f) \subseteq bits /\ Pro(f) \cap bits = {}
  /\ ncur' = f /\ refused' = FALSE
  /\ UNCHANGED <<role, bits, result, addr, estab, ovars, pvars, cvars, handled, deadline, fvars>>

(* the application's callback (the resource binder, the SASL permission function) says no *)
NegRefuse ==
  /\ Running /\ ncur # "none" /\ ~refused /\ refused' = TRUE
  /\ UNCHANGED <<role, bits, result, ncur, addr, estab, ovars, pvars, cvars, handled, deadline, fvars>>

(* The feature's Negotiate function returns.  Resource binding on the initiating side *)
(* updates the session's own address (UpdateAddr is allowed: not yet Ready).          *)
(* naddr: the addresses after the step.                                               *)
NegRet(f, ok, naddr) ==
  /\ Running /\ ncur = f /\ ncur' = "none" /\ UNCHANGED refused
  /\ (ok => ~refused \/ "ReadyAfterRefusal" \in Dev)
  /\ IF ok
     THEN \/ /\ bits' = bits \cup Mask(f)
             /\ addr' = naddr
             /\ IF "Ready" \in bits'
                THEN result' = "ok" /\ estab' = naddr
                ELSE UNCHANGED <<result, estab>>
          \/ /\ result' = "err" /\ addr' = naddr        \* the context was cancelled during the step
             /\ UNCHANGED <<bits, estab>>
     ELSE /\ result' = "err" /\ UNCHANGED <<addr, estab>>
          /\ bits' = (IF "ReadyOnFailure" \in Dev THEN bits \cup {"Ready"} ELSE bits)
  /\ UNCHANGED <<role, ovars, pvars, cvars, handled, deadline, fvars>>

(* transport fault, cancellation, a bad header, the peer hanging up: the call fails *)
NegAbort ==
  /\ Running /\ result' = "err"
  /\ UNCHANGED <<role, bits, ncur, refused, addr, estab, ovars, pvars, cvars, handled, deadline, fvars>>

BindAddr(f) == IF f = "bind" /\ role = "init"
               THEN [addr EXCEPT !.local = IF "EmptyAddress" \in Dev THEN "" ELSE "full",
                                 !.remote = IF "BindChangesRemote" \in Dev THEN "full" ELSE @] ELSE addr

-----------------------------------------------------------------------------
(* Established .. Closed: the application's goroutines run.  Call protocol of        *)
(* Output.tla: Begin -> Acquire -> body -> Return (lock released) -> Ret (observed). *)

Est == \/ result = "ok"
       \/ ("TxDuringNegotiation" \in Dev /\ result = "none")
       \/ ("RunAfterFailure" \in Dev /\ result = "err")

OutClosed == "OutClosed" \in bits
InClosed  == "InClosed" \in bits

Begin(p) ==
  /\ Est /\ cur[p] = NoCall /\ prog[p] # <<>>
  /\ cur' = [cur EXCEPT ![p] = [k |-> Head(prog[p]), st |-> IF Head(prog[p]) = "req" THEN "new" ELSE "entered", wrote |-> 0]]
  /\ prog' = [prog EXCEPT ![p] = Tail(prog[p])]
  /\ IF sv.owner = p /\ sv.phase \notin {"idle", "done"}       \* Serve is running: only calls it issues itself
     THEN sv.pending > 0 /\ sv' = [sv EXCEPT !.pending = @ - 1]
     ELSE UNCHANGED sv
  /\ UNCHANGED <<role, bits, result, ncur, refused, addr, estab, lock, wire, rets, pvars, cvars, handled, deadline, fvars>>

(* sendResp: the request is entered into the table of pending requests before it is sent *)
Register(i) ==
  /\ cur[i].k = "req" /\ cur[i].st = "new"
  /\ table' = table \cup {i}
  /\ cur' = [cur EXCEPT ![i].st = "entered"]
  /\ UNCHANGED <<role, bits, nvars, addr, prog, lock, wire, rets, sv, pvars, cancelled, outcome, rid, claim, delivered, handled, deadline, fvars>>

NeedsOutLock(k) == k \in {"tx", "req", "close", "senderr"}

Acquire(p) ==
  /\ cur[p].st = "entered" /\ NeedsOutLock(cur[p].k) /\ lock = "free"
  /\ lock' = p
  /\ cur' = [cur EXCEPT ![p].st = "holding"]
  /\ UNCHANGED <<role, bits, nvars, addr, prog, wire, rets, sv, pvars, cvars, handled, deadline, fvars>>

Return(p, class) ==
  /\ cur' = [cur EXCEPT ![p] = [k |-> cur[p].k, st |-> "returning", wrote |-> cur[p].wrote, class |-> class]]
  /\ lock' = IF lock = p THEN "free" ELSE lock

(* The caller observes the return.  A request whose element went out now waits for   *)
(* the answer; one whose send was refused goes on to deregister.                     *)
Ret(p) ==
  /\ cur[p].st = "returning"
  /\ IF cur[p].k = "req"
     THEN /\ rets' = [rets EXCEPT ![p] = Append(@, [k |-> "tx", class |-> cur[p].class])]
          /\ cur' = [cur EXCEPT ![p] = [k |-> "wait", st |-> IF cur[p].class = "nil" THEN "waiting" ELSE "failed", wrote |-> 0]]
     ELSE /\ rets' = [rets EXCEPT ![p] = Append(@, [k |-> cur[p].k, class |-> cur[p].class])]
          /\ cur' = [cur EXCEPT ![p] = NoCall]
  /\ UNCHANGED <<role, bits, nvars, addr, prog, lock, wire, sv, pvars, cvars, handled, deadline, fvars>>

IsTx(p) == cur[p].k \in {"tx", "req"}

TxRefuse(p) ==
  /\ IsTx(p) /\ cur[p].st = "holding" /\ OutClosed /\ cur[p].wrote = 0
  /\ "WriteAfterClose" \notin Dev
  /\ Return(p, "closed")
  /\ UNCHANGED <<role, bits, nvars, addr, prog, wire, rets, sv, pvars, cvars, handled, deadline, fvars>>

TxWrite(p) ==
  /\ IsTx(p) /\ cur[p].st = "holding"
  /\ (~OutClosed \/ "WriteAfterClose" \in Dev)
  /\ cur[p].wrote < MaxChunks
  /\ wire' = Append(wire, [p |-> p, what |-> "elem", c |-> NOut(p)])
  /\ cur' = [cur EXCEPT ![p].wrote = @ + 1]
  /\ UNCHANGED <<role, bits, nvars, addr, prog, lock, rets, sv, pvars, cvars, handled, deadline, fvars>>

TxDone(p) ==
  /\ IsTx(p) /\ cur[p].st = "holding" /\ cur[p].wrote >= 1
  /\ Return(p, "nil")
  /\ UNCHANGED <<role, bits, nvars, addr, prog, wire, rets, sv, pvars, cvars, handled, deadline, fvars>>

CloseWrite(p) ==
  /\ cur[p].k \in {"close", "senderr"} /\ cur[p].st = "holding" /\ ~OutClosed
  /\ bits' = (IF "ReadyClearedOnClose" \in Dev THEN (bits \cup {"OutClosed"}) \ {"Ready"} ELSE bits \cup {"OutClosed"})
  /\ wire' = Append(wire, [p |-> p, what |-> "close", c |-> NOut(p)])
  /\ UNCHANGED <<role, nvars, addr, prog, cur, lock, rets, sv, pvars, cvars, handled, deadline, fvars>>

ErrWrite(p) ==
  /\ cur[p].k = "senderr" /\ cur[p].st = "holding" /\ ~OutClosed /\ cur[p].wrote = 0
  /\ wire' = Append(wire, [p |-> p, what |-> "err", c |-> NOut(p)])
  /\ cur' = [cur EXCEPT ![p].wrote = 1]
  /\ UNCHANGED <<role, bits, nvars, addr, prog, lock, rets, sv, pvars, cvars, handled, deadline, fvars>>

CloseDone(p) ==
  /\ cur[p].k \in {"close", "senderr"} /\ cur[p].st = "holding" /\ OutClosed
  /\ Return(p, "nil")
  /\ UNCHANGED <<role, bits, nvars, addr, prog, wire, rets, sv, pvars, cvars, handled, deadline, fvars>>

CloseInput(p) ==
  /\ cur[p].k = "closeinput" /\ cur[p].st = "entered"
  /\ bits' = (IF "NoCloseInput" \in Dev THEN bits ELSE bits \cup {"InClosed"})
  /\ Return(p, "nil")
  /\ UNCHANGED <<role, nvars, addr, prog, wire, rets, sv, pvars, cvars, handled, deadline, fvars>>

Rx(p) ==
  /\ cur[p].k = "rx" /\ cur[p].st = "entered"
  /\ Return(p, IF InClosed THEN "inclosed" ELSE "other")
  /\ UNCHANGED <<role, bits, nvars, addr, prog, wire, rets, sv, pvars, cvars, handled, deadline, fvars>>

(* UpdateAddr: refused once the session is ready *)
UpdAddr(p) ==
  /\ cur[p].k = "updaddr" /\ cur[p].st = "entered"
  /\ IF "Ready" \in bits /\ "UpdateAddrAfterReady" \notin Dev
     THEN Return(p, "refused") /\ UNCHANGED addr
     ELSE Return(p, "ok") /\ addr' = [addr EXCEPT !.local = "other"]
  /\ UNCHANGED <<role, bits, nvars, prog, wire, rets, sv, pvars, cvars, handled, deadline, fvars>>

SetDeadline(p) ==
  /\ cur[p].k = "deadline" /\ cur[p].st = "entered"
  /\ deadline' = TRUE
  /\ Return(p, "nil")
  /\ UNCHANGED <<role, bits, nvars, addr, prog, wire, rets, sv, pvars, cvars, handled, fvars>>

-----------------------------------------------------------------------------
(* Requesters (Correlate.tla) *)

Cancel(i) ==
  /\ Est /\ i \notin cancelled /\ cancelled' = cancelled \cup {i}
  /\ UNCHANGED <<role, bits, nvars, addr, ovars, pvars, table, outcome, rid, claim, delivered, handled, deadline, fvars>>

CtxDone(i) ==
  /\ cur[i].k = "wait" /\ cur[i].st = "waiting" /\ (i \in cancelled \/ "SpuriousCtxErr" \in Dev)
  /\ cur' = [cur EXCEPT ![i].st = "ctxerr"]
  /\ UNCHANGED <<role, bits, nvars, addr, prog, lock, wire, rets, sv, pvars, cvars, handled, deadline, fvars>>

Deregister(i) ==
  /\ cur[i].k = "wait" /\ cur[i].st \in {"got", "ctxerr", "failed"}
  /\ table' = table \ {i}
  /\ outcome' = [outcome EXCEPT ![i] = CASE cur[i].st = "got" -> "reply" [] cur[i].st = "ctxerr" -> "ctxerr" [] OTHER -> "senderr"]
  /\ cur' = [cur EXCEPT ![i] = IF cur[i].st = "got" THEN [k |-> "wait", st |-> "reading", wrote |-> 0] ELSE NoCall]
  /\ UNCHANGED <<role, bits, nvars, addr, prog, lock, wire, rets, sv, pvars, cancelled, rid, claim, delivered, handled, deadline, fvars>>

CloseResp(i) ==
  /\ cur[i].k = "wait" /\ cur[i].st = "reading"
  /\ cur' = [cur EXCEPT ![i].st = "closed"]
  /\ UNCHANGED <<role, bits, nvars, addr, prog, lock, wire, rets, sv, pvars, cvars, handled, deadline, fvars>>

-----------------------------------------------------------------------------
(* Serve *)

ServeStart(p) ==
  /\ cur[p].k = "serve" /\ cur[p].st = "entered" /\ sv.phase = "idle"
  /\ sv' = [sv EXCEPT !.phase = "reading", !.owner = p]
  /\ cur' = [cur EXCEPT ![p] = NoCall]
  /\ UNCHANGED <<role, bits, nvars, addr, prog, lock, wire, rets, pvars, cvars, handled, deadline, fvars>>

PeerFeed ==
  /\ script # <<>> /\ inbox' = Append(inbox, Head(script)) /\ script' = Tail(script)
  /\ UNCHANGED <<role, bits, nvars, addr, ovars, cvars, handled, deadline, fvars>>

(* trace validation: the peer is whatever the other end turned out to be *)
PeerAny(it) ==
  /\ inbox' = Append(inbox, it) /\ UNCHANGED script
  /\ UNCHANGED <<role, bits, nvars, addr, ovars, cvars, handled, deadline, fvars>>

Shutdown(p, calls, reason) ==
  /\ prog' = [prog EXCEPT ![p] = calls \o @]
  /\ sv' = [sv EXCEPT !.phase = "closing", !.reason = reason, !.pending = Len(calls)]

Idle(p) == sv.owner = p /\ sv.pending = 0 /\ cur[p] = NoCall

ServeItem(p) ==
  /\ sv.phase = "reading" /\ Idle(p) /\ inbox # <<>>
  /\ LET it == Head(inbox) IN
     /\ inbox' = Tail(inbox) /\ UNCHANGED script
     /\ CASE it.t = "stanza" -> handled' = handled + 1 /\ UNCHANGED <<prog, sv, rid>>
          [] it.t = "get" -> /\ handled' = handled + 1 /\ UNCHANGED rid
                             /\ prog' = [prog EXCEPT ![p] = <<"tx">> \o @] /\ sv' = [sv EXCEPT !.pending = 1]
          [] it.t = "herr" -> /\ handled' = handled + 1 /\ UNCHANGED rid
                              /\ Shutdown(p, <<"senderr", "closeinput", "close">>, "herr")
          [] it.t = "resp" -> /\ sv' = [sv EXCEPT !.phase = "lookup"] /\ rid' = it.id
                              /\ UNCHANGED <<prog, handled>>
          [] it.t = "streamerr" -> /\ Shutdown(p, <<"senderr", "closeinput", "close">>, "streamerr")
                                   /\ UNCHANGED <<handled, rid>>
          [] it.t = "close" -> Shutdown(p, <<"closeinput", "close">>, "peerclose") /\ UNCHANGED <<handled, rid>>
          [] it.t = "eof" ->      \* raw end of the byte stream: the property is silent; either path
               /\ \/ Shutdown(p, <<"closeinput", "close">>, "eof")
                  \/ Shutdown(p, <<"senderr", "closeinput", "close">>, "eof")
               /\ UNCHANGED <<handled, rid>>
  /\ UNCHANGED <<role, bits, nvars, addr, cur, lock, wire, rets, table, cancelled, outcome, claim, delivered, deadline, fvars>>

(* the response branch of handleInputStream *)
Lookup ==
  /\ sv.phase = "lookup"
  /\ \/ /\ rid \in table /\ claim' = rid /\ sv' = [sv EXCEPT !.phase = "offer"]
     \/ /\ rid \notin table /\ claim' = None /\ sv' = [sv EXCEPT !.phase = "tohandler"]
     \/ /\ "LookupIgnoresId" \in Dev /\ claim' \in table /\ sv' = [sv EXCEPT !.phase = "offer"]
  /\ UNCHANGED <<role, bits, nvars, addr, prog, cur, lock, wire, rets, pvars, table, cancelled, outcome, rid, delivered, handled, deadline, fvars>>

Handoff ==
  /\ sv.phase = "offer" /\ cur[claim].k = "wait" /\ cur[claim].st = "waiting"
  /\ sv' = [sv EXCEPT !.phase = "handed"]
  /\ cur' = [cur EXCEPT ![claim].st = "got"]
  /\ delivered' = [delivered EXCEPT ![claim] = Append(@, rid)]
  /\ UNCHANGED <<role, bits, nvars, addr, prog, lock, wire, rets, pvars, table, cancelled, outcome, rid, claim, handled, deadline, fvars>>

(* nobody waits for this response any more (context cancelled, or the requester has    *)
(* left): it goes to the handler like any response nobody asked for                    *)
Skip ==
  /\ sv.phase = "offer" /\ (claim \in cancelled \/ claim \notin table)
  /\ "StallOnGoneRequester" \notin Dev
  /\ sv' = [sv EXCEPT !.phase = "tohandler"] /\ claim' = None
  /\ UNCHANGED <<role, bits, nvars, addr, prog, cur, lock, wire, rets, pvars, table, cancelled, outcome, rid, delivered, handled, deadline, fvars>>

Handle ==
  /\ sv.phase = "tohandler"
  /\ handled' = handled + 1 /\ sv' = [sv EXCEPT !.phase = "reading"]
  /\ UNCHANGED <<role, bits, nvars, addr, prog, cur, lock, wire, rets, pvars, cvars, deadline, fvars>>

AwaitClose ==
  /\ sv.phase = "handed" /\ cur[claim].k = "wait" /\ cur[claim].st = "closed"
  /\ sv' = [sv EXCEPT !.phase = "reading"] /\ claim' = None
  /\ IF "DoubleDelivery" \in Dev
     THEN cur' = [cur EXCEPT ![claim].st = "waiting"] /\ table' = table \cup {claim}
     ELSE cur' = [cur EXCEPT ![claim] = NoCall] /\ UNCHANGED table
  /\ UNCHANGED <<role, bits, nvars, addr, prog, lock, wire, rets, pvars, cancelled, outcome, rid, delivered, handled, deadline, fvars>>

ServeAbort(p) ==
  /\ sv.phase = "reading" /\ Idle(p)
  /\ rets[p] # <<>> /\ rets[p][Len(rets[p])] = [k |-> "tx", class |-> "closed"]
  /\ Shutdown(p, <<"senderr", "closeinput", "close">>, "refused")
  /\ UNCHANGED <<role, bits, nvars, addr, cur, lock, wire, rets, pvars, cvars, handled, deadline, fvars>>

(* the close deadline passed without the peer closing its stream *)
ServeDeadline(p) ==
  /\ sv.phase = "reading" /\ Idle(p) /\ deadline
  /\ \/ Shutdown(p, <<"closeinput", "close">>, "deadline")
     \/ Shutdown(p, <<"senderr", "closeinput", "close">>, "deadline")
  /\ UNCHANGED <<role, bits, nvars, addr, cur, lock, wire, rets, pvars, cvars, handled, deadline, fvars>>

ServeRet(p, class) ==
  /\ sv.phase = "closing" /\ Idle(p)
  /\ Len(rets[p]) >= 2 /\ rets[p][Len(rets[p])].k = "close"
  /\ CASE sv.reason = "peerclose" -> class = "nil"
       [] sv.reason = "streamerr" -> class = "streamerr"
       [] sv.reason = "eof" -> class \in {"nil", "other"}
       [] sv.reason = "refused" -> class \in {"closed", "other"}
       [] OTHER -> class = "other"
  /\ sv' = [sv EXCEPT !.phase = "done"]
  /\ rets' = [rets EXCEPT ![p] = Append(@, [k |-> "serve", class |-> class])]
  /\ UNCHANGED <<role, bits, nvars, addr, prog, cur, lock, wire, pvars, cvars, handled, deadline, fvars>>

-----------------------------------------------------------------------------
(* Failed: the call returned an error together with a session value.  Nothing in the  *)
(* documentation says what the transmit entry points or UpdateAddr do with it (both    *)
(* refusing and performing are allowed); the Ready bit is documented as the condition  *)
(* under which stanzas may be sent and received, so Serve must not hand anything to    *)
(* the handler.                                                                        *)

Failed == result = "err"

FTouch(naddr) ==            \* a transmit call, UpdateAddr, Close ... on the failed session
  /\ Failed /\ addr' = naddr
  /\ UNCHANGED <<role, bits, nvars, ovars, pvars, cvars, handled, deadline, fvars>>

FServeStart ==
  /\ Failed /\ fserve = "no" /\ fserve' = "running"
  /\ UNCHANGED <<role, bits, nvars, addr, ovars, pvars, cvars, handled, deadline, fdeliv>>

FHandle ==
  /\ Failed /\ fserve = "running" /\ "ServeUnready" \in Dev
  /\ fdeliv' = fdeliv + 1 /\ handled' = handled + 1
  /\ UNCHANGED <<role, bits, nvars, addr, ovars, pvars, cvars, deadline, fserve>>

FServeRet(class) ==
  /\ Failed /\ fserve = "running"
  /\ fserve' = (IF class = "nil" THEN "nil" ELSE "err")
  /\ UNCHANGED <<role, bits, nvars, addr, ovars, pvars, cvars, handled, deadline, fdeliv>>

-----------------------------------------------------------------------------
Classes == {"nil", "streamerr", "other", "closed"}

NegNext ==
  \/ NegHeader \/ NegAbort \/ NegRefuse
  \/ \E f \in Features : (addr.local # "none" /\ NegCall(f))      \* the stream headers come first
                          \/ \E ok \in BOOLEAN : NegRet(f, ok, BindAddr(f))

EstNext ==
  \/ PeerFeed \/ Lookup \/ Handoff \/ Skip \/ Handle \/ AwaitClose
  \/ \E p \in Procs :
      \/ Begin(p) \/ Ret(p) \/ Acquire(p) \/ TxRefuse(p) \/ TxWrite(p) \/ TxDone(p)
      \/ CloseWrite(p) \/ ErrWrite(p) \/ CloseDone(p) \/ CloseInput(p) \/ Rx(p) \/ UpdAddr(p) \/ SetDeadline(p)
      \/ ServeStart(p) \/ ServeItem(p) \/ ServeAbort(p) \/ ServeDeadline(p)
      \/ \E c \in Classes : ServeRet(p, c)
  \/ \E i \in Reqs : Register(i) \/ Cancel(i) \/ CtxDone(i) \/ Deregister(i) \/ CloseResp(i)

FailNext ==
  \/ FTouch(addr) \/ FTouch([addr EXCEPT !.local = "other"])
  \/ FServeStart \/ FHandle
  \/ \E c \in Classes : FServeRet(c)

Next == NegNext \/ EstNext \/ FailNext

-----------------------------------------------------------------------------
(* The phase of the life cycle is a state function. *)
Phase ==
  CASE result = "none" -> "Negotiating"
    [] result = "err"  -> "Failed"
    [] sv.phase = "done" /\ OutClosed /\ InClosed -> "Closed"
    [] OutClosed \/ InClosed \/ sv.phase \in {"closing", "done"} -> "Closing"
    [] OTHER -> "Established"

PhaseSucc(ph) ==
  CASE ph = "Negotiating" -> {"Negotiating", "Established", "Failed"}
    [] ph = "Established" -> {"Established", "Closing"}
    [] ph = "Closing" -> {"Closing", "Closed"}
    [] ph = "Closed" -> {"Closed"}
    [] OTHER -> {"Failed"}

(* ---------------------------- cross-phase properties ----------------------------- *)

CloseIdx == {i \in 1..Len(wire) : wire[i].what = "close"}

(* 1. nothing is transmitted by the application-level entry points before negotiation  *)
(*    returned successfully, and nothing after the closing tag                         *)
X_NoTxBeforeEstablished == (wire # <<>> \/ \E p \in Procs : cur[p] # NoCall) => result = "ok"
X_NothingAfterClosingTag == Cardinality(CloseIdx) <= 1 /\ \A i \in CloseIdx : i = Len(wire)
X_LateCallsRefused ==       \* what is called after Serve returned is refused
  \A i \in 1..Len(rets[SP]) : \A j \in 1..Len(rets[SP]) :
     rets[SP][i].k = "serve" /\ j > i =>
        /\ (rets[SP][j].k = "tx" => rets[SP][j].class = "closed")
        /\ (rets[SP][j].k = "rx" => rets[SP][j].class = "inclosed")

(* 2. the state bits are monotone over the whole life; Ready is a precondition of any  *)
(*    delivery to a handler; the outcome and the bits agree                            *)
X_BitsMonotone == [][bits \subseteq bits']_vars
X_ReadyBeforeHandler == [][handled' # handled => "Ready" \in bits]_vars
X_OkIffReady == (result = "ok" => "Ready" \in bits) /\ (result = "err" => "Ready" \notin bits)
X_PhaseOrder == [][Phase' \in PhaseSucc(Phase)]_vars

(* 3. requests: own reply only, at most one, consistent outcome, table clean; Serve's  *)
(*    return implies both directions closed                                            *)
X_OwnReplyOnly == \A i \in Reqs : \A n \in 1..Len(delivered[i]) : delivered[i][n] = i
X_AtMostOneReply == \A i \in Reqs : Len(delivered[i]) <= 1
X_OutcomeConsistent ==
  \A i \in Reqs :
     /\ (outcome[i] = "reply" => Len(delivered[i]) = 1)
     /\ (outcome[i] = "ctxerr" => i \in cancelled /\ Len(delivered[i]) = 0)
     /\ (outcome[i] = "senderr" => Len(delivered[i]) = 0 /\ OutClosed)   \* an error because the session closed
     /\ (outcome[i] # None => i \notin table)
X_ServeRetBothClosed == sv.phase = "done" => OutClosed /\ InClosed
X_RequestOnlyWhenEstablished == table # {} => result = "ok"

(* 4. the addresses after establishment are what negotiation established, for ever     *)
X_AddrStable == result = "ok" => addr = estab
(* the peer's address, once known, never changes - not during the negotiation either *)
X_RemoteStable == [][addr.remote # "none" => addr'.remote = addr.remote]_vars
X_EstablishedHasAddress == result = "ok" => estab.local \notin {"", "none"}     \* (the caller supplied / bound an address)
(* a step in which the application refused what the peer asked for does not succeed   *)
X_RefusalNotReady == [][refused /\ ncur # "none" /\ ncur' = "none" => result' = "err"]_vars
X_UpdateAddrRefused ==
  \A p \in Procs : \A i \in 1..Len(rets[p]) : rets[p][i].k = "updaddr" => rets[p][i].class = "refused"

(* 5. a session whose negotiation failed is never served: nothing reaches the handler  *)
X_FailedNeverServed == result = "err" => fdeliv = 0
X_NoEstablishedAfterFailure == result = "err" => \A p \in Procs : cur[p] = NoCall /\ rets[p] = <<>>

(* 6. liveness under fairness *)
PeerEnded == \E n \in 1..Len(inbox) : inbox[n].t \in {"close", "streamerr"}
X_PeerEndLeadsToClosed == (result = "ok" /\ PeerEnded) ~> (Phase = "Closed")
AllDone == \A p \in Procs : prog[p] = <<>> /\ cur[p] = NoCall
X_EverythingEnds == (result = "ok") ~> AllDone
X_RequestsEnd == \A i \in Reqs : (cur[i].k \in {"req", "wait"}) ~> (cur[i] = NoCall /\ outcome[i] # None)

Spec == Init /\ [][Next]_vars
(* every step of the library and of well-behaved callers is fair; the peer delivers its  *)
(* script; contexts of requesters are eventually cancelled (otherwise waiting for a       *)
(* silent peer is legitimate)                                                             *)
Fair ==
  /\ WF_vars(NegNext)
  /\ WF_vars(PeerFeed) /\ WF_vars(Lookup) /\ WF_vars(Handoff) /\ WF_vars(Skip) /\ WF_vars(Handle) /\ WF_vars(AwaitClose)
  /\ \A p \in Procs :
       /\ WF_vars(Begin(p)) /\ WF_vars(Ret(p)) /\ WF_vars(Acquire(p)) /\ WF_vars(TxRefuse(p))
       /\ WF_vars(TxWrite(p) \/ TxDone(p))
       /\ WF_vars(CloseWrite(p)) /\ WF_vars(ErrWrite(p) \/ CloseWrite(p)) /\ WF_vars(CloseDone(p)) /\ WF_vars(CloseInput(p))
       /\ WF_vars(Rx(p)) /\ WF_vars(UpdAddr(p)) /\ WF_vars(SetDeadline(p))
       /\ WF_vars(ServeStart(p)) /\ WF_vars(ServeItem(p)) /\ WF_vars(ServeAbort(p))
       /\ WF_vars(\E c \in Classes : ServeRet(p, c))
  /\ \A i \in Reqs : WF_vars(Register(i)) /\ WF_vars(Cancel(i)) /\ WF_vars(CtxDone(i)) /\ WF_vars(Deregister(i)) /\ WF_vars(CloseResp(i))
FairSpec == Spec /\ Fair

-----------------------------------------------------------------------------
(* REFINEMENT.  With the negotiation, the addresses, the requests' bookkeeping and the  *)
(* handler count hidden, the established / closing part implements Output.tla:          *)
(* requests are transmit calls, responses handed to a requester are plain stanzas, the  *)
(* extra control points of the serve loop are "reading", calls that do not touch the     *)
(* output side (UpdateAddr) vanish, SetCloseDeadline is Output's Deadline event.         *)

MapSeq(F(_), s) == [i \in 1..Len(s) |-> F(s[i])]
OCallKind(k) == IF k = "req" THEN "tx" ELSE k
OProg(s) == MapSeq(OCallKind, SelectSeq(s, OutKind))
ORets(s) == SelectSeq(s, ORetOut)
OCur(c) == CASE c.k \in {"wait", "updaddr", "deadline"} -> NoCall
             [] c.k = "req" -> [c EXCEPT !.k = "tx", !.st = IF c.st = "new" THEN "entered" ELSE c.st]
             [] OTHER -> c
OItem(it) == CASE it.t = "get" -> "stanza_reply" [] it.t = "herr" -> "stanza_herr" [] it.t = "resp" -> "stanza" [] OTHER -> it.t
OSv == [sv EXCEPT !.phase = IF sv.phase \in {"lookup", "offer", "handed", "tohandler"} THEN "reading" ELSE sv.phase]

O == INSTANCE Output WITH
       Procs <- Procs, Programs <- Seq({"tx", "close", "serve", "rx"}),
       PeerScripts <- Seq({"stanza", "stanza_reply", "stanza_herr", "close", "streamerr", "eof"}),
       MaxChunks <- MaxChunks, Dev <- {},
       prog <- [p \in Procs |-> OProg(prog[p])], cur <- [p \in Procs |-> OCur(cur[p])], lock <- lock,
       outClosed <- OutClosed, inClosed <- InClosed, wire <- wire,
       rets <- [p \in Procs |-> ORets(rets[p])],
       peer <- MapSeq(OItem, inbox \o script), avail <- Len(inbox), failArmed <- FALSE, dl <- (IF deadline THEN "passed" ELSE "none"),
       broken <- FALSE, sv <- OSv,
       sh <- [got |-> (CASE sv.reason = "peerclose" -> "close" [] sv.reason = "streamerr" -> "streamerr" [] sv.reason = "herr" -> "stanza_herr" [] sv.reason = "eof" -> "eof" [] OTHER -> "none"), stale |-> "no"]

OutputSpec == O!Spec
(* Output.tla's invariants on the mapped variables (implied by OutputSpec; checked on   *)
(* their own in the configurations where the full refinement check is too dear)          *)
OutputInvs == /\ O!C10_OneCloseTag /\ O!C10_NothingAfterClose /\ O!C10_ClosedIffTag /\ O!C10_SendersRefused
              /\ O!C10_BothClosedAfterServe /\ O!C05_Contiguous /\ O!C05_NoStrayWrites
=============================================================================
