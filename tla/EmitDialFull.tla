---------------------------- MODULE EmitDialFull ----------------------------
(* The same for the thorough tier's universe (MCDialFull).                                    *)
EXTENDS MCDialFull, Json, SequencesExt
ASSUME \A i \in DOMAIN PartsFull : ndJsonSerialize("dial_scen_" \o ToString(i) \o ".ndjson", SetToSeq(PartsFull[i]))
=============================================================================
