#!/usr/bin/env python3
"""dev helper: apply a textual mutation to a scratch worktree of /repo and run checks against it.
usage: tools/mutant.py <file> <old> <new> -- <property ids...>      (old/new: literal strings, \\n allowed)
   or: tools/mutant.py --patch <patch.diff> -- <ids...>
Prints the verdict of each check; the worktree is removed afterwards."""
import os, subprocess, sys, tempfile, shutil
args = sys.argv[1:]
sep = args.index("--")
spec, ids = args[:sep], args[sep + 1:]
wt = tempfile.mkdtemp(prefix="mut-", dir="/tmp")
os.rmdir(wt)
subprocess.run(["git", "-C", "/repo", "worktree", "add", "--detach", "-q", wt, "HEAD"], check=True)
try:
    if spec[0] == "--patch":
        subprocess.run(["git", "-C", wt, "apply", os.path.abspath(spec[1])], check=True)
    else:
        f, old, new = spec
        old = old.encode().decode("unicode_escape"); new = new.encode().decode("unicode_escape")
        p = os.path.join(wt, f)
        s = open(p).read()
        if old not in s:
            print("MUTATION DOES NOT APPLY"); sys.exit(3)
        open(p, "w").write(s.replace(old, new, 1))
    env = dict(os.environ, GOFLAGS="-mod=mod", GOPROXY="off", GOSUMDB="off", GOTOOLCHAIN="local")
    b = subprocess.run(["go", "build", "./..."], cwd=wt, env=env, capture_output=True, text=True)
    if b.returncode != 0:
        print("MUTANT DOES NOT BUILD\n", b.stderr[-2000:]); sys.exit(3)
    if os.environ.get("MUT_TESTS", "1") == "1":
        t = subprocess.run(["go", "test", "-vet=off", "-count=1", "./..."], cwd=wt, env=env, capture_output=True, text=True)
        fails = [l for l in t.stdout.splitlines() if l.startswith("FAIL") or l.startswith("--- FAIL")]
        print("repo tests:", "PASS" if t.returncode == 0 else "FAIL %s" % fails[:5])
    env["VERIF_REPO"] = wt
    for pid in ids:
        r = subprocess.run(["/verif/bin/check", pid] + (["--tier", os.environ["TIER"]] if "TIER" in os.environ else []), env=env, capture_output=True, text=True)
        tail = [l for l in r.stdout.splitlines() if l.startswith(("VIOLATION", "OK", "UNDECIDED", "KNOWN", "   "))]
        print(pid, "exit", r.returncode, "|", " ; ".join(tail[:3])[:600])
finally:
    subprocess.run(["git", "-C", "/repo", "worktree", "remove", "--force", wt])
    shutil.rmtree(wt, ignore_errors=True)
