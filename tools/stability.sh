#!/bin/sh
# tools/stability.sh N id... : run each check N times on the unchanged tree, report non-zero exits
N=$1; shift
cd "$(dirname "$0")/.."
for c in "$@"; do
  bad=0
  for i in $(seq 1 $N); do
    VERIF_SEED=$i bin/check $c > /tmp/stab-$c-$i.log 2>&1 || { bad=$((bad+1)); echo "$c run $i exit non-zero: $(grep -E 'VIOLATION|UNDECIDED' /tmp/stab-$c-$i.log | head -1 | cut -c1-200)"; }
  done
  echo "$c: $bad/$N non-zero"
done
