#!/bin/sh
# tools/seedrun.sh <seed-name|patch-file> <ID> [more bin/check args]: run one check against a scratch worktree with the change applied
p=$1; shift
[ -f "$p" ] || p=/verif/seeded/$p/patch.diff
wt=$(mktemp -d /tmp/seedrun-XXXXXX); rmdir $wt
git -C /repo worktree add --detach -q $wt HEAD || exit 3
(cd $wt && (git apply --3way "$p" 2>/dev/null || git apply "$p")) || { echo "patch does not apply"; git -C /repo worktree remove --force $wt; exit 3; }
VERIF_REPO=$wt /verif/bin/check "$@"; rc=$?
git -C /repo worktree remove --force $wt; rm -rf $wt
exit $rc
