#!/bin/sh
# tools/reseed.sh <seed-name>... : re-confirm stored seeds against the current /repo HEAD and checks (refreshes meta.json)
cd "$(dirname "$0")/.."
for n in "$@"; do
  pid=$(echo $n | cut -c1-3)
  t=$(mktemp -d /tmp/reseed-XXXXXX); cp seeded/$n/* $t/; rm -f $t/meta.json
  python3 tools/seedcheck.py $t $pid $n > /tmp/reseed-$n.json 2>&1
  python3 -c "
import json,sys
t=open('/tmp/reseed-$n.json').read(); r=json.loads(t[t.index('{'):t.rindex('}')+1])
print('$n', 'confirmed=%s check_exit=%s'%(r.get('confirmed'), r.get('check_exit')), {k:r.get(k) for k in ('applies','builds','repo_tests_pass_with_change','demo_fails_with_change','demo_passes_without_change') if not r.get(k)})"
  rm -rf $t
done
