#!/bin/sh
# tools/runall_repo.sh <repo-dir> [ids...] : run checks (quick) against another tree via VERIF_REPO, one line each
R=$1; shift
cd "$(dirname "$0")/.."
ids="$@"; [ -z "$ids" ] && ids=$(python3 -c "import json;print(' '.join(c['property_id'] for c in json.load(open('MANIFEST.json'))['checks']))")
for c in $ids; do
  s=$(date +%s); VERIF_REPO=$R bin/check $c > /tmp/runrepo-$c.log 2>&1; rc=$?
  echo "$c exit=$rc $(( $(date +%s) - s ))s $(grep -E 'VIOLATION|UNDECIDED' /tmp/runrepo-$c.log | head -1 | cut -c1-160)"
done
