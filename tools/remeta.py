#!/usr/bin/env python3
"""tools/remeta.py <seed-name>...: re-run the property's quick check against each stored seeded change (already
confirmed by tools/seedcheck.py: applies, builds, repository tests pass, demonstration fails with / passes without)
and refresh check_exit / check_says / detected_by in its meta.json.  The seed is applied to a scratch worktree of
/repo HEAD; a patch that no longer applies is reported and left alone."""
import json, os, subprocess, sys, tempfile, shutil
for name in sys.argv[1:]:
    d = os.path.join("/verif/seeded", name)
    mp = os.path.join(d, "meta.json")
    m = json.load(open(mp)) if os.path.exists(mp) else {"property": name[:3]}
    pid = os.environ.get("REMETA_CHECK") or m.get("property") or name[:3]
    wt = tempfile.mkdtemp(prefix="remeta-", dir="/tmp"); os.rmdir(wt)
    subprocess.run(["git", "-C", "/repo", "worktree", "add", "--detach", "-q", wt, "HEAD"], check=True)
    try:
        p = subprocess.run(["git", "apply", os.path.join(d, "patch.diff")], cwd=wt, capture_output=True, text=True)
        if p.returncode != 0:
            p = subprocess.run(["git", "apply", "--3way", os.path.join(d, "patch.diff")], cwd=wt, capture_output=True, text=True)
        if p.returncode != 0:
            print(name, "patch does not apply to HEAD:", p.stderr.strip()[:200]); continue
        p = subprocess.run(["/verif/bin/check", pid], env=dict(os.environ, VERIF_REPO=wt), capture_output=True, text=True)
        lines = [l for l in p.stdout.splitlines() if l.startswith(("VIOLATION", "OK", "UNDECIDED", "KNOWN", "   "))]
        m["check_exit"] = p.returncode
        m["check_says"] = " ; ".join(lines[:2])[:500]
        m["detected_by"] = ("bin/check %s (quick), exit 1" % pid) if p.returncode == 1 and any(l.startswith("VIOLATION") for l in lines) \
            else "NOT DETECTED by bin/check %s quick (exit %d)" % (pid, p.returncode)
        m["checked_at_repo_head"] = subprocess.check_output(["git", "-C", "/repo", "log", "-1", "--format=%h"], text=True).strip()
        json.dump(m, open(mp, "w"), indent=1); open(mp, "a").write("\n")
        print(name, m["detected_by"], flush=True)
    finally:
        subprocess.run(["git", "-C", "/repo", "worktree", "remove", "--force", wt])
        shutil.rmtree(wt, ignore_errors=True)
