#!/usr/bin/env python3
# dev helper: tools/mc.py <Module> <cfgfile> [workers] [timeout]
import sys, os
sys.path.insert(0, os.path.join(os.path.dirname(os.path.dirname(os.path.abspath(__file__))), "lib"))
import verif
ctx = verif.Ctx("dev", "quick", 1)
try:
    r = ctx.tlc(sys.argv[1], open(sys.argv[2]).read(), workers=int(sys.argv[3]) if len(sys.argv) > 3 else None,
                timeout=int(sys.argv[4]) if len(sys.argv) > 4 else 600, extra=sys.argv[5:])
    tail = r.out[r.out.find("Starting..."):]
    print(tail[-int(os.environ.get("TAIL", "3000")):])
    print("rc", r.rc, "gen", r.generated, "distinct", r.distinct, "wall %.1f" % r.wall)
finally:
    ctx.cleanup()
