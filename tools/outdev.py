import sys; sys.path.insert(0,'/verif/lib'); sys.path.insert(0,'/verif/checks')
import verif, outcommon as oc, json, os
ctx=verif.Ctx("C10","quick",1)
try:
    scen=oc.scenarios(os.environ.get("TIER","quick"), os.environ.get("FOCUS","close"))
    if os.environ.get("SCEN"): scen=json.loads(os.environ["SCEN"])
    if os.environ.get("ONLY"): scen=[scen[int(i)] for i in os.environ["ONLY"].split(",")]
    print(len(scen),"scenarios")
    files,summ=oc.explore(ctx,scen,int(os.environ.get("PRE","1")), int(os.environ.get("MAXRUNS","0")))
    print({k:v for k,v in summ.items() if k!="samples"})
    tr,meta=oc.merge_traces(ctx,files)
    rej,r=oc.validate(ctx,tr,["a","b","c","s"])
    print(r.out[-400:])
    print("rejected",len(rej),"of",summ["traces"], "tlc states", r.distinct, "wall %.1f"%r.wall)
    trs=verif.split_traces(verif.read_ndjson(tr))
    for t,hw in list(sorted(rej.items()))[:int(os.environ.get("SHOW","3"))]:
        print("---- trace",t,"stopped at line",hw, json.dumps(meta[t]))
        for e in trs[t]:
            mark = ">>" if e["_line"]==hw else "  "
            print(mark,e["_line"],json.dumps({k:v for k,v in e.items() if k!="_line"})[:220])
finally:
    ctx.cleanup()
