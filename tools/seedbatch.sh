#!/bin/sh
# tools/seedbatch.sh <round-letter-dir-prefix> e.g. /tmp/seed6-h-out 6h : confirm each numbered change of a seeder's
# output directory with tools/seedcheck.py (property id taken from the first line of notes.md)
out=$1; tag=$2
cd "$(dirname "$0")/.."
for d in "$out"/[0-9]*; do
  [ -f "$d/patch.diff" ] || continue
  n=$(basename "$d")
  pid=$(head -3 "$d/notes.md" | grep -o 'C[0-9][0-9]' | head -1)
  [ -z "$pid" ] && { echo "$d: no property id"; continue; }
  python3 tools/seedcheck.py "$d" "$pid" "$pid-$tag$n" > "/tmp/seedchk-$pid-$tag$n.json" 2>&1
  python3 - "/tmp/seedchk-$pid-$tag$n.json" "$pid-$tag$n" <<'P'
import json,sys,re
t=open(sys.argv[1]).read()
try:
    i=t.index('{'); r=json.loads(t[i:t.rindex('}')+1])
    print(sys.argv[2], 'confirmed=%s'%r.get('confirmed'), 'check_exit=%s'%r.get('check_exit'), {k:r[k] for k in ('applies','builds','repo_tests_pass_with_change','demo_fails_with_change','demo_passes_without_change') if not r.get(k)}, (r.get('check_says') or '')[:160])
except Exception as e:
    print(sys.argv[2], 'unparsed', t[-300:])
P
done
