#!/usr/bin/env python3
import json, os, subprocess, sys
ROOT = os.path.dirname(os.path.dirname(os.path.abspath(__file__)))
sys.path.insert(0, os.path.join(ROOT, "lib"))
import registry
props = [json.loads(l)["id"] for l in open(os.path.join(ROOT, "properties.jsonl"))]
hooks = subprocess.run(["git", "-C", "/repo", "log", "--format=%H", "--grep", "^verif hook"], capture_output=True, text=True).stdout.split()
na_extra = getattr(registry, "NOT_APPLICABLE", {})
checks = []
for pid in props:
    c = registry.CHECKS.get(pid)
    if not c:
        continue
    checks.append({
        "property_id": pid,
        "quick_cmd": "bin/check %s --tier quick" % pid,
        "thorough_cmd": "bin/check %s --tier thorough" % pid,
        "evidence_file": "evidence/%s.json" % pid,
        "replay_cmd_template": "bin/check %s --replay {path}" % pid,
        "engine": "tlc+go-harness",
        "level_claimed": {"category": c["level"], "text": c["text"], "design_ref": c["design_ref"]},
        "level_note": c["note"],
        "technique": c["technique"],
    })
m = {
    "version": 1,
    "setup_cmd": "bin/setup",
    "hooks": {
        "guard": "verif",
        "enable": "go build -tags verif (the harness module replaces mellium.im/xmpp with /repo's working tree)",
        "baseline_off_cmd": "cd /repo && GOFLAGS=-mod=mod GOPROXY=off GOSUMDB=off GOTOOLCHAIN=local go test -json -vet=off -count=1 -timeout 25m ./...",
        "source_commits": hooks,
        "add_only": True,
    },
    "engines": [
        {"name": "tlc", "path": "tla/", "serves_properties": [c["property_id"] for c in checks],
         "kind_free_text": "TLA+ specifications (one module per family + MC_/Tr_ wrappers) checked by TLC 1.8: exhaustive design checks, vector/scenario emission, batch trace validation"},
        {"name": "go-harness", "path": "harness/", "serves_properties": [c["property_id"] for c in checks],
         "kind_free_text": "Go drivers (module verifharness, replace mellium.im/xmpp => /repo, -tags verif) that run the real library on generated scenarios/vectors/schedules and record ndjson traces"},
    ],
    "checks": checks,
    "notes": "bin/check <id> [--tier quick|thorough] [--replay file]; exit 0 held, 1 violation, 2 undecided. See DESIGN.md.",
    "not_applicable": [{"property_id": p, "reason": na_extra.get(p, registry.NOT_YET)} for p in props if p not in registry.CHECKS],
}
json.dump(m, open(os.path.join(ROOT, "MANIFEST.json"), "w"), indent=1)
print("MANIFEST.json: %d checks, %d not_applicable" % (len(checks), len(m["not_applicable"])))
