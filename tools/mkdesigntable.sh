#!/bin/sh
# regenerates the seeded-change table inside DESIGN.md (between the seedtable markers)
cd /verif
python3 tools/seedtable.py > /tmp/.seedtable.$$
python3 - /tmp/.seedtable.$$ <<'PY'
import re, sys
t = open(sys.argv[1]).read()
s = open("/verif/DESIGN.md").read()
s = re.sub(r"<!-- seedtable -->\n.*?<!-- /seedtable -->\n", lambda m: "<!-- seedtable -->\n" + t + "<!-- /seedtable -->\n", s, flags=re.S)
open("/verif/DESIGN.md", "w").write(s)
PY
rm -f /tmp/.seedtable.$$
