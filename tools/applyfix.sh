#!/bin/sh
# tools/applyfix.sh <diff> <pkgs to test> <<< commit message on stdin
set -e
export GOFLAGS=-mod=mod GOPROXY=off GOSUMDB=off GOTOOLCHAIN=local
d=$(readlink -f "$1"); pk="$2"
msg=$(cat)
cd /repo
git apply --recount "$d" || git apply --3way "$d"
test -z "$(gofmt -l . | grep -v '^vendor')" || { echo "gofmt complains"; gofmt -l .; }
go build ./... 
go test -vet=off -count=1 -timeout 180s $pk 2>&1 | grep -v "no test files" | tail -5
git add -A
git commit -qm "$msg"
git log --oneline | head -1
