#!/usr/bin/env python3
"""prints the markdown table of /verif/seeded (name, files touched, one-line description, detecting check)"""
import json, os, re
root = "/verif/seeded"
print("| seeded change | touches | what it breaks | flagged by |")
print("|---|---|---|---|")
for n in sorted(os.listdir(root)):
    d = os.path.join(root, n)
    mp = os.path.join(d, "meta.json")
    if not os.path.exists(mp):
        continue
    m = json.load(open(mp))
    patch = open(os.path.join(d, "patch.diff")).read() if os.path.exists(os.path.join(d, "patch.diff")) else ""
    files = sorted(set(re.findall(r"^\+\+\+ b/(\S+)", patch, re.M)))
    desc = m.get("summary") or ""
    if not desc and os.path.exists(os.path.join(d, "notes.md")):
        for line in open(os.path.join(d, "notes.md")):
            line = line.strip()
            if line and not line.startswith("#") and len(line) > 30:
                desc = line
                break
    desc = re.sub(r"\s+", " ", desc)[:150].replace("|", "/")
    print("| %s | %s | %s | %s |" % (n, ", ".join(files), desc, (m.get("detected_by") or "?").replace("|", "/")[:90]))
