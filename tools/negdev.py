import sys; sys.path.insert(0,'/verif/lib'); sys.path.insert(0,'/verif/checks')
import verif, negcommon, json, os
ctx=verif.Ctx("C01","quick",int(os.environ.get("VERIF_SEED","1")))
try:
    pools=negcommon.emit_pool(ctx)
    b=ctx.go_build("neg")
    tr=ctx.path("trace.ndjson")
    out=ctx.run_driver(b,["run",pools[os.environ.get("POOL","pool_quick.json")],"-",tr],env={"NEG_N":os.environ.get("N","300"),"NEG_FAULTS":os.environ.get("FAULTS","0")})
    print(out[-200:])
    rej,r=negcommon.validate(ctx,tr, dev=set(filter(None,os.environ.get("DEV","").split(","))))
    print(r.out[-600:])
    print("rejected",len(rej))
    evs=verif.read_ndjson(tr); trs=verif.split_traces(evs)
    meta={m["t"]:m["meta"] for m in verif.read_ndjson(tr+".meta")}
    for t,hw in list(sorted(rej.items()))[:int(os.environ.get("SHOW","4"))]:
        print("---- trace",t,"stopped at line",hw, json.dumps(meta[t]))
        for e in trs[t]:
            mark = ">>" if e["_line"]==hw else "  "
            print(mark,e["_line"],json.dumps({k:v for k,v in e.items() if k!="_line"}))
finally:
    ctx.cleanup()
