#!/bin/sh
# tools/controls.sh [names...]: run the checks of the touched area against every negative control (behaviour-preserving
# refactorings and benign behaviour changes under seeded/): every run must exit 0
cd "$(dirname "$0")/.."
names="$@"; [ -z "$names" ] && names=$(ls seeded | grep -E '^(refactor|benign)-')
for n in $names; do
  files=$(grep -h '^+++ ' seeded/$n/patch.diff | sed 's#+++ b/##')
  ids=""
  for f in $files; do
    case $f in
      features.go|negotiator.go) ids="$ids C01 C02 C04 C12";;
      internal/stream/*) ids="$ids C12 C08 C01 XFRAME";;
      jid/*) ids="$ids C11 C16";;
      session.go) ids="$ids C05 C06 C07 C08 C10 C04";;
      styling/*) ids="$ids C17";;
      muc/*) ids="$ids C18 C06 C09";;
      ibb/*) ids="$ids C15 C09";;
      stanza/*) ids="$ids C13 C05";;
      disco/*) ids="$ids C20 C19";;
      internal/attr/*) ids="$ids C05 C06";;
      bind.go) ids="$ids C12 C04";;
      form/*) ids="$ids C19 C20";;
      mux/*) ids="$ids C14 C07 C08";;
      starttls.go|sasl.go) ids="$ids C02 C03";;
      *) ids="$ids C09";;
    esac
  done
  ids=$(echo $ids | tr ' ' '\n' | sort -u | tr '\n' ' ')
  wt=$(mktemp -d /tmp/ctl-XXXXXX); rmdir $wt
  git -C /repo worktree add --detach -q $wt HEAD || continue
  if ! (cd $wt && (git apply --3way seeded/../$PWD/seeded/$n/patch.diff 2>/dev/null || git apply /verif/seeded/$n/patch.diff)); then
    echo "$n: patch does not apply to the current HEAD"; git -C /repo worktree remove --force $wt; continue
  fi
  (cd $wt && GOFLAGS=-mod=mod GOPROXY=off GOSUMDB=off GOTOOLCHAIN=local go build ./... ) || { echo "$n: does not build"; git -C /repo worktree remove --force $wt; continue; }
  for c in $ids; do
    s=$(date +%s); VERIF_REPO=$wt bin/check $c > /tmp/ctl-$n-$c.log 2>&1; rc=$?
    echo "$n $c exit=$rc $(( $(date +%s) - s ))s $(grep -E '^VIOLATION|^UNDECIDED' /tmp/ctl-$n-$c.log | head -1 | cut -c1-200)"
  done
  git -C /repo worktree remove --force $wt; rm -rf $wt
done
