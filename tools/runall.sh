#!/bin/sh
# tools/runall.sh [tier] [ids...]: refresh evidence of the registered checks (default: all, quick) on /repo,
# sequentially; prints one line per check
cd "$(dirname "$0")/.."
tier=${1:-quick}; [ $# -gt 0 ] && shift
ids="$@"; [ -z "$ids" ] && ids=$(python3 -c "import json;print(' '.join(c['property_id'] for c in json.load(open('MANIFEST.json'))['checks']))")
for c in $ids; do
  s=$(date +%s); bin/check $c --tier $tier > /tmp/runall-$c.log 2>&1; rc=$?
  echo "$c exit=$rc $(( $(date +%s) - s ))s $(grep -c KNOWN-FINDING /tmp/runall-$c.log) known-findings"
done
