#!/bin/sh
# refresh every registered check's evidence on /repo (quick tier), sequentially; prints one line per check
cd "$(dirname "$0")/.."
for c in $(python3 -c "import json;print(' '.join(c['property_id'] for c in json.load(open('MANIFEST.json'))['checks']))"); do
  s=$(date +%s); bin/check $c --tier ${1:-quick} > /tmp/runall-$c.log 2>&1; rc=$?
  echo "$c exit=$rc $(( $(date +%s) - s ))s $(grep -c KNOWN-FINDING /tmp/runall-$c.log) known-findings"
done
