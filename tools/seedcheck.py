#!/usr/bin/env python3
"""tools/seedcheck.py <seed-out-dir> <PROPERTY> [name]
Confirms an independently produced seeded change and runs our check against it:
 (a) patch applies to /repo HEAD and builds, (b) repository tests pass with it, (c) its demonstration
 fails with it, (d) and passes without it; then bin/check <PROPERTY> with VERIF_REPO=<worktree>.
Keeps the confirmed change as /verif/seeded/<name>/ (patch.diff, demo, notes.md, meta.json)."""
import json, os, re, shutil, subprocess, sys, tempfile
src, pid = sys.argv[1], sys.argv[2]
name = sys.argv[3] if len(sys.argv) > 3 else "%s-%s" % (pid, os.path.basename(src.rstrip("/")))
env = dict(os.environ, GOFLAGS="-mod=mod", GOPROXY="off", GOSUMDB="off", GOTOOLCHAIN="local")
demo = [f for f in os.listdir(src) if f.endswith("_test.go") or f.endswith(".go")]
demo = demo[0] if demo else None
head = open(os.path.join(src, demo)).read(3000) if demo else ""
m = re.search(r"[Pp]lace (?:this file )?in(?: the)? (?:directory )?[`'\"]?([\w./-]+/|repo(?:sitory)? root|the repo(?:sitory)? root|root)", head)
place = "."
if m and "root" not in m.group(1):
    place = m.group(1).strip("/")
pkg = "./" + place if place != "." else "."
res = {"property": pid, "source": src, "demo": demo, "demo_dir": place}

def sh(args, cwd, timeout=900):
    p = subprocess.run(args, cwd=cwd, env=env, capture_output=True, text=True, timeout=timeout)
    return p.returncode, (p.stdout + p.stderr)

tags = ["-tags", "verif"] if re.search(r"-tags[ =]verif|//go:build verif", open(os.path.join(src, demo)).read() + (open(os.path.join(src, "notes.md")).read() if os.path.exists(os.path.join(src, "notes.md")) else "")) else []
res["demo_tags"] = " ".join(tags)

def demo_run(wt):
    dst = os.path.join(wt, place, "zz_seed_demo_test.go")
    shutil.copy(os.path.join(src, demo), dst)
    try:
        rc, out = sh(["go", "test", "-vet=off", "-count=1", "-timeout", "120s"] + tags + ["-run", "Demo|Seed|Violation|C[0-9][0-9]", pkg], wt)
        if "no tests to run" in out:
            rc, out = sh(["go", "test", "-vet=off", "-count=1", "-timeout", "180s"] + tags + [pkg], wt)
        return rc, out
    finally:
        os.remove(dst)

wt = tempfile.mkdtemp(prefix="seedchk-", dir="/tmp"); os.rmdir(wt)
subprocess.run(["git", "-C", "/repo", "worktree", "add", "--detach", "-q", wt, "HEAD"], check=True)
try:
    rc, out = demo_run(wt)
    res["demo_passes_without_change"] = rc == 0
    if rc != 0: res["demo_without_output"] = out[-1500:]
    rc, out = sh(["git", "apply", "--3way", os.path.abspath(os.path.join(src, "patch.diff"))], wt)
    if rc != 0:
        rc, out = sh(["git", "apply", os.path.abspath(os.path.join(src, "patch.diff"))], wt)
    res["applies"] = rc == 0
    if rc != 0:
        res["apply_output"] = out[-800:]
        print(json.dumps(res, indent=1)); sys.exit(3)
    rc, out = sh(["go", "build", "./..."], wt); res["builds"] = rc == 0
    rc, out = sh(["go", "test", "-vet=off", "-count=1", "-timeout", "120s", "./..."], wt)
    fails = [l for l in out.splitlines() if l.startswith(("FAIL", "--- FAIL", "panic: test timed out"))]
    if rc != 0 and any("TestResponseToTimedOutIQ" in out for _ in [0]) and len([f for f in fails if f.startswith("--- FAIL")]) == 0:
        rc, out = sh(["go", "test", "-vet=off", "-count=1", "-timeout", "120s", "./..."], wt)
        fails = [l for l in out.splitlines() if l.startswith(("FAIL", "--- FAIL", "panic: test timed out"))]
    res["repo_tests_pass_with_change"] = rc == 0
    if rc != 0: res["repo_test_failures"] = fails[:6]
    rc, out = demo_run(wt)
    res["demo_fails_with_change"] = rc != 0
    e2 = dict(env, VERIF_REPO=wt)
    p = subprocess.run(["/verif/bin/check", pid], env=e2, capture_output=True, text=True)
    lines = [l for l in p.stdout.splitlines() if l.startswith(("VIOLATION", "OK", "UNDECIDED", "KNOWN", "   "))]
    res["check_exit"] = p.returncode
    res["check_says"] = " ; ".join(lines[:2])[:500]
    if os.environ.get("SEED_THOROUGH") and p.returncode == 0:
        p = subprocess.run(["/verif/bin/check", pid, "--tier", "thorough"], env=e2, capture_output=True, text=True)
        res["check_thorough_exit"] = p.returncode
finally:
    subprocess.run(["git", "-C", "/repo", "worktree", "remove", "--force", wt])
    shutil.rmtree(wt, ignore_errors=True)
ok = res.get("applies") and res.get("builds") and res.get("repo_tests_pass_with_change") and res.get("demo_fails_with_change") and res.get("demo_passes_without_change")
res["confirmed"] = bool(ok)
if ok:
    d = os.path.join("/verif/seeded", name)
    os.makedirs(d, exist_ok=True)
    for f in os.listdir(src):
        if f.endswith((".diff", ".go", ".md")):
            shutil.copy(os.path.join(src, f), d)
    res["what_it_needs"] = "see notes.md"
    res["detected_by"] = ("bin/check %s (quick), exit %s" % (pid, res["check_exit"])) if res["check_exit"] == 1 else "NOT DETECTED by bin/check %s quick (exit %s)" % (pid, res["check_exit"])
    json.dump(res, open(os.path.join(d, "meta.json"), "w"), indent=1)
print(json.dumps({k: v for k, v in res.items() if k not in ("demo_without_output",)}, indent=1))
