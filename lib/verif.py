"""Shared machinery for the /verif checks.

Every check is a python function run(ctx) in checks/<id>.py.  This module gives it
  * a scratch directory (removed at exit),
  * go_build(): the harness drivers built with -tags verif against /repo's working tree,
  * tlc(): one TLC run in a scratch copy of tla/ (always under timeout, own -metadir),
  * validate_traces(): batch trace validation (one initial state per trace, per-trace
    high-water registers, all rejections reported by one run),
  * known findings, VIOLATION lines with replay files, evidence files.

Exit codes: 0 held / 1 violation (VIOLATION line printed) / 2 undecided (never a violation).
"""
import hashlib
import json
import os
import re
import shutil
import subprocess
import fcntl
import random
import sys
import tempfile
import time

ROOT = os.path.dirname(os.path.dirname(os.path.abspath(__file__)))
REPO = os.environ.get("VERIF_REPO", "/repo")
TLA_DIR = os.path.join(ROOT, "tla")
HARNESS = os.path.join(ROOT, "harness")
# runs against another tree (VERIF_REPO: seeded changes, controls) must not overwrite the evidence of /repo
EVIDENCE = os.environ.get("VERIF_EVIDENCE") or os.path.join(ROOT, "evidence-alt" if "VERIF_REPO" in os.environ else "evidence")
NCPU = os.cpu_count() or 4

GOENV = dict(os.environ)
GOENV.update({
    "GOFLAGS": "-mod=mod", "GOPROXY": "off", "GOSUMDB": "off", "GOTOOLCHAIN": "local",
    "CGO_ENABLED": "0",
})


class Undecided(Exception):
    """The machinery could not decide (exit 2). Never reported as a violation."""


class TLCResult:
    def __init__(self, rc, out, wall):
        self.rc = rc
        self.out = out
        self.wall = wall
        ms = re.findall(r"([\d,]+) states generated[^\n]*?, ([\d,]+) distinct states found[^\n]*?, ([\d,]+) states left", out)
        m = ms[-1] if ms else None       # the final summary line, not a progress line
        num = lambda x: int(x.replace(",", ""))
        self.generated = num(m[0]) if m else 0
        self.distinct = num(m[1]) if m else 0
        self.left = num(m[2]) if m else 0
        m = re.search(r"depth of the complete state graph search is (\d+)", out)
        self.depth = int(m.group(1)) if m else 0
        self.violated = re.findall(r"Error: Invariant (\S+) is violated", out)
        self.violated += re.findall(r"Error: Action property (\S+) is violated", out)
        if re.search(r"Error: Temporal properties were violated", out):
            self.violated.append("<temporal>")
        self.errors = [l for l in out.splitlines() if l.startswith("Error:")]
        self.finished = "Model checking completed" in out or "Finished in" in out

    @property
    def ok(self):
        return self.rc == 0 and not self.errors

    def printed(self, marker):
        """Values printed with PrintT(<<"marker", ...>>): the raw text following each marker,
        up to the next TLC message line."""
        res = []
        for m in re.finditer(r'<<\s*"' + re.escape(marker) + r'",', self.out):
            rest = self.out[m.end():]
            stop = re.search(r"^(Error:|Finished|Progress|Model checking|\d+ states generated|<<\s*\")", rest, re.M)
            res.append(rest[:stop.start()] if stop else rest)
        return res



class _Slot:
    """Machine-wide bound on the number of concurrently running heavy child processes (TLC JVMs, drivers).
    Several checks may run at the same time (development, seeded-change sweeps); without a bound fifty JVMs
    of several gigabytes each were seen at once and the kernel's OOM killer decided the outcome.  A check
    that runs alone is never delayed: it does not start more children at a time than there are slots."""

    def __init__(self, kind, n):
        self.kind, self.n, self.f = kind, n, None

    def __enter__(self):
        if self.n <= 0:
            return self
        d = os.path.join(tempfile.gettempdir(), "verif-slots")
        os.makedirs(d, exist_ok=True)
        while True:
            for k in range(self.n):
                f = open(os.path.join(d, "%s-%d" % (self.kind, k)), "w")
                try:
                    fcntl.flock(f, fcntl.LOCK_EX | fcntl.LOCK_NB)
                    self.f = f
                    return self
                except OSError:
                    f.close()
            time.sleep(0.3 + random.random())

    def __exit__(self, *a):
        if self.f:
            self.f.close()
            self.f = None


TLC_SLOTS = int(os.environ.get("VERIF_TLC_SLOTS", "6"))
DRIVER_SLOTS = int(os.environ.get("VERIF_DRIVER_SLOTS", "8"))

class Ctx:
    def __init__(self, pid, tier, seed):
        self.pid = pid
        self.tier = tier
        self.seed = seed
        self.t0 = time.time()
        self.scratch = tempfile.mkdtemp(prefix="verif-%s-" % pid)
        self.violations = []        # (what, replay path)
        self.known = []             # KNOWN-FINDING lines
        self.notes = []
        self.findings = load_findings()
        self._built = {}

    # ---------------------------------------------------------------- scratch
    def cleanup(self):
        shutil.rmtree(self.scratch, ignore_errors=True)

    def path(self, *p):
        d = os.path.join(self.scratch, *p)
        os.makedirs(os.path.dirname(d), exist_ok=True)
        return d

    def log(self, *a):
        print("[%s %6.1fs]" % (self.pid, time.time() - self.t0), *a, flush=True)

    # ---------------------------------------------------------------- Go side
    def _modfile(self):
        """go.mod/go.sum for the harness, pointing at REPO (the tree under test)."""
        mod = os.path.join(self.scratch, "harness.mod")
        if not os.path.exists(mod):
            txt = open(os.path.join(HARNESS, "go.mod")).read()
            txt = re.sub(r"replace mellium.im/xmpp => \S+", "replace mellium.im/xmpp => " + REPO, txt)
            open(mod, "w").write(txt)
            shutil.copy(os.path.join(REPO, "go.sum"), os.path.join(self.scratch, "harness.sum"))
        return mod

    def go_build(self, cmd, tags="verif", race=False):
        key = (cmd, tags, race)
        if key in self._built:
            return self._built[key]
        out = self.path("bin", cmd + ("-race" if race else ""))
        args = ["go", "build", "-modfile=" + self._modfile(), "-tags", tags, "-o", out]
        env = dict(GOENV)
        if race:
            args.insert(2, "-race")
            env["CGO_ENABLED"] = "1"
        args.append("./cmd/" + cmd)
        t = time.time()
        p = subprocess.run(args, cwd=HARNESS, env=env, stdout=subprocess.PIPE, stderr=subprocess.STDOUT, text=True)
        if p.returncode != 0:
            raise Undecided("go build %s failed:\n%s" % (cmd, p.stdout[-4000:]))
        self.log("built driver %s in %.1fs" % (cmd, time.time() - t))
        self._built[key] = out
        return out

    def run_driver(self, binpath, args, timeout=600, env=None, ok_codes=(0,)):
        e = dict(GOENV)
        e["VERIF_SEED"] = str(self.seed)
        e["VERIF_TIER"] = self.tier
        if env:
            e.update(env)
        try:
            with _Slot("drv", DRIVER_SLOTS):
                p = subprocess.run([binpath] + [str(a) for a in args], cwd=self.scratch, env=e,
                                   stdout=subprocess.PIPE, stderr=subprocess.STDOUT, text=True, timeout=timeout)
        except subprocess.TimeoutExpired as ex:
            raise Undecided("driver %s timed out after %ss: %s" % (os.path.basename(binpath), timeout, (ex.stdout or "")[-2000:]))
        if p.returncode not in ok_codes:
            raise Undecided("driver %s exit %d:\n%s" % (os.path.basename(binpath), p.returncode, p.stdout[-4000:]))
        return p.stdout

    # ---------------------------------------------------------------- TLC
    def tlc(self, module, cfg, files=None, workers=None, timeout=900, deque=False, extra=None,
            name=None, xss=False, heap=None):
        """Run TLC on tla/<module>.tla with the config text cfg in a scratch copy of tla/."""
        name = name or module
        d = tempfile.mkdtemp(prefix="tlc-%s-" % name, dir=self.scratch)
        for f in os.listdir(TLA_DIR):
            if f.endswith(".tla"):
                shutil.copy(os.path.join(TLA_DIR, f), d)
        for fn, src in (files or {}).items():
            dst = os.path.join(d, fn)
            if os.path.exists(src):
                try:
                    os.link(src, dst)
                except OSError:
                    shutil.copy(src, dst)
        open(os.path.join(d, name + ".cfg"), "w").write(cfg)
        env = dict(os.environ)
        os.makedirs(os.path.join(d, "jtmp"), exist_ok=True)
        jto = ["-Djava.io.tmpdir=" + os.path.join(d, "jtmp")]     # TLC leaves an empty tlc-<n> directory there per run
        if deque:
            jto.append("-Dtlc2.tool.queue.IStateQueue=StateDeque")
        if xss:
            jto.append("-Xss512m")
        if heap:
            jto.append("-Xmx" + heap)
        if jto:
            env["JAVA_TOOL_OPTIONS"] = " ".join(jto)
        w = workers or NCPU
        args = ["timeout", str(timeout), "tlc", "-workers", str(w), "-metadir", os.path.join(d, "meta"),
                "-config", name + ".cfg"] + (extra or []) + [module + ".tla"]
        with _Slot("tlc", TLC_SLOTS):
            t = time.time()
            p = subprocess.run(args, cwd=d, env=env, stdout=subprocess.PIPE, stderr=subprocess.STDOUT, text=True)
        res = TLCResult(p.returncode, p.stdout, time.time() - t)
        res.dir = d
        if p.returncode == 124:
            raise Undecided("TLC %s timed out after %ss" % (name, timeout))
        shutil.rmtree(os.path.join(d, "meta"), ignore_errors=True)
        return res

    def model_check(self, module, cfg, expect_props, **kw):
        """Pipeline A: exhaustive design check. A counterexample here means the SPEC (or its
        bounds) is wrong - exit 2, never a violation of the code."""
        r = self.tlc(module, cfg, **kw)
        if not r.ok or not r.finished:
            raise Undecided("design check %s failed (spec problem, not a code verdict):\n%s" % (module, r.out[-3000:]))
        if r.distinct < 2:
            raise Undecided("design check %s explored %d states (vacuous)" % (module, r.distinct))
        self.log("design check %s: %d generated / %d distinct states, depth %d, %.1fs; properties: %s" % (
            kw.get("name") or module, r.generated, r.distinct, r.depth, r.wall, ", ".join(expect_props)))
        return r

    def validate_traces(self, module, trace_file, consts=None, cfg_extra="", timeout=900, deque=False,
                        name=None):
        """Pipeline C: validate a batch trace file against tla/<module>.tla.
        Returns (rejected: dict trace-number -> line index of the event that could not be
        consumed, TLCResult)."""
        cl = ["CONSTANTS"] if consts else []
        for k, v in (consts or {}).items():
            cl.append("  %s = %s" % (k, tla_value(v)))
        cfg = "\n".join(cl + ["SPECIFICATION TSpec", "CONSTRAINT HW", "POSTCONDITION Accepted",
                              "CHECK_DEADLOCK FALSE", cfg_extra, ""])
        r = self.tlc(module, cfg, files={"trace.ndjson": trace_file}, workers=1, timeout=timeout,
                     deque=deque, name=name, xss=True)
        rejected = {}
        body = r.printed("REJECTED")
        if body:
            for m in re.finditer(r"<<(\d+),\s*(\d+)>>", body[-1]):
                rejected[int(m.group(1))] = int(m.group(2))
        other = [e for e in r.errors if "Postcondition" not in e and "postcondition" not in e]
        bad_inv = r.violated
        if bad_inv:
            # an invariant of the spec violated on a REAL trace: find which trace from the printed state
            return rejected, r
        if (r.rc != 0 and not rejected) or (other and not rejected):
            raise Undecided("trace validation %s: TLC error\n%s" % (module, r.out[-3000:]))
        return rejected, r

    # ---------------------------------------------------------------- verdicts
    def violation(self, what, replay):
        os.makedirs(os.path.join(EVIDENCE, "replays", self.pid), exist_ok=True)
        blob = json.dumps(replay, sort_keys=True, default=str)
        h = hashlib.sha1(blob.encode()).hexdigest()[:12]
        p = os.path.join(EVIDENCE, "replays", self.pid, h + ".json")
        with open(p, "w") as f:
            json.dump({"property": self.pid, "what": what, "tier": self.tier, "seed": self.seed, "case": replay},
                      f, indent=1, default=str)
        self.violations.append((what, p))
        return p

    def known_finding(self, entry, detail=""):
        # one line per listed finding (the failing cases it covered are counted in the evidence)
        line = "KNOWN-FINDING: property=%s %s" % (self.pid, entry["what"])
        self.known_cases = getattr(self, "known_cases", {})
        self.known_cases.setdefault(entry.get("id", entry["what"][:40]), []).append(detail)
        if line not in self.known:
            self.known.append(line)

    def match_finding(self, family, fields, what=""):
        """An open known finding of this property whose match predicate covers the failing case:
        entry["match"] maps field names to a value or a list of admissible values (all must hold
        for `fields`), entry["what_contains"] (optional) must occur in the failure description.
        A different failure of the same property does not match and is reported as a violation."""
        for f in self.open_findings(family):
            m = f.get("match", {})
            ok = True
            for k, v in m.items():
                x = fields.get(k)
                if isinstance(v, list):
                    ok = ok and x in v
                else:
                    ok = ok and x == v
            if ok and f.get("what_contains", "") in what:
                return f
        return None

    def open_findings(self, family=None):
        return [f for f in self.findings if f.get("property") == self.pid and f.get("status") == "open"
                and (family is None or f.get("family") == family)]

    def write_evidence(self, level, coverage, assumptions=None):
        os.makedirs(EVIDENCE, exist_ok=True)
        ev = {
            "property_id": self.pid, "tier": self.tier, "seed": self.seed, "level": level,
            "coverage": coverage, "assumptions": assumptions or [],
            "wall_s": round(time.time() - self.t0, 2), "violations": len(self.violations),
            "known_findings": self.known, "notes": self.notes,
        }
        if not isinstance(coverage.get("exhaustive", False), bool):
            coverage["exhaustive_scope"] = str(coverage["exhaustive"])
            coverage["exhaustive"] = True
        path = os.path.join(EVIDENCE, self.pid + ".json")
        if self.replay:
            # a replay re-runs one stored case: it is no coverage run and leaves the property's evidence file alone
            os.makedirs(os.path.join(EVIDENCE, "replays", self.pid), exist_ok=True)
            with open(os.path.join(EVIDENCE, "replays", self.pid, "last-replay.json"), "w") as f:
                json.dump(ev, f, indent=1, default=str)
            return
        with open(path, "w") as f:
            json.dump(ev, f, indent=1, default=str)
        # validate with the tooling venv's jsonschema when present (never fatal for the verdict)
        try:
            p = subprocess.run(["python3-vt", "-c", "import json,jsonschema,sys; jsonschema.validate(json.load(open(sys.argv[1])), json.load(open('/root/.vp/EVIDENCE.schema.json')))", path],
                               stdout=subprocess.PIPE, stderr=subprocess.STDOUT, text=True, timeout=60)
            if p.returncode != 0 and "No such file" not in p.stdout:
                self.log("WARNING: evidence file does not validate: " + p.stdout.strip().splitlines()[-1][:300])
        except Exception:
            pass


def tla_value(v):
    if isinstance(v, bool):
        return "TRUE" if v else "FALSE"
    if isinstance(v, int):
        return str(v)
    if isinstance(v, str):
        return '"%s"' % v
    if isinstance(v, (set, frozenset, list, tuple)):
        return "{" + ", ".join(tla_value(x) for x in sorted(v, key=str)) + "}"
    raise TypeError(v)


def load_findings():
    p = os.path.join(ROOT, "known-findings.json")
    if not os.path.exists(p):
        return []
    return json.load(open(p)).get("findings", [])


def read_ndjson(path):
    with open(path) as f:
        return [json.loads(l) for l in f if l.strip()]


def split_traces(events):
    """events of a batch trace file -> {t: [events]} keyed by the reset line's trace number."""
    res = {}
    cur = None
    for i, e in enumerate(events):
        if e.get("ev") == "reset":
            cur = e["t"]
            res[cur] = []
        e = dict(e)
        e["_line"] = i + 1
        res[cur].append(e)
    return res


def main(argv):
    import argparse
    import importlib
    ap = argparse.ArgumentParser()
    ap.add_argument("pid", nargs="?")
    ap.add_argument("--tier", default=os.environ.get("VERIF_TIER", "quick"))
    ap.add_argument("--replay")
    ap.add_argument("--setup", action="store_true")
    a = ap.parse_args(argv)
    seed = int(os.environ.get("VERIF_SEED", "1") or 1)
    sys.path.insert(0, os.path.join(ROOT, "checks"))
    if a.setup:
        ctx = Ctx("setup", "quick", seed)
        try:
            bad = []
            for d in sorted(os.listdir(os.path.join(HARNESS, "cmd"))):
                try:
                    ctx.go_build(d)
                except Undecided as e:
                    bad.append(d)
                    print("setup: driver %s does not build (its check will report exit 2):\n%s" % (d, str(e)[-600:]))
            p = subprocess.run(["tlc", "-h"], stdout=subprocess.PIPE, stderr=subprocess.STDOUT, text=True)
            print("setup ok" + (" (except %s)" % bad if bad else ""))
            return 0
        finally:
            ctx.cleanup()
    pid = a.pid
    if a.tier not in ("quick", "thorough"):
        a.tier = "quick"
    mod = importlib.import_module(pid.lower())
    ctx = Ctx(pid, a.tier, seed)
    ctx.replay = a.replay
    try:
        mod.run(ctx)
        for l in ctx.known:
            print(l)
        if ctx.violations:
            for what, p in ctx.violations[:20]:
                print("VIOLATION property=%s replay=%s" % (pid, p))
                print("   ", what)
            return 1
        print("OK property=%s tier=%s seed=%d wall=%.1fs" % (pid, a.tier, seed, time.time() - ctx.t0))
        return 0
    except Undecided as e:
        print("UNDECIDED property=%s: %s" % (pid, e))
        return 2
    finally:
        ctx.cleanup()
