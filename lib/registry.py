"""Registry of claimed checks -> MANIFEST.json (tools/mkmanifest.py writes it)."""
HOOK_COMMITS = []   # filled by tools/mkmanifest.py from `git -C /repo log --grep '^verif hook'`

CHECKS = {
 "C01": dict(
    level="model_checking", design_ref="4/C01",
    technique="TLA+ spec Negotiation.tla: TLC exhaustive design check + TLC trace validation of real negotiations (instrumented stream features, scripted peer)",
    text="TLC checks the C01 invariants (eligibility, advertised-or-forced, at most once per stream, voluntary first, fresh header after restart, monotone bits, ready rule, receiver advertises exactly / refuses without running) on every reachable state of Negotiation.tla within small bounds; thousands of scenarios of the REAL negotiator (both roles, arbitrary feature masks, repeated/unknown/out-of-order advertisements and selections, faults, tee) are recorded and every trace must be a behaviour of that specification with all invariants evaluated at every step.",
    note="Trusted: TLC; the instrumented StreamFeature callbacks report the session state truthfully; feature kinds are drawn from the pool in NegPool.tla (<=4 per configuration); a feature that sets Ready is always mandatory."),
 "C05": dict(
    level="model_checking", design_ref="4/C05",
    technique="TLA+ specs Transmit.tla (reference function Complete, TLC-emitted vectors) and Output.tla (output lock, wire log): TLC design check + systematic schedule exploration of the real session with TLC trace validation",
    text="Sequential part: TLC computes from Transmit.tla what every element shape x argument form must look like on the wire (id / namespace / from completion, supplied start element outermost, nothing else altered, exactly one complete element flushed when the call returns) and all 3888 vectors are replayed through the real session. Concurrent part: TLC checks C05_Contiguous / C05_WritesUnderLock / C05_NoStrayWrites on every state of Output.tla; the real session is driven through every gate-level interleaving (pre-emption bounded) of concurrent transmit calls over all entry points and handler replies, with payloads spanning several transport writes, and every recorded schedule must be a behaviour of the spec; the re-parsed wire must show one complete, unmixed element per successful call.",
    note="Trusted: TLC; scheduler gate granularity (verifYield hooks, transport reads/writes, Go blocking primitives); elements are compared after re-parsing (attribute order, quoting, prefixes not compared). Two open known findings (Encode of a WriterTo value is not flushed; a foreign-namespace element named like a stanza is re-qualified)."),
 "C10": dict(
    level="model_checking", design_ref="4/C10",
    technique="TLA+ spec Output.tla (closers, senders, Serve shutdown, error path, peer script): TLC exhaustive design check + systematic schedule exploration of the real session under a single-runner scheduler with TLC trace validation",
    text="TLC checks on every reachable state of Output.tla that at most one closing tag is written, nothing follows it, transmit calls that find the stream closed are refused with the output-closed error without writing, and Serve leaves both directions closed and returns nil / the stream error / another error according to what the peer did. The REAL session is then run through every gate-level interleaving (pre-emption bounded depth-first search) of Close calls, transmit calls, handler replies, handler errors, peer close and peer stream errors; every recorded schedule (hooks, transport writes attributed to goroutines, returns, final re-parsed wire, state bits, a read after Serve) is validated by TLC as a behaviour of the specification with all invariants evaluated at every step.",
    note="Trusted: TLC; gate granularity of the scheduler; runtime.Stack wait states for blocked-goroutine detection. The close-deadline clause is exercised by the thorough tier only as an untimed scenario; whether the stream error element itself reaches the wire before the closing tag is not required (the pinned tests expect it not to)."),
}

NOT_YET = "check not built yet (construction in progress; see DESIGN.md section 7 build order)"
