"""Registry of claimed checks -> MANIFEST.json (tools/mkmanifest.py writes it)."""
HOOK_COMMITS = []   # filled by tools/mkmanifest.py from `git -C /repo log --grep '^verif hook'`

CHECKS = {
 "C01": dict(
    level="model_checking", design_ref="4/C01",
    technique="TLA+ spec Negotiation.tla: TLC exhaustive design check + TLC trace validation of real negotiations (instrumented stream features, scripted peer)",
    text="TLC checks the C01 invariants (eligibility, advertised-or-forced, at most once per stream, voluntary first, fresh header after restart, monotone bits, ready rule, receiver advertises exactly / refuses without running) on every reachable state of Negotiation.tla within small bounds; thousands of scenarios of the REAL negotiator (both roles, arbitrary feature masks, repeated/unknown/out-of-order advertisements and selections, faults, tee) are recorded and every trace must be a behaviour of that specification with all invariants evaluated at every step.",
    note="Trusted: TLC; the instrumented StreamFeature callbacks report the session state truthfully; feature kinds are drawn from the pool in NegPool.tla (<=4 per configuration); a feature that sets Ready is always mandatory."),
}

NOT_YET = "check not built yet (construction in progress; see DESIGN.md section 7 build order)"
